"""Rule engine: result collection, known findings, evidence, exit codes, fact-base cache."""
import fcntl
import hashlib
import json
import os
import shutil
import subprocess
import sys
import time
import traceback

from cfg import Inconclusive
from facts import Facts

VERIF = os.path.dirname(os.path.dirname(os.path.abspath(__file__)))
REPO = os.environ.get("NUCLEO_REPO", "/repo")
CACHE = os.path.join(VERIF, ".cache")


def tree_hash(repo=REPO, extra=""):
    h = hashlib.sha256()
    files = []
    for root, dirs, fs in os.walk(repo):
        dirs[:] = [d for d in dirs if d not in ("target", ".git")]
        for f in fs:
            if f.endswith(".rs") or f in ("Cargo.toml", "Cargo.lock"):
                files.append(os.path.join(root, f))
    for p in sorted(files):
        h.update(os.path.relpath(p, repo).encode())
        h.update(b"\0")
        with open(p, "rb") as fh:
            h.update(fh.read())
        h.update(b"\0")
    # the driver itself is part of the key
    drv = os.path.join(VERIF, "driver", "src", "main.rs")
    with open(drv, "rb") as fh:
        h.update(fh.read())
    h.update(extra.encode())
    return h.hexdigest()[:24]


def ensure_driver():
    drv = os.path.join(VERIF, "driver", "target", "release", "nfacts")
    src = os.path.join(VERIF, "driver", "src", "main.rs")
    if os.path.exists(drv) and os.path.getmtime(drv) >= os.path.getmtime(src):
        return drv
    env = dict(os.environ, CARGO_NET_OFFLINE="true")
    r = subprocess.run(["cargo", "+nightly", "build", "--release", "--offline", "-q"],
                       cwd=os.path.join(VERIF, "driver"), env=env, capture_output=True, text=True)
    if r.returncode != 0:
        raise Inconclusive("driver build failed: " + r.stderr[-2000:])
    return drv


def extract_facts(repo=REPO, features=None):
    """Return (facts_dir, key, cached). features: None (default) or a list of cargo args."""
    extra = " ".join(features or [])
    key = tree_hash(repo, extra)
    os.makedirs(CACHE, exist_ok=True)
    d = os.path.join(CACHE, key)
    lock = open(os.path.join(CACHE, ".lock"), "w")
    fcntl.flock(lock, fcntl.LOCK_EX)
    try:
        want = ["nucleo_matcher.json"] if features else ["nucleo.json", "nucleo_matcher.json"]
        if all(os.path.exists(os.path.join(d, w)) for w in want):
            os.utime(d, None)
            return d, key, True
        ensure_driver()
        tmp = d + ".tmp"
        shutil.rmtree(tmp, ignore_errors=True)
        os.makedirs(tmp)
        cmd = [os.path.join(VERIF, "driver", "run.sh"), repo, tmp]
        if features:
            cmd = [os.path.join(VERIF, "driver", "run_features.sh"), repo, tmp] + features
        r = subprocess.run(cmd, capture_output=True, text=True)
        if r.returncode != 0 or not all(os.path.exists(os.path.join(tmp, w)) for w in want):
            shutil.rmtree(tmp, ignore_errors=True)
            raise Inconclusive("fact extraction failed (does the tree compile?):\n" + (r.stderr or r.stdout)[-3000:])
        shutil.rmtree(d, ignore_errors=True)
        os.rename(tmp, d)
        # prune old entries (keep the 256 most recent, ~3 MB each)
        ents = [os.path.join(CACHE, e) for e in os.listdir(CACHE)
                if os.path.isdir(os.path.join(CACHE, e)) and not e.endswith(".tmp")]
        ents.sort(key=os.path.getmtime, reverse=True)
        for e in ents[256:]:
            shutil.rmtree(e, ignore_errors=True)
        return d, key, False
    finally:
        fcntl.flock(lock, fcntl.LOCK_UN)
        lock.close()


class Ctx:
    """Collects the outcome of all rule instances of one property check."""

    def __init__(self, prop, facts, tier):
        self.prop = prop
        self.facts = facts
        self.tier = tier
        self.oks = []          # (rule, site, detail)
        self.violations = []   # dict(rule,key,site,text)
        self.inconclusive = [] # (rule, reason)
        self.rules_run = []
        self.notes = []
        self.cur = None
        self.tick_flat = False   # True inside the scratch run of a tick rule whose tick part is decided on path traces

    def ok(self, site, detail=""):
        self.oks.append((self.cur, site, detail))

    def violation(self, key, site, text):
        """key: 'function|callee-or-field|ordinal' (rule id is prepended)."""
        self.violations.append({"rule": self.cur, "key": "%s|%s" % (self.cur, key), "site": site, "text": text})

    def fail_closed(self, reason):
        self.inconclusive.append((self.cur, reason))

    def floor(self, what, count, floor):
        if count < floor:
            self.fail_closed("%s: found %d site(s), expected at least %d (anchor moved or analysis lost it)" % (what, count, floor))
            return False
        return True

    def note(self, text):
        self.notes.append("%s: %s" % (self.cur, text))

    def run_rule(self, rule_id, fn, *args):
        self.cur = rule_id
        self.rules_run.append(rule_id)
        n_before = len(self.oks) + len(self.violations) + len(self.inconclusive)
        try:
            if rule_id in TICK_RULES or rule_id in STATE_RULES:
                st = self.facts.adt("nucleo", "State")
                names = [v["name"] for v in st["variants"]] if st else None
                if names != ["Init", "Cleared", "Fresh"] and (rule_id in STATE_RULES or tick_arch_reason(self.facts)):
                    raise Inconclusive("the State enum has been redesigned (variants %s): the rules about restart, the stale-run guard, the stream hand-over and the holder accounting are "
                                       "written for Init / Cleared / Fresh and do not decide another state machine" % names)
            if rule_id in SCORING_RULES:
                why_s = scoring_arch_reason(self.facts)
                if why_s:
                    raise Inconclusive("the scoring of atoms and patterns has been re-architected (%s): this rule is written for Atom::score / Atom::indices dispatching on their own "
                                       "`kind` and Pattern::score / Pattern::indices summing over `self.atoms`, and does not decide the new shape" % why_s)
            why = tick_arch_reason(self.facts) if rule_id in TICK_RULES else None
            if os.environ.get("VERIF_TICK_FLAT") and rule_id in TICK_RULES:
                why = why or "forced by VERIF_TICK_FLAT (checker self-test)"
            if why:
                self._tick_fallback(rule_id, fn, args, why)
            else:
                fn(self, *args)
        except Inconclusive as e:
            self.fail_closed(str(e))
        except Exception as e:  # analysis bug or unexpected fact shape: fail closed, never a verdict
            tb = traceback.format_exc(limit=6)
            self.fail_closed("internal error in rule (%s): %s\n%s" % (type(e).__name__, e, tb))
        n_after = len(self.oks) + len(self.violations) + len(self.inconclusive)
        if n_after == n_before:
            self.fail_closed("rule produced no obligations (vacuous)")
        self.cur = None


    def _tick_fallback(self, rule_id, fn, args, why):
        """The two-pass tick / tick_inner(canceled: bool) structure is gone.  The tick part of the rule is decided on the
        path traces of the flattened tick (rules/ticktrace.py): protocol rules on every path, and equality of the
        traces with those of the reference tree; the parts of the rule that concern other functions run as they are."""
        import ticktrace
        # parts of the rule that do not look at tick: run the rule in a scratch context, keep what concerns other bodies
        sub = Ctx(self.prop, self.facts, self.tier)
        sub.cur = rule_id
        sub.tick_flat = True
        try:
            fn(sub, *args)
        except Exception:
            pass
        tick_bodies = set()
        for b_ in self.facts.bodies_of("nucleo"):
            if b_["path"].startswith("Nucleo::<T>::tick") or str(b_.get("root") or "").startswith("Nucleo::<T>::tick"):
                tick_bodies.add(b_["path"])
        def about_tick(txt):
            return "Nucleo::<T>::tick" in txt or any(p_ in txt for p_ in tick_bodies)
        for v in sub.violations:
            k = v["key"].split("|", 1)[1] if "|" in v["key"] else v["key"]
            if not about_tick(k) and not about_tick(str(v["site"])):
                self.violations.append(v)
        for r_, site_, detail in sub.oks:
            if not about_tick(str(site_)):
                self.oks.append((r_, site_, detail))
        a = ticktrace.analysis(self.facts)
        vs = a["violations"].get(rule_id, [])
        site_ = "src/lib.rs (Nucleo::<T>::tick, flattened: %d paths)" % len(a["paths"])
        for key, msg in vs:
            self.violation(key, site_, msg)
        if vs:
            return
        if not a["diffs"]:
            self.ok(site_, "tick re-architected (%s): decided on the path traces of the flattened tick -- %d feasible paths (%d raw), protocol rules hold on each, "
                    "and every path has the same protocol events and status as the reference tree's path(s) under the same assumptions (%d reference paths)"
                    % (why, len(a["paths"]), a["raw"], a["ref"]))
            return
        j, ours, ref, _, _ = a["diffs"][0]
        raise Inconclusive("the tick protocol has been re-architected (%s) and its flattened path traces differ from the reference tree's on %d path pair(s) in a way no protocol rule "
                           "of this check classifies; first difference: this tree does %s where the reference does %s" % (why, len(a["diffs"]), ticktrace.fmt(ours)[:160], ticktrace.fmt(ref)[:160]))


# Rules about the tick / tick_inner / worker hand-over protocol.  They follow the two-phase structure of the code as it
# is (tick -> tick_inner(true, ..) / tick_inner(false, ..), guarded by State::canceled()/cleared()); helper extraction,
# renames, reordering and local rewrites are normalised away, but when that structure itself is gone (phases merged
# into one function, the bool parameter replaced by a request struct, the State tests merged) the rules say so
# instead of reporting shape differences as violations.
TICK_RULES = {
    "C06.update-guard", "C12.stale-guard", "C12.stream-switch", "C13.arm-under-lock", "C13.disarm-first", "C13.cancel-writers",
    "C19.cancel-writers", "C19.update-guard", "C19.changed-guards-mutation", "C19.running-guards-spawn", "C19.running-formula",
    "C19.status-lattice", "C19.pattern-handover", "C19.cancel-lock", "C06.cancel-lock", "C20.transitions",
}
SCORING_RULES = {"C15.none-sources", "C15.config-writes", "C15.config-before-call", "C15.dispatch-tables", "C15.negation", "C15.sum-and-propagate", "C10.config-only-state"}
_SCORING_ARCH = {}


def scoring_arch_reason(facts):
    """None when Atom::score / Atom::indices still switch on the `kind` of their own receiver and Pattern::score /
    Pattern::indices still call them; otherwise what is different."""
    k = id(facts)
    if k in _SCORING_ARCH:
        return _SCORING_ARCH[k]
    from cfg import Fn
    why = None
    for name in ("pattern::Atom::score", "pattern::Atom::indices"):
        b = facts.body("nucleo_matcher", name)
        if b is None:
            why = "%s not found" % name
            break
        fn = Fn(b)
        own = False
        for bi in sorted(fn.live):
            t = fn.blocks[bi]["term"]
            if t["k"] != "switch":
                continue
            e = fn.expr_of_operand(t["discr"])
            if e[0] == "discr":
                x = e[1]
                names = []
                while isinstance(x, tuple) and x and x[0] in ("field", "deref", "ref"):
                    if x[0] == "field":
                        names.append(x[2])
                    x = x[1]
                if names[-1:] == ["kind"] and len(names) == 1 and isinstance(x, tuple) and x[0] == "arg" and x[1] == 1:
                    own = True
        if not own:
            why = "%s does not dispatch on the kind of its own receiver" % name.split("::", 1)[1]
            break
    if why is None:
        for name, callee_ in (("pattern::Pattern::score", "pattern::Atom::score"), ("pattern::Pattern::indices", "pattern::Atom::indices")):
            b = facts.body("nucleo_matcher", name)
            if b is None:
                why = "%s not found" % name
                break
            bodies = [b] + [c for c in facts.bodies_of("nucleo_matcher") if c.get("kind") == "Closure" and str(c.get("root")) == name]
            if not any(blk["term"]["k"] == "call" and str(blk["term"].get("resolved") or blk["term"].get("fn")) == callee_ for bb in bodies for blk in bb["blocks"]):
                why = "%s does not call %s" % (name.split("::", 1)[1], callee_.split("::", 1)[1])
                break
    _SCORING_ARCH[k] = why
    return why


STATE_RULES = {"C12.restart-shape", "C20.restart-fresh", "C20.transitions", "C20.refs-table", "C20.holders"}
_TICK_ARCH = {}


def tick_arch_reason(facts):
    k = id(facts)
    if k in _TICK_ARCH:
        return _TICK_ARCH[k]
    why = None
    tick = facts.body("nucleo", "Nucleo::<T>::tick")
    ti = facts.body("nucleo", "Nucleo::<T>::tick_inner")
    if tick is None:
        why = "Nucleo::tick not found"
    elif ti is None:
        why = "Nucleo::tick_inner no longer exists"
    else:
        nbool = sum(1 for l in range(1, ti.get("arg_count", 0) + 1) if ti["locals"][l]["ty"] == "bool")
        if not str(ti["locals"][0].get("ty", "")).endswith("Status"):
            why = "tick_inner returns %s instead of a Status" % ti["locals"][0].get("ty")
        elif nbool != 1:
            why = "tick_inner has %d bool parameters instead of the `canceled` flag" % nbool
        else:
            calls = [blk["term"] for blk in tick["blocks"] if blk["term"]["k"] == "call" and (blk["term"].get("resolved") or blk["term"].get("fn")) == "Nucleo::<T>::tick_inner"]
            if not calls:
                why = "tick does not call tick_inner"
            elif len(calls) != 2:
                why = "tick calls tick_inner at %d places instead of two (one pass with the `canceled` value, one follow-up pass)" % len(calls)
            else:
                bidx = [l for l in range(1, ti.get("arg_count", 0) + 1) if ti["locals"][l]["ty"] == "bool"][0] - 1
                if all("const" in c["args"][bidx] for c in calls if len(c.get("args", [])) > bidx):
                    why = "both tick_inner calls pass a constant `canceled` flag (the decision has moved into tick's control flow)"
    if why is None:
        for m in ("State::canceled", "State::cleared"):
            if facts.body("nucleo", m) is None:
                why = "%s no longer exists" % m
    _TICK_ARCH[k] = why
    return why


def load_known():
    p = os.path.join(VERIF, "known_findings.json")
    if not os.path.exists(p):
        return []
    with open(p) as f:
        return json.load(f)["findings"]


def finish(ctx, level, undecided, assumptions, t0, extra_cov=None, checker_cmd=None, trusted=None):
    """Write evidence, print verdict lines, return exit code."""
    prop = ctx.prop
    known = {k["key"]: k for k in load_known() if k.get("status") == "known" and k["property"] == prop}
    fixed = {k["key"]: k for k in load_known() if k.get("status") == "fixed" and k["property"] == prop}
    new_v, known_v = [], []
    for v in ctx.violations:
        (known_v if v["key"] in known else new_v).append(v)
    ev_dir = os.environ.get("VERIF_EVIDENCE_DIR") or os.path.join(VERIF, "evidence")
    os.makedirs(ev_dir, exist_ok=True)
    obligations = len(ctx.oks) + len(ctx.violations)
    samples = []
    seen_rules = set()
    for r, site, detail in ctx.oks:
        if r not in seen_rules:
            seen_rules.add(r)
            samples.append({"rule": r, "site": site, "verdict": "ok", "detail": detail[:300]})
    for v in ctx.violations:
        samples.append({"rule": v["rule"], "site": v["site"], "verdict": "known-finding" if v["key"] in known else "violation",
                        "key": v["key"], "detail": v["text"][:400]})
    per_rule = {}
    for r in ctx.rules_run:
        per_rule[r] = {"ok": 0, "violations": 0, "inconclusive": 0}
    for r, _, _ in ctx.oks:
        per_rule[r]["ok"] += 1
    for v in ctx.violations:
        per_rule[v["rule"]]["violations"] += 1
    for r, _ in ctx.inconclusive:
        per_rule[r]["inconclusive"] += 1
    cov = {
        "explanation": "Static analysis of /repo's current source through rustc's own front end (MIR at opt-level 0, "
                       "resolved callees, const evaluation). Decides the structural clauses listed under 'rules'; "
                       "does NOT decide the behavioural property as a whole (see 'undecided').",
        "obligations": obligations,
        "discharged": len(ctx.oks),
        "known_findings": len(known_v),
        "rules": per_rule,
        "rule_instances": len(ctx.rules_run),
        "samples": samples[:60],
        "undecided": undecided,
        "analysed": ctx.facts.inventory() if ctx.facts else {},
        "tree_hash": getattr(ctx, "tree_key", None),
        "fact_cache_hit": getattr(ctx, "cached", None),
        "notes": ctx.notes[:40],
        "evaluations": obligations,
        "distinct_nontrivial": len(set((r, s) for r, s, _ in ctx.oks)) + len(ctx.violations),
        "rule": "one obligation per (rule instance, site) pair found in the fact base; distinct = distinct (rule, site)",
    }
    if checker_cmd:
        cov["checker_cmd"] = checker_cmd
    if trusted:
        cov["trusted_base"] = trusted
    if extra_cov:
        cov.update(extra_cov)
    ev = {
        "property_id": prop,
        "tier": ctx.tier,
        "seed": int(os.environ.get("VERIF_SEED", "0") or 0),
        "level": level,
        "coverage": cov,
        "assumptions": assumptions,
        "wall_s": round(time.time() - t0, 3),
        "violations": len(new_v),
    }
    if ctx.inconclusive:
        ev["coverage"]["inconclusive"] = [{"rule": r, "reason": why[:1500]} for r, why in ctx.inconclusive]
    with open(os.path.join(ev_dir, prop + ".json"), "w") as f:
        json.dump(ev, f, indent=1, ensure_ascii=False)
        f.write("\n")
    for v in known_v:
        print("KNOWN-FINDING: property=%s %s [%s] %s" % (prop, known[v["key"]]["what"], v["key"], v["site"]))
    for v in ctx.violations:
        if v["key"] in fixed and v in new_v:
            print("REGRESSION of a fixed finding (%s): %s" % (fixed[v["key"]].get("commit", "?"), fixed[v["key"]]["what"]))
    print("%s: %d rule instance(s), %d obligation(s), %d discharged, %d known finding(s), %d new violation(s), %d inconclusive"
          % (prop, len(ctx.rules_run), obligations, len(ctx.oks), len(known_v), len(new_v), len(ctx.inconclusive)))
    stale = os.path.join(ev_dir, prop + ".violation.json")
    if not new_v and os.path.exists(stale):
        os.remove(stale)   # a replay file only exists while the violation does
    if new_v:
        replay = os.path.join(ev_dir, prop + ".violation.json")
        with open(replay, "w") as f:
            json.dump({"property": prop, "violations": new_v, "tree_hash": getattr(ctx, "tree_key", None)}, f, indent=1, ensure_ascii=False)
        for v in new_v:
            print("  violation %s at %s: %s" % (v["key"], v["site"], v["text"]))
        for r, why in ctx.inconclusive:
            print("  (also inconclusive) %s: %s" % (r, why.splitlines()[0] if why else ""))
        print("VIOLATION property=%s replay=%s" % (prop, replay))
        return 1
    if ctx.inconclusive:
        for r, why in ctx.inconclusive:
            print("INCONCLUSIVE %s: %s" % (r, why))
        return 2
    return 0

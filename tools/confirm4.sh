#!/bin/bash
# confirm4.sh <prop> <x>: confirm a round-4 seed in its worktree /tmp/seed4_<prop>:
#  baseline suite green WITH the change, demo fails WITH, demo passes WITHOUT.  Prints one verdict line.
P=$1; X=$2; W=/tmp/${SEEDPFX:-seed4}_$P; S=$W/SEED_$X
cd $W || exit 2
export CARGO_NET_OFFLINE=true
git checkout -q -- . 2>/dev/null
if grep -qE "nucleo::|use nucleo\b" $S/seed_demo_$X.rs && ! grep -q "README says matcher" /dev/null; then DIR=tests; PKG=""; else DIR=matcher/tests; PKG="-p nucleo-matcher"; fi
grep -q "matcher/tests" $S/README.md && { DIR=matcher/tests; PKG="-p nucleo-matcher"; }
grep -q "nucleo_matcher" $S/seed_demo_$X.rs && ! grep -qE "use nucleo::|nucleo::Nucleo" $S/seed_demo_$X.rs && { DIR=matcher/tests; PKG="-p nucleo-matcher"; }
mkdir -p $DIR
rm -f tests/seed_demo_*.rs matcher/tests/seed_demo_*.rs
git apply $S/patch.diff || { echo "$P $X: PATCH DOES NOT APPLY"; exit 1; }
base=$(cargo test --workspace --offline 2>&1 | grep -E "^test result" | grep -vc "ok\.")
basefail=$(cargo test --workspace --offline 2>&1 | grep -cE "FAILED|^error")
cp $S/seed_demo_$X.rs $DIR/
with=$(timeout 900 cargo test --offline $PKG --test seed_demo_$X 2>&1 | grep -E "^test result" | tail -1)
git apply -R $S/patch.diff
without=$(timeout 900 cargo test --offline $PKG --test seed_demo_$X 2>&1 | grep -E "^test result" | tail -1)
rm -f $DIR/seed_demo_$X.rs; rmdir $DIR 2>/dev/null
echo "$P $X: baseline-with-change nonok=$base fail=$basefail | with: ${with:-NO RESULT} | without: ${without:-NO RESULT}"

"""C17 — string conversion keeps the documented grapheme guarantees (narrow structural claim)."""
from cfg import Inconclusive, op_place, show, walk, strip_casts
from common import (calls_to, callee, closure_creations, closure_consumer, field_chain, fn_of, get_fn, peel, site,
                    guards_of, ret_aggregates, head_sources)

PROP = "C17"
LEVEL = "other"
UNDECIDED = [
    "that unicode-segmentation segments extended grapheme clusters correctly (library behaviour)",
    "per-string equalities (length = number of clusters, display = content) for all strings",
]
ASSUMPTIONS = [
    "UnicodeSegmentation::graphemes(true) yields extended grapheme clusters in order",
    "memchr::memmem::find finds any occurrence",
]
M = "nucleo_matcher"
HAG = "utf32_str::has_ascii_graphemes"
GRAPHEMES = "chars::graphemes"


def rule_constructors(ctx):
    facts = ctx.facts
    ctors = ["utf32_str::Utf32Str::<'a>::new",
             "<utf32_str::Utf32String as std::convert::From<&str>>::from",
             "<utf32_str::Utf32String as std::convert::From<std::boxed::Box<str>>>::from"]
    deleg = ["<utf32_str::Utf32String as std::convert::From<std::string::String>>::from",
             "<utf32_str::Utf32String as std::convert::From<std::borrow::Cow<'a, str>>>::from"]
    # any other From<..str..> impl is a new constructor
    for im in facts.crate(M)["impls"]:
        if im["trait"] == "std::convert::From" and im["self_ty"] == "utf32_str::Utf32String":
            for it in im["items"]:
                if it not in ctors and it not in deleg:
                    # a further conversion is covered when it merely hands the (untransformed) text to a covered one
                    f2 = get_fn(facts, M, it)
                    cs2 = [callee(t) for bi, t in f2.calls()]
                    inner2 = [c for c in cs2 if ("Utf32String" in c and "From" in c) or c.endswith("Into<U>>::into") or "into" in c.rsplit("::", 1)[-1] or c.endswith("Utf32Str::<'a>::new")]
                    transforms2 = [c for c in cs2 if any(x in c for x in ("to_lowercase", "to_uppercase", "trim", "replace", "chars", "normalize", "split", "repeat"))]
                    if inner2 and not transforms2 and not list(f2.loops()):
                        ctx.ok(site(f2, 0), "additional conversion %s delegates to a covered constructor without touching the text" % it.split("From<")[1].rstrip(">:from"))
                    else:
                        ctx.fail_closed("new constructor %s: not covered" % it)
    n = 0
    for name in ctors:
        fn = get_fn(facts, M, name)
        n += 1
        key = "%s|ctor" % name
        hs = [(bi, t) for bi, t in fn.calls(lambda t: callee(t) == HAG)]
        if len(hs) != 1 and facts.body(M, HAG) is None:
            # the predicate itself has been re-designed (another signature, folded into the constructors): which strings
            # get the Ascii variant is then decided by code this rule has no model of
            ctx.fail_closed("%s: has_ascii_graphemes no longer exists; the constructor decides the variant by other means, which this rule does not decide" % name)
            continue
        if len(hs) != 1:
            ctx.violation(key + "|predicate", site(fn, 0), "constructor does not decide the variant with has_ascii_graphemes")
            continue
        hb, ht = hs[0]
        src = peel(fn.expr_of_operand(ht["args"][0]))
        sw = fn.blocks[ht["target"]]["term"]
        if sw["k"] != "switch":
            ctx.violation(key + "|predicate", site(fn, hb), "result of has_ascii_graphemes is not branched on directly")
            continue
        true_t = sw["otherwise"]
        false_t = [b_ for v, b_ in sw["arms"] if v == 0][0]
        problems = []
        # Ascii variant on the true edge, built from the same string's bytes without transformation
        def aggs(region_start, edge):
            out = []
            for x in fn.reach_from(region_start):
                if not fn.must_pass(x, via_edges=[edge]):
                    continue
                for s in fn.blocks[x]["stmts"]:
                    if s["k"] == "assign" and s["rv"].get("agg") == "adt" and ("Utf32Str" in s["rv"].get("adt", "")):
                        out.append((x, s))
            return out
        ta = aggs(true_t, (ht["target"], true_t))
        fa = aggs(false_t, (ht["target"], false_t))
        if not ta or any(s["rv"]["variant"] != "Ascii" for _, s in ta):
            problems.append("the has_ascii_graphemes == true edge does not build the Ascii variant")
        else:
            for x, s in ta:
                e = fn.expr_of_operand(s["rv"]["ops"][0])
                calls = [str(y[1]) for y in walk(e) if y[0] == "call"]
                allowed = ("as_bytes", "to_owned", "into_boxed_str", "ToOwned", "into", "deref", "borrow", "From<&str> for std::boxed::Box<str>",
                           "From<&str> for std::string::String", "From<std::string::String> for std::boxed::Box<str>")
                bad = [c for c in calls if not any(a in c for a in allowed)]
                leaf_ok = any(y[0] == "arg" for y in walk(e))
                if bad or not leaf_ok:
                    problems.append("Ascii payload is %s (must be the original string's bytes, untransformed)" % show(e)[:100])
        if not fa or any(s["rv"]["variant"] != "Unicode" for _, s in fa):
            problems.append("the has_ascii_graphemes == false edge does not build the Unicode variant")
        else:
            gcalls = [(bi, t) for bi, t in fn.calls(lambda t: callee(t) == GRAPHEMES) if fn.must_pass(bi, via_edges=[(ht["target"], false_t)])]
            if not gcalls:
                problems.append("Unicode payload is not filled from chars::graphemes")
            else:
                ga = peel(fn.expr_of_operand(gcalls[0][1]["args"][0]))
                # same source string as the predicate
                same = (head_sources(fn, ga) == head_sources(fn, src)) or (ga == src)
                if not same:
                    problems.append("graphemes() is applied to %s but the predicate looked at %s" % (show(ga), show(src)))
            if any(callee(t).endswith("Iterator::rev") or callee(t).endswith("::sort") or callee(t).endswith("dedup") for bi, t in fn.calls()):
                problems.append("the grapheme sequence is reordered / deduplicated")
            # every way the character buffer is filled on this edge takes its characters from chars::graphemes
            for fb, ft in fn.calls(lambda t: callee(t).rsplit("::", 1)[-1] in ("extend", "extend_from_slice", "push", "extend_from_within", "insert", "resize", "append")):
                if not fn.must_pass(fb, via_edges=[(ht["target"], false_t)]) or len(ft.get("args", [])) < 2:
                    continue
                a0 = show(fn.expr_of_operand(ft["args"][0]))
                if "Vec" not in str(ft.get("fn")) and "Vec" not in callee(ft) and "Extend" not in callee(ft):
                    continue
                src_e = fn.expr_of_operand(ft["args"][1])
                if not any(x[0] == "call" and str(x[1]) == GRAPHEMES for x in walk(src_e)):
                    problems.append("the character buffer is (also) filled from %s, not from chars::graphemes" % show(src_e)[:90])
        if problems:
            ctx.violation(key, site(fn, hb), "; ".join(problems))
        else:
            ctx.ok(site(fn, hb), "Ascii(original bytes) iff has_ascii_graphemes(s), else Unicode(chars::graphemes(s)) in order")
    # Utf32Str::new clears the buffer before extending
    nf = get_fn(facts, M, ctors[0])
    clr = [bi for bi, t in nf.calls(lambda t: callee(t).endswith("Vec::<T, A>::clear"))]
    ext = [bi for bi, t in nf.calls(lambda t: callee(t).endswith("::extend") or (callee(t).endswith("::push") and "Vec" in callee(t)) or callee(t).endswith("::extend_from_slice"))]
    if clr and ext and all(nf.dominates(clr[0], e) for e in ext):
        ctx.ok(site(nf, clr[0]), "buffer-based constructor clears the buffer before filling it")
    else:
        ctx.violation(ctors[0] + "|buf-clear|1", site(nf, 0), "Utf32Str::new does not clear the caller's buffer first: stale characters of a previous string are prepended")
    for name in deleg:
        fn = get_fn(facts, M, name)
        cs = [callee(t) for bi, t in fn.calls()]
        inner = [c for c in cs if "Utf32String" in c and "From" in c or c.endswith("Into<U>>::into") or "into" in c.rsplit("::", 1)[-1]]
        transforms = [c for c in cs if any(x in c for x in ("to_lowercase", "to_uppercase", "trim", "replace", "chars", "normalize"))]
        if inner and not transforms:
            ctx.ok(site(fn, 0), "%s delegates to the borrowed / boxed constructor without touching the text" % name.split("From<")[1].rstrip(">:from"))
        else:
            ctx.violation(name + "|delegate|1", site(fn, 0), "owned/Cow constructor does not simply delegate (calls: %s)" % cs)
    ctx.floor("primary constructors", n, 3)


def _hag_by_evaluation(ctx):
    """Decide has_ascii_graphemes on a complete small domain: every string of length <= 5 over {CR, LF, 'a', 'é'}
    (all arrangements of lone / paired / repeated CR and LF, ASCII or not).  Returns None if the body cannot be
    evaluated (loops, unknown callees), else a list of counterexamples."""
    import itertools
    from absint import Evaluator, Unknown
    fn = get_fn(ctx.facts, M, HAG)
    E = Evaluator(ctx.facts, M)
    bad = []
    n = 0
    try:
        for ln in range(0, 6):
            for tup in itertools.product("\r\na\u00e9", repeat=ln):
                txt = "".join(tup)
                got = E.call(fn, [("str", txt)])
                n += 1
                want = int(all(ord(c) < 128 for c in txt) and "\r\n" not in txt)
                if got != want:
                    bad.append(txt)
    except (Unknown, Inconclusive, RecursionError):
        return None, 0
    return bad, n


def rule_ascii_predicate(ctx):
    facts = ctx.facts
    fn = get_fn(facts, M, HAG)
    bad, n_eval = _hag_by_evaluation(ctx)
    if bad is not None:
        if bad:
            ctx.violation(HAG + "|shape|1", site(fn, 0), "has_ascii_graphemes answers wrongly for %d of the %d strings of length <= 5 over {CR, LF, a, \u00e9}, e.g. %r: "
                          "an ASCII string with a CR LF pair is stored as bytes (one character too many) or a CR-free one as code points" % (len(bad), n_eval, bad[0]))
        else:
            ctx.ok(site(fn, 0), "has_ascii_graphemes(s) = s.is_ascii() && no \"\\r\\n\" in s  (evaluated on all %d strings of length <= 5 over {CR, LF, a, \u00e9})" % n_eval)
        return
    ia = [(bi, t) for bi, t in fn.calls(lambda t: callee(t).endswith("str>::is_ascii") or callee(t).endswith("::is_ascii"))]
    mm = [(bi, t) for bi, t in fn.calls(lambda t: callee(t).endswith("memmem::find"))]
    problems = []
    if not ia:
        problems.append("no is_ascii() test")
    if not mm:
        problems.append("no search for CR LF")
    else:
        pat = fn.expr_of_operand(mm[0][1]["args"][1])
        txt = show(pat)
        if "\\r\\n" not in txt and "\r\n" not in txt:
            problems.append("the searched pattern is %s, not b\"\\r\\n\"" % txt)
        hay = fn.expr_of_operand(mm[0][1]["args"][0])
        if not any(x[0] == "arg" for x in walk(hay)):
            problems.append("CR LF searched in %s" % show(hay))
    # conjunction: returns true only if is_ascii && find.is_none()
    rets = ret_aggregates(fn)
    true_paths_ok = True
    for bi, si, rv in rets:
        e = fn.expr_of_rvalue(rv)
        if e[0] == "call" and str(e[1]).endswith("::is_none"):
            gs = guards_of(fn, bi)
            if not any(g[3][0] == "call" and str(g[3][1]).endswith("is_ascii") and g[2] in ([None], [1]) for g in gs):
                true_paths_ok = False
        elif e[0] == "const" and e[1] == 1:
            true_paths_ok = False
    for bi, t in fn.calls(lambda t: callee(t).endswith("::is_none") and t["dest"]["l"] == 0):
        gs = guards_of(fn, bi)
        if not any(g[3][0] == "call" and str(g[3][1]).endswith("is_ascii") and g[2] in ([None], [1]) for g in gs):
            true_paths_ok = False
    if not true_paths_ok:
        problems.append("result is not the conjunction is_ascii() && no CR LF")
    if problems:
        ctx.violation(HAG + "|shape|1", site(fn, 0), "; ".join(problems))
    else:
        ctx.ok(site(fn, 0), "has_ascii_graphemes(s) = s.is_ascii() && no \"\\r\\n\" in s")


def rule_grapheme_map(ctx):
    facts = ctx.facts
    fn = get_fn(facts, M, GRAPHEMES)
    gc = [(bi, t) for bi, t in fn.calls(lambda t: callee(t).endswith("::graphemes"))]
    if not gc:
        ctx.note("unicode-segmentation feature off: graphemes = chars()")
        ctx.ok(site(fn, 0), "graphemes(text) = text.chars() (feature off)")
        return
    ext = fn.const_of_operand(gc[0][1]["args"][1])
    if ext == 1:
        ctx.ok(site(fn, gc[0][0]), "extended grapheme clusters requested (graphemes(true))")
    else:
        ctx.violation(GRAPHEMES + "|extended|1", site(fn, gc[0][0]), "legacy (non-extended) grapheme clusters requested")
    # the segmenter sees the WHOLE text: cluster boundaries depend on both neighbours (a Prepend character attaches to
    # what follows, marks / ZWJ / variation selectors to what precedes), so no cut made before segmenting is safe
    recv = fn.expr_of_operand(gc[0][1]["args"][0])
    r0 = strip_casts(recv)
    while r0[0] in ("ref", "deref"):
        r0 = strip_casts(r0[1])
    if r0[0] == "arg" and r0[1] == 1:
        ctx.ok(site(fn, gc[0][0]), "the whole text is handed to the segmenter")
    else:
        ctx.violation(GRAPHEMES + "|whole-text|1", site(fn, gc[0][0]),
                      "grapheme segmentation is applied to %s, a part of the text: a cluster that spans the cut (a Prepend character followed by ASCII, a base followed by a mark) is split, "
                      "and every constructor then stores two characters where the documented result has one" % show(recv)[:80])
    if len(gc) > 1 or any(str(t.get("fn")).endswith("Iterator::chain") for bi, t in fn.calls()):
        ctx.violation(GRAPHEMES + "|whole-text|2", site(fn, 0), "the result of graphemes() is assembled from several pieces (chain / more than one segmentation)")
    # the mapping function handed to `.map(..)`: a closure literal or a named function
    from cfg import decision_paths
    mp = [(bi, t) for bi, t in fn.calls(lambda t: str(t.get("fn")).endswith("Iterator::map"))]
    if len(mp) > 1:
        # keep the one applied to the grapheme iterator
        gid = (gc[0][0], gc[0][1]["dest"]["l"])
        mp = [(bi, t) for bi, t in mp if any(x[0] == "call" and len(x) > 4 and x[4] == gid for x in walk(fn.expr_of_operand(t["args"][0])))] or mp
    if len(mp) != 1:
        raise Inconclusive("chars::graphemes: expected exactly one `.map(..)` over the grapheme iterator")
    mf = fn.expr_of_operand(mp[0][1]["args"][1])
    if mf[0] == "closure":
        cf = get_fn(facts, M, mf[1])
        carg = 2
    elif mf[0] == "fnitem":
        cf = get_fn(facts, M, mf[1])
        carg = 1
    else:
        raise Inconclusive("chars::graphemes: mapping function is neither a closure nor a function item: %s" % show(mf)[:60])
    # decision table of the mapping: CR LF -> '\n', anything else -> first code point of the cluster
    crlf = first = False
    lastc = False
    bad = None
    for conds, res in decision_paths(cf):
        is_crlf = None
        for d, chosen, allv in conds:
            d0 = strip_casts(d)
            if d0[0] == "call" and str(d0[3] or d0[1]).endswith("PartialEq::eq") and "\\r\\n" in show(d0):
                is_crlf = (chosen != 0) if chosen is not None else True
            elif d0[0] == "call" and str(d0[3] or d0[1]).endswith("PartialEq::ne") and "\\r\\n" in show(d0):
                is_crlf = not ((chosen != 0) if chosen is not None else True)
        if res is None:
            continue   # diverging path (expect on an empty cluster)
        r0 = strip_casts(res)
        if is_crlf:
            if r0[0] == "const" and r0[1] == 10:
                crlf = True
            else:
                bad = "CR LF is mapped to %s" % show(res)[:60]
        else:
            calls_ = [x for x in walk(res) if x[0] == "call"]
            if any(str(x[1]).endswith("::next") for x in calls_) and any(str(x[1]).endswith("str>::chars") for x in calls_):
                first = True
            if any(str(x[1]).endswith("::last") or str(x[1]).endswith("next_back") or str(x[1]).endswith("::rev") for x in calls_):
                lastc = True
            if is_crlf is None and r0[0] == "const":
                bad = "every cluster is mapped to a constant"
    if crlf and first and not lastc and bad is None:
        ctx.ok(site(cf, 0), "cluster ↦ '\\n' for CR LF, otherwise its first code point")
    else:
        ctx.violation(GRAPHEMES + "|map|1", site(cf, 0), "grapheme mapping is not (CR LF ⇒ '\\n'; else first code point): crlf=%s first=%s last/rev=%s %s" % (crlf, first, lastc, bad or ""))


def variant_arms(fn):
    """{variant name: [expr assigned to _0 / passed on]} for a `match self` on Utf32Str/Utf32String."""
    out = {}
    for bi in sorted(fn.live):
        t = fn.blocks[bi]["term"]
        if t["k"] != "switch":
            continue
        e = fn.expr_of_operand(t["discr"])
        if e[0] == "discr" and "Utf32Str" in str(e[2]):
            for v, bb in t["arms"] + [[None, t["otherwise"]]]:
                if fn.blocks[bb]["term"]["k"] == "unreachable":
                    continue
                out[v] = bb
            return bi, out
    return None, out


def rule_accessors(ctx):
    facts = ctx.facts
    n = 0
    for ty in ("utf32_str::Utf32Str::<'a>", "utf32_str::Utf32String"):
        for m in ("len", "is_empty"):
            fn = get_fn(facts, M, "%s::%s" % (ty, m))
            sb, arms = variant_arms(fn)
            if sb is None or len(arms) < 2:
                ctx.violation("%s::%s|match|1" % (ty, m), site(fn, 0), "%s does not treat both representations" % m)
                continue
            cal = {}
            for v, bb in arms.items():
                cs = [callee(fn.blocks[x]["term"]).rsplit("::", 1)[1] for x in fn.reach_from(bb) if fn.blocks[x]["term"]["k"] == "call" and fn.must_pass(x, via_edges=[(sb, bb)])]
                cal[v] = [c for c in cs if c in ("len", "is_empty")]
            n += 1
            if all(c == [m] for c in cal.values()):
                ctx.ok(site(fn, sb), "%s::%s: both variants answer with their payload's %s()" % (ty.split("::")[1], m, m))
            else:
                ctx.violation("%s::%s|arms|1" % (ty, m), site(fn, sb), "variants answer differently: %s" % cal)
    # slice family: start/end of the index range as functions of the two Bound variants, per decision path
    # (Bound: Included=0, Excluded=1, Unbounded=2); helpers, `.cloned()`, u32 widening all reduce to the same table
    from cfg import Poly, poly_of, decision_paths
    bad = {}
    for name in ("utf32_str::Utf32Str::<'a>::slice", "utf32_str::Utf32Str::<'a>::slice_u32", "utf32_str::Utf32String::slice", "utf32_str::Utf32String::slice_u32"):
        fn = get_fn(facts, M, name)

        def bound_call(x):
            """start_bound()/end_bound() call behind clones/refs -> 'S' / 'E'"""
            def transparent(c):
                """cloned / copied, or Bound::map with a closure that only dereferences / widens its argument"""
                short = str(c[1]).rsplit("::", 1)[-1]
                if short in ("cloned", "copied", "as_ref"):
                    return True
                if short == "map" and "Bound" in str(c[1]) and len(c[2]) == 2 and c[2][1][0] == "closure":
                    cf = get_fn(facts, M, c[2][1][1])
                    try:
                        ps_ = decision_paths(cf)
                    except Inconclusive:
                        return False
                    if len(ps_) == 1 and not ps_[0][0] and ps_[0][1] is not None:
                        v = strip_casts(ps_[0][1])
                        while v[0] in ("ref", "deref", "cast"):
                            v = strip_casts(v[2] if v[0] == "cast" else v[1])
                        return v[0] == "arg" and v[1] == 2
                return False
            while isinstance(x, tuple) and x and (x[0] in ("ref", "deref", "cast") or (x[0] == "call" and transparent(x))):
                x = x[2] if x[0] == "cast" else (x[2][0] if x[0] == "call" else x[1])
            if isinstance(x, tuple) and x and x[0] == "call":
                nm = str(x[3] or x[1])
                if nm.endswith("::start_bound"):
                    return "S"
                if nm.endswith("::end_bound"):
                    return "E"
            return None

        def atomize(x):
            x = strip_casts(x)
            while x[0] in ("ref", "deref"):
                x = strip_casts(x[1])
            if x[0] == "field" and x[2] == "0":
                inner = x[1]
                while inner[0] in ("ref", "deref"):
                    inner = inner[1]
                if inner[0] == "downcast":
                    w = bound_call(inner[1])
                    if w:
                        return w
            if x[0] == "call" and str(x[1]).endswith("::len"):
                return "LEN"
            return None

        seen = set()
        problems = []
        try:
            paths = decision_paths(fn)
        except Inconclusive as ex:
            bad[name] = "not loop-free: %s" % ex
            continue
        for conds, res in paths:
            k = {}
            for d, chosen, allv in conds:
                if d[0] == "discr":
                    w = bound_call(d[1])
                    if w:
                        if chosen is not None:
                            k[w] = chosen
                        else:
                            rest = [v for v in (0, 1, 2) if v not in allv]
                            if len(rest) == 1:
                                k[w] = rest[0]
            if "S" not in k or "E" not in k or res is None:
                continue
            rng = [x for x in walk(res) if x[0] == "agg" and str(x[1]).endswith("Range::Range")]
            if not rng:
                # delegation to a sibling of the family with the bounds passed on as a (Bound, Bound) pair: the pair
                # must carry the same variants and the (widened) payloads; the sibling's own table is checked above/below
                r0 = res
                while r0[0] in ("ref", "deref", "cast"):
                    r0 = r0[2] if r0[0] == "cast" else r0[1]
                deleg = None
                if r0[0] == "call" and str(r0[1]).rsplit("::", 1)[-1] in ("slice", "slice_u32") and "utf32_str::" in str(r0[1]) and len(r0[2]) >= 2:
                    tp = r0[2][1]
                    while tp[0] in ("ref", "deref"):
                        tp = tp[1]
                    if tp[0] == "tuple" and len(tp[1]) == 2 and all(x[0] == "agg" and "Bound::" in str(x[1]) for x in tp[1]):
                        deleg = tp[1]
                if deleg is not None:
                    names_ = {0: "Included", 1: "Excluded", 2: "Unbounded"}
                    okd = True
                    for which, comp in (("S", deleg[0]), ("E", deleg[1])):
                        var = str(comp[1]).rsplit("::", 1)[-1]
                        if var != names_[k[which]]:
                            okd = False
                        elif var != "Unbounded" and poly_of(comp[2].get("0"), atomize) != Poly.atom(which):
                            okd = False
                    seen.add((k["S"], k["E"]))
                    if not okd:
                        problems.append("bounds (%s, %s) are passed on to %s as %s" % (k["S"], k["E"], str(r0[1]).rsplit("::", 1)[-1], show(tp)[:80]))
                    continue
                problems.append("no index range on the path (start %s, end %s)" % (k["S"], k["E"]))
                continue
            st = poly_of(rng[0][2]["start"], atomize)
            en = poly_of(rng[0][2]["end"], atomize)
            want_s = {0: Poly.atom("S"), 1: Poly.atom("S") + Poly.const(1), 2: Poly.const(0)}[k["S"]]
            want_e = {0: Poly.atom("E") + Poly.const(1), 1: Poly.atom("E"), 2: Poly.atom("LEN")}[k["E"]]
            seen.add((k["S"], k["E"]))
            if st != want_s:
                problems.append("start bound variant %d is translated to %s, expected %s" % (k["S"], st, want_s))
            if en != want_e:
                problems.append("end bound variant %d is translated to %s, expected %s" % (k["E"], en, want_e))
        if not seen and not problems:
            # whole-sale delegation: the range (or the pair of its two bounds, each passed through a transparent
            # conversion) is handed to a sibling of the family on every path; the sibling's table is checked itself
            deleg_all = bool(paths)
            for conds, res in paths:
                if res is None:
                    continue
                r0 = res
                while r0[0] in ("ref", "deref", "cast"):
                    r0 = r0[2] if r0[0] == "cast" else r0[1]
                okd = False
                if r0[0] == "call" and str(r0[1]).rsplit("::", 1)[-1] in ("slice", "slice_u32") and "utf32_str::" in str(r0[1]) and str(r0[1]) != name and len(r0[2]) >= 2:
                    tp = r0[2][1]
                    while tp[0] in ("ref", "deref"):
                        tp = tp[1]
                    if tp[0] == "arg":
                        okd = True
                    elif tp[0] == "tuple" and len(tp[1]) == 2 and bound_call(tp[1][0]) == "S" and bound_call(tp[1][1]) == "E":
                        okd = True
                if not okd:
                    deleg_all = False
            if deleg_all:
                continue
        if len(seen) != 9 and not problems:
            problems.append("only %d of the 9 (start, end) bound combinations are handled" % len(seen))
        if problems:
            bad[name] = "; ".join(sorted(set(problems))[:3])
    n += 1
    if not bad:
        ctx.ok("utf32_str.rs slice family", "slice / slice_u32 on Utf32Str and Utf32String: start (Excluded ⇒ +1, Unbounded ⇒ 0) and end (Included ⇒ +1, Unbounded ⇒ len) on all 9 bound combinations")
    else:
        for k_, v in bad.items():
            ctx.violation("%s|bounds|1" % k_, k_, "range bounds are not translated as documented: %s" % v)
    ctx.floor("accessor groups", n, 5)
    # get/first/last/chars: both variants index the same position
    for m, idx in (("get", None), ("first", 0)):
        fn = get_fn(facts, M, "utf32_str::Utf32Str::<'a>::%s" % m)
        sb, arms = variant_arms(fn)
        if sb is None:
            ctx.violation("utf32_str::Utf32Str::%s|match|1" % m, site(fn, 0), "%s does not match on the representation" % m)
        else:
            ctx.ok(site(fn, sb), "%s handles both representations" % m)


def rule_manifest(ctx):
    """`chars::graphemes` segments only when the matcher crate is built with its `unicode-segmentation` feature (the
    fallback is `text.chars()`), and `has_ascii_graphemes` is not feature-gated: the grapheme guarantees of the
    constructors hold for users of `nucleo` only if the top-level crate builds its matcher dependency with that
    feature.  Read off the two manifests: the matcher's default features contain `unicode-segmentation`, which pulls in
    the segmentation crate; the top-level crate either keeps the matcher's default features or forwards a feature of its
    own that enables `nucleo-matcher/unicode-segmentation` by default."""
    import os, tomllib
    from engine import REPO
    repo = os.environ.get("NUCLEO_REPO", REPO)
    try:
        top = tomllib.load(open(os.path.join(repo, "Cargo.toml"), "rb"))
        mat = tomllib.load(open(os.path.join(repo, "matcher", "Cargo.toml"), "rb"))
    except Exception as e:
        raise Inconclusive("manifests not readable: %s" % e)
    mf = mat.get("features", {})
    seg = mf.get("unicode-segmentation")
    if seg is None:
        raise Inconclusive("the matcher crate has no `unicode-segmentation` feature: segmentation is decided elsewhere")
    if "unicode-segmentation" in mf.get("default", []) and any("unicode-segmentation" in x for x in seg):
        ctx.ok("matcher/Cargo.toml", "default features include unicode-segmentation (-> dep:unicode-segmentation)")
    else:
        ctx.violation("matcher/Cargo.toml|features|segmentation", "matcher/Cargo.toml", "the matcher's default features no longer enable grapheme segmentation (default = %s, unicode-segmentation = %s): "
                      "chars::graphemes falls back to one character per code point" % (mf.get("default"), seg))
    dep = top.get("dependencies", {}).get("nucleo-matcher")
    if dep is None:
        raise Inconclusive("the top-level crate does not depend on nucleo-matcher by that name")
    keeps_default = not (isinstance(dep, dict) and dep.get("default-features") is False)
    explicit = isinstance(dep, dict) and "unicode-segmentation" in dep.get("features", [])
    tf = top.get("features", {})

    def enables(feat, seen=()):
        if feat in seen:
            return False
        for x in tf.get(feat, []):
            if x in ("nucleo-matcher/unicode-segmentation", "nucleo-matcher?/unicode-segmentation"):
                return True
            if x in tf and enables(x, seen + (feat,)):
                return True
        return False
    if keeps_default or explicit or enables("default"):
        ctx.ok("Cargo.toml", "nucleo builds nucleo-matcher with grapheme segmentation (%s)" % ("matcher default features kept" if keeps_default else ("feature listed on the dependency" if explicit else "forwarded by nucleo's default features")))
    else:
        ctx.violation("Cargo.toml|nucleo-matcher|segmentation", "Cargo.toml", "nucleo depends on nucleo-matcher with default-features = false and nothing in its own default features enables "
                      "`nucleo-matcher/unicode-segmentation`: built on its own (not unified with the workspace) the matcher takes one character per code point, CR LF stays two characters")


def rules(ctx):
    ctx.run_rule("C17.constructors", rule_constructors)
    ctx.run_rule("C17.ascii-predicate", rule_ascii_predicate)
    ctx.run_rule("C17.grapheme-map", rule_grapheme_map)
    ctx.run_rule("C17.accessors", rule_accessors)
    ctx.run_rule("C17.manifest", rule_manifest)

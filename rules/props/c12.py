"""C12 — restart isolates the new item stream from the old one (shape facts)."""
from cfg import Inconclusive, op_place, show, walk, strip_casts
from common import (atomic_op, calls_to, callee, closure_creations, closure_consumer, field_chain, fn_of,
                    find_fn, get_fn, head_sources, peel, site, guards_of, field_assigns, field_borrows,
                    field_reads, is_diverging, ret_aggregates)
from common import bool_param, is_arg, spawn_closures, enum_fn_table, GuardStates
from props.c09 import classify
from props.c19 import is_worker_field, canon_atom


def worker_param(fn, base):
    """Is `base` the (non-self) parameter of this body that refers to the Worker? (by type, not by name)"""
    return isinstance(base, tuple) and base[0] == "arg" and base[1] >= 2 and "Worker<" in fn.b["locals"][base[1]]["ty"]

PROP = "C12"
LEVEL = "other"
UNDECIDED = [
    "the full history statement (items of two streams never mixed over all interleavings of restarts, ticks and old injectors)",
]
ASSUMPTIONS = [
    "Arc::new(..) yields a handle distinct from every existing one; Arc::clone yields an alias",
    "Deref/DerefMut on the ArcMutexGuard yield the one Worker object",
]

RESTART = "Nucleo::<T>::restart"
TICK = "Nucleo::<T>::tick"
TICK_INNER = "Nucleo::<T>::tick_inner"
RUN = "worker::Worker::<T>::run"


def rule_restart_shape(ctx):
    fn = get_fn(ctx.facts, "nucleo", RESTART)
    # cancel
    st = [bi for bi, t in fn.calls(lambda t: atomic_op(t) == "store") if classify(fn, fn.expr_of_operand(t["args"][0])) == "canceled" and fn.const_of_operand(t["args"][1]) == 1]
    if st and fn.all_paths_to_return_pass(0, via_nodes=st):
        ctx.ok(site(fn, st[0]), "restart raises the cancel flag on every path")
    else:
        ctx.violation(RESTART + "|cancel|1", site(fn, 0), "restart does not cancel the running worker: a run over the old stream keeps going and its result can be installed later")
    # fresh vector
    asg = field_assigns(fn, "items", "Nucleo<")
    if not asg:
        ctx.violation(RESTART + "|items|0", site(fn, 0), "restart does not replace self.items")
    for bi, si, s in asg:
        e = fn.expr_of_rvalue(s["rv"]) if si != "term" else None
        good = e is not None and e[0] == "call" and str(e[1]).startswith("std::sync::Arc::<T>::new") and \
            e[2][0][0] == "call" and e[2][0][1] == "boxcar::Vec::<T>::with_capacity"
        if good:
            cols = e[2][0][2][1]
            if cols[0] == "call" and cols[1] == "boxcar::Vec::<T>::columns" and field_chain(cols[2][0])[1] == ["items"]:
                ctx.ok(site(fn, bi, si), "self.items := Arc::new(fresh vector with the old column count)")
            else:
                ctx.violation(RESTART + "|columns|1", site(fn, bi, si), "the fresh stream is not created with the old stream's column count: %s" % show(cols))
            if not fn.all_paths_to_return_pass(0, via_nodes=[bi]):
                ctx.violation(RESTART + "|items|2", site(fn, bi, si), "a path through restart keeps the old stream")
        else:
            ctx.violation(RESTART + "|items|1", site(fn, bi, si), "self.items is not replaced by a fresh vector (a clone of an existing handle keeps old items reachable): %s" % (show(e) if e else "call result"))
    # state = Cleared
    sa = field_assigns(fn, "state", "Nucleo<")
    okc = False
    for bi, si, s in sa:
        e = fn.expr_of_rvalue(s["rv"])
        if e[0] == "agg" and e[1].endswith("State::Cleared") and fn.all_paths_to_return_pass(0, via_nodes=[bi]):
            okc = True
    if okc:
        ctx.ok(site(fn, sa[0][0], sa[0][1]), "state := Cleared on every path")
    else:
        ctx.violation(RESTART + "|state|1", site(fn, 0), "restart does not mark the matcher Cleared: the worker keeps its old stream and stale results pass the update guard")
    # snapshot.clear(new handle) iff clear_snapshot
    cl = [(bi, t) for bi, t in fn.calls(lambda t: callee(t) == "Snapshot::<T>::clear")]
    if not cl:
        ctx.violation(RESTART + "|clear|0", site(fn, 0), "restart(true) does not clear the snapshot")
    for bi, t in cl:
        g = [x for x in guards_of(fn, bi) if is_arg(x[3], bool_param(fn))]
        h = fn.expr_of_operand(t["args"][1])
        from_new = h[0] == "call" and str(h[1]).endswith("Clone>::clone") and field_chain(h[2][0])[1] == ["items"] and field_chain(h[2][0])[0][0] == "arg"
        after = asg and all(fn.dominates(a[0], bi) for a in asg)
        if not (from_new and after) and h[0] == "call" and str(h[1]).endswith("Clone>::clone"):
            # a clone of the very value that is stored into self.items (`let stream = Arc::new(..); clear(stream.clone());
            # self.items = stream`): the same handle, whatever the order of the two statements
            src = peel(h[2][0])
            while src[0] in ("ref", "deref"):
                src = peel(src[1])
            for a_bi, a_si, a_s in asg:
                if a_si == "term":
                    continue
                y = peel(fn.expr_of_rvalue(a_s["rv"]))
                while y[0] in ("ref", "deref"):
                    y = peel(y[1])
                if src[0] == "call" and y[0] == "call" and len(src) > 4 and len(y) > 4 and src[4] == y[4] and str(src[1]).startswith("std::sync::Arc::<T>::new"):
                    from_new, after = True, True
        if g and all(x[2] in ([None], [1]) for x in g) and from_new and after:
            ctx.ok(site(fn, bi), "snapshot cleared with a clone of the NEW handle, only when clear_snapshot")
        else:
            ctx.violation(RESTART + "|clear|1", site(fn, bi),
                          "Snapshot::clear is not (guarded by clear_snapshot, given a clone of self.items taken after the replacement)")
    # with clear_snapshot == false nothing touches the snapshot
    for bi, si, s in field_borrows(fn, "snapshot", "Nucleo<"):
        g = [x for x in guards_of(fn, bi) if is_arg(x[3], bool_param(fn)) and x[2] in ([None], [1])]
        if not g:
            ctx.violation(RESTART + "|snapshot-touch|1", site(fn, bi, si), "restart touches the snapshot even when clear_snapshot is false")


def _update_guard_tick(ctx, prop_prefix):
    ti = get_fn(ctx.facts, "nucleo", TICK_INNER)
    ups = calls_to(ctx.facts, "nucleo", lambda t: callee(t) == "Snapshot::<T>::update")
    ctx.floor("calls of Snapshot::update", len(ups), 1)
    for fn, bi, t in ups:
        if fn.path != TICK_INNER:
            ctx.violation("%s|Snapshot::update|caller" % fn.path, site(fn, bi), "Snapshot::update called outside tick_inner")
            continue
        facts_ = set()
        for g in guards_of(fn, bi):
            facts_.add((canon_atom(g[3]), g[2] in ([None], [1])))
        need = {
            (("wf", "running"), True): "inner.running == true (a run actually finished)",
            (("wf", "was_canceled"), False): "inner.was_canceled == false (the run completed; a cancelled run leaves the match list half-processed)",
        }
        for k, why in need.items():
            if k in facts_:
                ctx.ok(site(fn, bi), "update guarded by " + why)
            else:
                ctx.violation("%s|update-guard|%s" % (fn.path, k[0][1]), site(fn, bi), "Snapshot::update is not guarded by " + why)
        st = [f for f in facts_ if f[0][0] == "call" and f[0][1] == "State::canceled"]
        if st and all(not f[1] for f in st):
            ctx.ok(site(fn, bi), "update guarded by !state.canceled(): a run over the pre-restart stream that finishes before the next tick is discarded")
        else:
            ctx.violation("%s|update-guard|state" % fn.path, site(fn, bi),
                          "Snapshot::update is not guarded by !self.state.canceled(): after restart() a run over the OLD stream that completes before the next tick is installed into the snapshot (old items shown; the 0.4.1 crash)")
    # the finished run's state is copied into the snapshot BEFORE the tick modifies it: no write to the worker's
    # pattern (clone_from / clone / assignment through the guard) may reach Snapshot::update — otherwise the snapshot
    # pairs the NEW pattern with matches and scores computed for the OLD one
    for fn, bi, t in ups:
        if fn.path != TICK_INNER:
            continue
        wr = []
        for wbi, wt in fn.calls(lambda t: callee(t).endswith("Clone>::clone_from")):
            dst = fn.expr_of_operand(wt["args"][0])
            db, dn = field_chain(dst)
            if dn[-1:] == ["pattern"] and db[0] != "arg":
                wr.append(wbi)
        for wbi, wsi, ws in field_assigns(fn, "pattern", "worker::Worker<"):
            wr.append(wbi)
        early = [w for w in wr if bi in fn.reach_from(w) and w != bi]
        if early:
            ctx.violation("%s|update-order|pattern" % fn.path, site(fn, early[0]),
                          "the worker's pattern is overwritten with the matcher's current pattern before Snapshot::update copies the finished run: the snapshot gets the new pattern together with the old run's matches and scores")
        else:
            ctx.ok(site(fn, bi), "Snapshot::update runs before the worker's pattern is replaced (%d write site(s) after it)" % len(wr))


def _cancel_edge_marks(run, sw, qt):
    """Every loop-free path from the cancelled edge of the sort to the end of run stores `true` (or the sort's result) into
    was_canceled; evaluated path by path so that a flag returned by a folded-in helper has its value on that path."""
    from cfg import decision_paths
    e = run.expr_of_operand(sw["discr"])
    if not (e[0] == "call" and e[1] == "par_sort::par_quicksort"):
        return False
    try:
        seed = {qt["dest"]["l"]: ("const", 1, None, "bool")} if not qt["dest"]["p"] else {}
        paths = decision_paths(run, start=sw["otherwise"], free_locals=True, with_trace=True, limit=2000, init_env=seed)
    except Inconclusive:
        return False
    if not paths:
        return False
    for conds, res, trace in paths:
        marked = False
        for ev in trace:
            if ev[0] != "store":
                continue
            pl = ev[1]
            if not (isinstance(pl, tuple) and pl and pl[0] == "field" and pl[2] == "was_canceled"):
                continue
            v = strip_casts(ev[2])
            if v[0] == "const" and v[1] in (1, True):
                marked = True
            elif v[0] == "const":
                marked = False
            elif any(x[0] == "call" and str(x[1]) == "par_sort::par_quicksort" for x in walk(v)) or v[0] == "free":
                marked = True
        if not marked:
            return False
    return True


def update_guard(ctx, prop_prefix):
    """Shared by C06/C12: the only Snapshot::update call sits behind running && !was_canceled && !state.canceled()."""
    if not getattr(ctx, "tick_flat", False):
        _update_guard_tick(ctx, prop_prefix)
    # was_canceled at the end of a run == "the run was cancelled": (a) every path to a return writes it (no stale value
    # from the previous run), (b) on the cancelled edge of the sort it ends up true, (c) it is only set to false where
    # no cancellation can have happened yet
    run = get_fn(ctx.facts, "nucleo", RUN)
    qs = [(bi, t) for bi, t in run.calls(lambda t: callee(t) == "par_sort::par_quicksort")]
    if not qs:
        raise Inconclusive("run does not call par_quicksort")
    qb, qt = qs[0]
    q_id = (qb, qt["dest"]["l"])
    writes = []
    for bi, si, s in field_assigns(run, "was_canceled"):
        if si == "term":
            writes.append((bi, "O"))
            continue
        e = strip_casts(run.expr_of_rvalue(s["rv"]))
        while e[0] == "un" and e[1] == "Not" and strip_casts(e[2])[0] == "un" and strip_casts(e[2])[1] == "Not":
            e = strip_casts(strip_casts(e[2])[2])          # `!finished` with `finished = !sort_result`
        if e[0] == "const" and e[1] in (0, 1, True, False):
            writes.append((bi, "T" if e[1] else "F"))
        elif e[0] == "call" and len(e) > 4 and e[4] == q_id:
            writes.append((bi, "S"))
        else:
            writes.append((bi, "O"))
            ctx.violation(RUN + "|was_canceled|value", site(run, bi), "was_canceled is assigned %s, neither a constant nor the sort's cancellation result" % show(e)[:80])
    wblocks = [b_ for b_, k_ in writes]
    if wblocks and run.all_paths_to_return_pass(0, via_nodes=wblocks):
        ctx.ok(site(run, 0), "every path through run writes was_canceled (no value is carried over from the previous run)")
    else:
        r_ = run.reach_from(0, removed_nodes=wblocks)
        ret = [x for x in run.returns if x in r_]
        ctx.violation(RUN + "|was_canceled|clear", site(run, ret[0] if ret else 0),
                      "a path through run returns without writing was_canceled: the flag keeps the previous run's value (a stale `true` makes the next tick discard a finished run, a stale `false` installs a cancelled one)")
    sw = run.blocks[qt["target"]]["term"]
    okc = False
    if sw["k"] == "switch":
        e = run.expr_of_operand(sw["discr"])
        if e[0] == "call" and e[1] == "par_sort::par_quicksort":
            tt = sw["otherwise"]
            marks = [b_ for b_, k_ in writes if k_ in ("T", "S")]
            # every path from the cancelled edge to return sets was_canceled = true (or the sort's result)
            if marks and run.all_paths_to_return_pass(tt, via_nodes=marks):
                okc = True
    else:
        # the result is stored first and branched on later: `self.was_canceled = canceled; if canceled { return }`
        s_marks = [b_ for b_, k_ in writes if k_ == "S"]
        if s_marks and run.all_paths_to_return_pass(qt["target"], via_nodes=s_marks):
            okc = True
    if not okc:
        s_marks = [b_ for b_, k_ in writes if k_ == "S"]
        if s_marks and run.all_paths_to_return_pass(qt["target"], via_nodes=s_marks):
            okc = True
    if not okc and sw["k"] == "switch":
        # the verdict of the sort may travel through a returned flag (`let finished = self.rematch(..); if !finished
        # { self.was_canceled = true }`): decide per path from the cancelled edge, with the flag's value on that path
        okc = _cancel_edge_marks(run, sw, qt)
    if okc:
        ctx.ok(site(run, qb), "a cancelled sort always marks the run was_canceled")
    else:
        ctx.violation(RUN + "|was_canceled|set", site(run, qb), "a cancelled sort can return without setting was_canceled: a partially sorted / partially scored list would be installed")
    after_sort = run.reach_from(qt["target"]) if qt["target"] is not None else set()
    badf = [b_ for b_, k_ in writes if k_ == "F" and b_ in after_sort]
    if badf:
        ctx.violation(RUN + "|was_canceled|clear", site(run, badf[0]), "was_canceled is cleared after the sort (where a cancellation may already have been observed)")
    elif any(k_ == "F" for b_, k_ in writes) or any(k_ == "S" for b_, k_ in writes):
        ctx.ok(site(run, 0), "was_canceled is set to false only before any cancellation point of the run")
    # cancellation between the scoring pass and the sort: every early `return Match{score:0, idx}` for a cancelled
    # scan is followed by the sort's own cancel check => covered by C18.cancel-taint


def rule_stale_guard(ctx):
    update_guard(ctx, "C12")


def rule_cancel_lock(ctx):
    """The phase of tick that consumes the reason for a cancellation (it resets the pattern status; tick marks the state
    Fresh after it) must get hold of the worker: a lock attempt that can time out may only be made when
    `canceled == false`.  Otherwise the edit / restart is forgotten while the worker still runs the old pattern over the
    old stream, and later ticks report an idle matcher over a stale snapshot (shared by C12.stream-switch and C19)."""
    ti = get_fn(ctx.facts, "nucleo", TICK_INNER)
    gs = GuardStates(ti)
    bp = bool_param(ti)
    tries = [bi for bi, t in ti.calls(lambda t: callee(t).endswith(GuardStates.TRY))]
    if gs.failed_edges and not tries:
        raise Inconclusive("a failed lock attempt without a try-lock call")
    if not tries:
        ctx.ok(site(ti, 0), "tick_inner makes no lock attempt that can time out")
    for a_ in tries:
        conds = [(g[3], g[2]) for g in guards_of(ti, a_)]
        if any(is_arg(e_, bp) and vals == [0] for e_, vals in conds):
            ctx.ok(site(ti, a_), "a lock attempt can time out only in the non-cancelling phase")
        else:
            ctx.violation(TICK_INNER + "|cancel-lock|1", site(ti, a_),
                          "the cancelling phase can give up on the worker lock (timed-out try-lock reachable with canceled == true): the pattern status has been reset and tick marks the "
                          "state Fresh anyway, so the edit / restart is forgotten; the next ticks find `was_canceled`, skip the update and report running == false over a snapshot whose "
                          "pattern is not the matcher's and whose item count is stale")


def rule_stream_switch(ctx):
    ti = get_fn(ctx.facts, "nucleo", TICK_INNER)
    # the cancelling phase (the one that switches the worker to a new stream; tick sets state = Fresh right after it,
    # whatever it returns) must ALWAYS get hold of the worker: a timed-out lock attempt may only happen when
    # `canceled == false`.  Otherwise the worker is never switched, no `cleared` run is started, and the stale-run
    # guard (state == Fresh by then) lets the finished OLD run into the new stream's snapshot.
    gs = GuardStates(ti)
    bp = bool_param(ti)
    tries = [bi for bi, t in ti.calls(lambda t: callee(t).endswith(GuardStates.TRY))]
    if gs.failed_edges and not tries:
        raise Inconclusive("a failed lock attempt without a try-lock call")
    for a_ in tries:
        # a lock attempt that can time out is only ever MADE when canceled == false (the cancelling phase blocks)
        conds = [(g[3], g[2]) for g in guards_of(ti, a_)]
        not_cancel = any(is_arg(e_, bp) and vals == [0] for e_, vals in conds)
        if not_cancel:
            ctx.ok(site(ti, a_), "a lock attempt can time out only in the non-cancelling phase")
        else:
            ctx.violation(TICK_INNER + "|cancel-lock|1", site(ti, a_),
                          "the cancelling phase can give up on the worker lock (timed-out try-lock reachable with canceled == true): tick marks the state Fresh anyway, the worker keeps its old stream and the old run's results are installed after the restart")
    spawns = [(bi, t) for bi, t in ti.calls(lambda t: callee(t) == "rayon::ThreadPool::spawn")]
    if len(spawns) != 1:
        raise Inconclusive("expected one spawn")
    sb, stt = spawns[0]
    # the `cleared` value: State::cleared(self.state)
    cl_calls = [(bi, t) for bi, t in ti.calls(lambda t: callee(t) == "State::cleared")]
    if not cl_calls:
        ctx.violation(TICK_INNER + "|cleared|0", site(ti, sb), "tick_inner never asks whether the stream was cleared")
        return
    cbi, ct = cl_calls[0]
    cl_local = ct["dest"]["l"]
    # assignment inner.items = self.items.clone()
    asg = field_assigns(ti, "items", "worker::Worker<")
    good_asg = []
    for bi, si, s in asg:
        if bi in [b for b in range(ti.n) if ti.blocks[b]["cleanup"]]:
            continue
        e = ti.expr_of_rvalue(s["rv"]) if si != "term" else None
        if e and e[0] == "call" and str(e[1]).endswith("Clone>::clone") and field_chain(e[2][0])[1] == ["items"] and field_chain(e[2][0])[0][0] == "arg":
            good_asg.append(bi)
        else:
            ctx.violation(TICK_INNER + "|worker-items|src", site(ti, bi, si), "worker stream replaced by something other than a clone of self.items")
    # on the cleared==true edge the assignment precedes the spawn
    edges = []
    for bi in sorted(ti.live):
        t = ti.blocks[bi]["term"]
        if t["k"] == "switch":
            e = ti.expr_of_operand(t["discr"])
            if e[0] == "call" and e[1] == "State::cleared":
                edges.append((bi, t["otherwise"], [bb for v, bb in t["arms"] if v == 0]))
    if not edges or not good_asg:
        ctx.violation(TICK_INNER + "|stream-switch|1", site(ti, sb), "when the stream was cleared the worker is not switched to the new stream before the run is spawned: it scans the OLD items and its results are installed as the new stream's")
    else:
        gb, true_t, false_ts = edges[0]
        # all paths from the true edge to the spawn pass the assignment
        r = ti.reach_from(true_t, removed_nodes=good_asg)
        if sb in r:
            ctx.violation(TICK_INNER + "|stream-switch|2", site(ti, sb), "a path with cleared == true reaches the spawn without `inner.items = self.items.clone()`")
        else:
            ctx.ok(site(ti, good_asg[0]), "cleared ⇒ inner.items = self.items.clone() before the spawn")
        # and it is not assigned when not cleared (would be harmless) — no check
    # the closure captures that same `cleared` value and passes it to run
    cr = spawn_closures(ti)
    if not cr:
        raise Inconclusive("no closure handed to ThreadPool::spawn found in tick_inner")
    caps = cr[0][4]
    cleared_caps = [n_ for n_, o in caps.items() if ti.expr_of_operand(o)[0] == "call" and ti.expr_of_operand(o)[1] == "State::cleared"]
    bool_caps = [n_ for n_, o in caps.items() if op_place(o) is not None and not op_place(o)["p"] and ti.b["locals"][op_place(o)["l"]]["ty"] == "bool"]
    if cleared_caps:
        ctx.ok(site(ti, cr[0][0], cr[0][1]), "run is told `cleared` = State::cleared(self.state), the value that guarded the switch")
    elif bool_caps:
        ctx.violation(TICK_INNER + "|cleared-arg|1", site(ti, cr[0][0], cr[0][1]), "the flag passed to run is %s, not State::cleared(self.state)" % show(ti.expr_of_operand(caps[bool_caps[0]])))
    else:
        ctx.violation(TICK_INNER + "|cleared-arg|0", site(ti, cr[0][0], cr[0][1]), "run closure does not carry the cleared flag")
    cap_name = (cleared_caps or bool_caps or ["cleared"])[0]
    cf = get_fn(ctx.facts, "nucleo", cr[0][3])
    rc = [(bi, t) for bi, t in cf.calls(lambda t: callee(t) == RUN)]
    if rc:
        a = cf.expr_of_operand(rc[0][1]["args"][2])
        base, names = field_chain(a)
        if names == [cap_name]:
            ctx.ok(site(cf, rc[0][0]), "closure forwards the captured cleared flag to Worker::run")
        else:
            ctx.violation(TICK_INNER + "::{closure#0}|cleared-forward|1", site(cf, rc[0][0]), "Worker::run is called with %s as `cleared`" % show(a))
    # state = Fresh only in tick, after the first tick_inner returned
    tick = get_fn(ctx.facts, "nucleo", TICK)
    inner_calls = [(bi, t) for bi, t in tick.calls(lambda t: callee(t) == TICK_INNER)]
    for b in ctx.facts.bodies_of("nucleo"):
        fn = fn_of(b)
        for bi, si, s in field_assigns(fn, "state", "Nucleo<"):
            e = fn.expr_of_rvalue(s["rv"]) if si != "term" else ("?",)
            if e[0] == "agg" and e[1].endswith("State::Fresh"):
                if fn.path == TICK and inner_calls and fn.dominates(inner_calls[0][0], bi) and bi != inner_calls[0][0]:
                    ctx.ok(site(fn, bi, si), "state := Fresh only after the first (switching) tick_inner returned")
                else:
                    ctx.violation("%s|state-fresh|1" % fn.path, site(fn, bi, si), "state set to Fresh before the worker was switched to the new stream")
    fresh_blocks = [bi for bi, si, s in field_assigns(tick, "state", "Nucleo<")
                    if si != "term" and tick.expr_of_rvalue(s["rv"])[0] == "agg" and tick.expr_of_rvalue(s["rv"])[1].endswith("State::Fresh")]
    if len(inner_calls) >= 2:
        second = inner_calls[-1][0]
        if fresh_blocks and tick.must_pass(second, via_nodes=fresh_blocks):
            ctx.ok(site(tick, second), "the second phase always runs with state == Fresh (its result can be installed)")
        else:
            ctx.violation(TICK + "|state-fresh|missing", site(tick, second),
                          "the second tick phase can run without state having been set to Fresh: after a restart no run over the new stream is ever installed into the snapshot")
    # State::cleared / canceled: true exactly when the state is not Fresh (decision table over the variants)
    for nm in ("State::cleared", "State::canceled"):
        f = get_fn(ctx.facts, "nucleo", nm)
        tab = enum_fn_table(ctx.facts, f, "nucleo", "State")
        want = {v: int(v != "Fresh") for v in tab}
        if tab == want:
            ctx.ok(site(f, 0), "%s(self) == (self != Fresh) for every variant: %s" % (nm, tab))
        else:
            ctx.violation("%s|definition|1" % nm, site(f, 0), "%s is no longer `self != State::Fresh`: %s" % (nm, tab))


def _borrow_used_mutably(fn, l, depth=0, seen=None):
    """Is the `&mut` held in local `l` ever used to mutate (written through, reborrowed mutably and that used, handed
    to a call or stored in a value)?  A `&mut` that is only read through (`let Self { items, .. } = self; items.get(i)`)
    is not a mutation of the field.  Conservative: every use that is not a plain read counts."""
    from cfg import op_place
    seen = seen if seen is not None else set()
    if l in seen or depth > 6:
        return l not in seen
    seen.add(l)
    for bi in sorted(fn.live):
        blk = fn.blocks[bi]
        for s in blk["stmts"]:
            if s.get("k") != "assign":
                continue
            lhs, rv = s["lhs"], s["rv"]
            if lhs["l"] == l and lhs["p"]:
                return True                                     # *p = .. / (*p).f = ..
            pl = rv.get("ref") or rv.get("rawptr")
            if pl is not None and pl["l"] == l:
                if rv.get("mut") and pl["p"]:
                    if lhs["p"] or _borrow_used_mutably(fn, lhs["l"], depth + 1, seen):
                        return True                             # &mut *p, used mutably
                continue                                        # &*p, &p, &(*p).f: reads
            if "use" in rv:
                up = op_place(rv["use"])
                if up and up["l"] == l:
                    if not up["p"]:
                        if lhs["p"] or _borrow_used_mutably(fn, lhs["l"], depth + 1, seen):
                            return True                         # moved / copied on
                    continue                                    # a value read through the pointer
            for o in (rv.get("ops") or []) + [rv.get(k_) for k_ in ("a", "b") if isinstance(rv.get(k_), dict)]:
                up = op_place(o) if isinstance(o, dict) else None
                if up and up["l"] == l and not up["p"]:
                    return True                                 # stored in an aggregate / closure by value
        t = blk["term"]
        if t["k"] == "call":
            for a in t["args"]:
                up = op_place(a)
                if up and up["l"] == l and not up["p"]:
                    return True                                 # handed to a call
    return False


def worker_fields_mutated(facts):
    """Worker fields that the scan/rescore call tree mutates (assignment or &mut borrow)."""
    tree = [b for b in facts.bodies_of("nucleo") if b["path"].startswith("worker::Worker::<T>::") and not b["path"].startswith("worker::Worker::<T>::new")
            and not b["path"].startswith("worker::Worker::<T>::update_config")]
    w = facts.adt("nucleo", "worker::Worker")
    names = [f["name"] for f in w["variants"][0]["fields"]]
    out = {}
    for b in tree:
        fn = fn_of(b)
        for nm in names:
            hits = field_assigns(fn, nm, "worker::Worker<") + \
                [h for h in field_borrows(fn, nm, "worker::Worker<") if h[2]["lhs"]["p"] or _borrow_used_mutably(fn, h[2]["lhs"]["l"])]
            if hits:
                out.setdefault(nm, []).append(fn.path)
        # closures capture `self.matches` etc. by unique borrow: look at capture lists
        for cap in b.get("captures", []):
            nm = cap["name"]
            if nm.startswith("self__") and cap["by"].startswith("ByRef(Mutable") or (nm.startswith("self__") and "UniqueImmutable" in cap["by"]):
                f_ = nm.split("__", 1)[1].split("__")[0]
                if f_ in names:
                    out.setdefault(f_, []).append(b["path"])
    return out


def rule_run_reset(ctx):
    facts = ctx.facts
    run = get_fn(facts, "nucleo", RUN)
    mutated = worker_fields_mutated(facts)
    control = {"running", "was_canceled"}
    per_stream = sorted(set(mutated) - control)
    ctx.floor("per-stream cache fields of Worker (derived)", len(per_stream), 3)
    # guard edge: cleared (arg 3) == true
    edges = []
    for bi in sorted(run.live):
        t = run.blocks[bi]["term"]
        if t["k"] == "switch":
            e = run.expr_of_operand(t["discr"])
            if is_arg(e, bool_param(run)):
                edges.append((bi, t["otherwise"]))
    if not edges:
        ctx.violation(RUN + "|cleared-branch|0", site(run, 0), "run ignores its `cleared` argument: indices and matches of the old stream are reused against the new one")
        return
    gb, tt = edges[0]
    if gb != 0 and not all(run.dominates(gb, b) for b in run.live if b != 0 and b != gb and run.blocks[b]["term"]["k"] == "call" and not run.dominates(b, gb)):
        pass
    for nm in per_stream:
        resets = []
        for bi, si, s in field_assigns(run, nm, "worker::Worker<"):
            if si != "term" and "use" in s["rv"] and run.const_of_operand(s["rv"]["use"]) == 0:
                resets.append(bi)
        for bi, t in run.calls(lambda t: callee(t).endswith("::clear")):
            if field_chain(run.expr_of_operand(t["args"][0]))[1] == [nm]:
                resets.append(bi)
        resets = [r for r in resets if run.must_pass(r, via_edges=[(gb, tt)])]
        # every path from the cleared edge to anything else passes a reset
        if resets and run.all_paths_to_return_pass(tt, via_nodes=resets):
            # and nothing reads the field between the branch and the reset
            ctx.ok(site(run, resets[0]), "Worker.%s reset under cleared (mutated in: %s)" % (nm, ", ".join(sorted(set(mutated[nm])))[:120]))
        else:
            ctx.violation(RUN + "|reset|%s" % nm, site(run, gb),
                          "Worker.%s caches data of the item stream (mutated in %s) but is not reset when run(cleared = true): stale indices of the old stream are applied to the new one" % (nm, sorted(set(mutated[nm]))[0]))
    # the cleared branch is the first thing after the two flag stores: dominated only by entry
    first_calls = [bi for bi, t in run.calls() if not run.must_pass(bi, via_nodes=[gb])]
    if first_calls:
        ctx.violation(RUN + "|reset-late|1", site(run, first_calls[0]), "run calls into the scan before handling `cleared`")
    else:
        ctx.ok(site(run, gb), "the cleared branch precedes every call of run")


def rule_snapshot_fields(ctx):
    facts = ctx.facts
    sn = facts.adt("nucleo", "Snapshot")
    fields = [f["name"] for f in sn["variants"][0]["fields"]]
    need = {"Snapshot::<T>::clear": {"item_count", "matches", "items"},
            "Snapshot::<T>::update": set(fields)}
    for fnname, want in need.items():
        fn = get_fn(facts, "nucleo", fnname)
        written = set()
        for nm in fields:
            for bi, si, s in field_assigns(fn, nm, "Snapshot<"):
                if not fn.blocks[bi]["cleanup"] and fn.all_paths_to_return_pass(0, via_nodes=[bi]):
                    written.add(nm)
                elif not fn.blocks[bi]["cleanup"]:
                    # conditional write: accept `items` under !ptr_eq
                    g = guards_of(fn, bi)
                    if nm == "items" and any(x[3][0] == "call" and str(x[3][1]).endswith("::ptr_eq") and x[2] == [0] for x in g):
                        written.add(nm)
            for bi, si, s in field_borrows(fn, nm, "Snapshot<"):
                if fn.all_paths_to_return_pass(0, via_nodes=[bi]):
                    written.add(nm)
        missing = want - written
        extra_fields = set(fields) - set(["item_count", "matches", "pattern", "items"])
        for m in sorted(missing):
            ctx.violation("%s|field|%s" % (fnname, m), site(fn, 0), "%s does not write Snapshot.%s on every path: the snapshot would mix fields of two streams / two runs" % (fnname, m))
        if not missing:
            ctx.ok(site(fn, 0), "%s writes %s" % (fnname, sorted(want)))
        for x in sorted(extra_fields):
            # a field the rules do not know: `update` must still write it on every path (it is in `want` for update);
            # `clear` is free to keep it (e.g. a generation counter)
            ctx.note("new Snapshot field `%s`: required to be written by every path of Snapshot::update" % x)
    # update takes the worker's stream handle
    up = get_fn(facts, "nucleo", "Snapshot::<T>::update")
    for bi, si, s in field_assigns(up, "items", "Snapshot<"):
        if up.blocks[bi]["cleanup"]:
            continue
        e = up.expr_of_rvalue(s["rv"])
        if e[0] == "call" and str(e[1]).endswith("Clone>::clone") and field_chain(e[2][0])[1] == ["items"] and worker_param(up, field_chain(e[2][0])[0]):
            ctx.ok(site(up, bi, si), "snapshot.items := worker.items (the stream the matches index into)")
        else:
            ctx.violation("Snapshot::<T>::update|items-source|1", site(up, bi, si), "snapshot stream handle does not come from the worker whose matches are copied: %s" % show(e))
    # the matches and the count come from the same worker
    for nm, src in (("matches", "matches"),):
        for bi, t in up.calls(lambda t: callee(t).endswith("clone_from")):
            d = field_chain(up.expr_of_operand(t["args"][0]))
            s_ = field_chain(up.expr_of_operand(t["args"][1]))
            if d[1] == [nm]:
                if s_[1] == [src] and worker_param(up, s_[0]):
                    ctx.ok(site(up, bi), "snapshot.%s := worker.%s" % (nm, src))
                else:
                    ctx.violation("Snapshot::<T>::update|%s-source|1" % nm, site(up, bi), "snapshot.%s copied from %s" % (nm, s_[1]))


def rule_old_injectors(ctx):
    facts = ctx.facts
    n = 0
    for b in facts.bodies_of("nucleo"):
        fn = fn_of(b)
        for bi, si, s in fn.stmts(lambda s: s["k"] == "assign" and s["rv"].get("agg") == "adt" and s["rv"].get("adt") == "Injector"):
            n += 1
            names = s["rv"]["fields"]
            e = fn.expr_of_operand(s["rv"]["ops"][names.index("items")])
            okk = e[0] == "call" and str(e[1]).endswith("Clone>::clone") and field_chain(e[2][0])[1] == ["items"]
            if okk and fn.path in ("Nucleo::<T>::injector", "<Injector<T> as std::clone::Clone>::clone"):
                ctx.ok(site(fn, bi, si), "Injector built from a clone of %s.items" % ("the matcher's current" if "Nucleo" in fn.path else "another injector's"))
            else:
                ctx.violation("%s|Injector-literal|1" % fn.path, site(fn, bi, si), "Injector constructed with items = %s" % show(e))
        for bi, si, s in field_assigns(fn, "items", "Injector<"):
            ctx.violation("%s|Injector.items|write" % fn.path, site(fn, bi, si), "an existing injector is re-pointed at another stream")
    ctx.floor("Injector construction sites", n, 2)


def rules(ctx):
    ctx.run_rule("C12.restart-shape", rule_restart_shape)
    ctx.run_rule("C12.stale-guard", rule_stale_guard)
    ctx.run_rule("C12.stream-switch", rule_stream_switch)
    ctx.run_rule("C12.run-reset", rule_run_reset)
    ctx.run_rule("C12.snapshot-fields", rule_snapshot_fields)
    ctx.run_rule("C12.old-injectors", rule_old_injectors)

#!/usr/bin/env python3
"""Quick mutation probe for rule development.
usage: mut.py <Cxx[,Cyy..]> <relative file> <old> <new> [occurrence]
   or: mut.py <Cxx[,Cyy..]> --patch <diff file>
Copies /repo to a scratch dir, applies the edit, runs the named checks against the copy, cleans up."""
import os, shutil, subprocess, sys, tempfile

VERIF = os.path.dirname(os.path.dirname(os.path.abspath(__file__)))


def main():
    props = sys.argv[1].split(",")
    quiet = props == ["ALL"]
    if quiet:
        props = ["C01", "C02", "C03", "C04", "C05", "C06", "C08", "C09", "C10", "C11", "C12", "C13", "C14", "C15", "C16", "C17", "C18", "C19", "C20"]
    os.makedirs("/root/scratch", exist_ok=True)
    d = tempfile.mkdtemp(prefix="mut.", dir="/root/scratch")
    try:
        subprocess.check_call(["rsync", "-a", "--exclude", "target", "--exclude", ".git", "/repo/", d + "/"])
        if sys.argv[2] == "--patch":
            subprocess.check_call(["patch", "-p1", "-s", "-i", os.path.abspath(sys.argv[3])], cwd=d)
        else:
            rel, old, new = sys.argv[2], sys.argv[3], sys.argv[4]
            occ = int(sys.argv[5]) if len(sys.argv) > 5 else None
            p = os.path.join(d, rel)
            s = open(p).read()
            n = s.count(old)
            if n == 0:
                print("MUT: pattern not found"); return 3
            if occ is None:
                if n != 1:
                    print("MUT: pattern occurs %d times; give an occurrence index" % n); return 3
                s = s.replace(old, new)
            else:
                parts = s.split(old)
                s = old.join(parts[:occ + 1]) + new + old.join(parts[occ + 1:])
            open(p, "w").write(s)
        env = dict(os.environ, NUCLEO_REPO=d, VERIF_EVIDENCE_DIR=os.path.join(d, ".evidence"))
        rc_all = {}
        for pr in props:
            r = subprocess.run([os.path.join(VERIF, "check"), pr], env=env, capture_output=True, text=True)
            rc_all[pr] = r.returncode
            if quiet and r.returncode == 0:
                continue
            print("=== %s rc=%d" % (pr, r.returncode))
            print(r.stdout[-30000:])
            if r.stderr.strip():
                print(r.stderr[-1500:])
        return 0
    finally:
        shutil.rmtree(d, ignore_errors=True)
        # evidence files were overwritten by the probe: not an issue during development,
        # but re-run the real checks before committing evidence.


if __name__ == "__main__":
    sys.exit(main())

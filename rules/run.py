#!/usr/bin/env python3
"""Entry point: run.py <Cxx> [--tier quick|thorough] [--replay file]"""
import importlib
import json
import os
import sys
import time

HERE = os.path.dirname(os.path.abspath(__file__))
sys.path.insert(0, HERE)

import engine
from cfg import Inconclusive
from facts import Facts


def main():
    args = sys.argv[1:]
    if not args:
        print(__doc__)
        return 2
    prop = args[0].upper()
    tier = os.environ.get("VERIF_TIER", "quick")
    if "--tier" in args:
        tier = args[args.index("--tier") + 1]
    if tier not in ("quick", "thorough"):
        tier = "quick"
    if "--replay" in args:
        p = args[args.index("--replay") + 1]
        with open(p) as f:
            print(json.dumps(json.load(f), indent=1, ensure_ascii=False))
        print("(replay = re-run of the static check on the current tree follows)")
    t0 = time.time()
    mod = importlib.import_module("props." + prop.lower())
    facts = None
    ctx = engine.Ctx(prop, None, tier)
    try:
        d, key, cached = engine.extract_facts()
        facts = Facts(d)
        ctx.facts = facts
        import common
        common.FACTS[0] = facts
        ctx.tree_key = key
        ctx.cached = cached
    except Inconclusive as e:
        ctx.cur = prop + ".extract"
        ctx.rules_run.append(ctx.cur)
        ctx.fail_closed(str(e))
        ctx.cur = None
    if facts is not None:
        mod.rules(ctx)
    extra = getattr(mod, "extra_coverage", None)
    extra_cov = extra(ctx) if extra and facts is not None else None
    if tier == "thorough" and facts is not None:
        import selftest
        st = selftest.run(prop, engine.REPO)
        extra_cov = dict(extra_cov or {}, selftest=st)
        print("%s selftest on scratch copies of this tree: %d variants; mutants %s, seeded %s, benign %s"
              % (prop, st["variants"], st["mutants"], st["seeded"], st["benign"]))
        for u in st["unexpected"]:
            print("  selftest %s %s: %s %s" % (u["kind"], u["id"], u["status"], u["detail"]))
    rc = engine.finish(ctx, mod.LEVEL, mod.UNDECIDED, mod.ASSUMPTIONS, t0, extra_cov=extra_cov,
                       checker_cmd="./check %s --tier %s" % (prop, tier),
                       trusted=getattr(mod, "TRUSTED", None))
    return rc


if __name__ == "__main__":
    sys.exit(main())

"""C18 — the cancellable parallel sort returns a sorted permutation (translation validation against
the vendored rayon 1.10.0 quicksort + separately checked cancellation delta)."""
import hashlib
import os
import re

import refdiff
from cfg import Inconclusive, op_place, show, walk, strip_casts
from common import (atomic_op, calls_to, callee, closure_creations, closure_consumer, field_chain, fn_of,
                    get_fn, head_sources, peel, site, guards_of, ret_aggregates)
from props.c09 import classify
from props.c06 import rule_placeholders
from engine import REPO, VERIF

PROP = "C18"
LEVEL = "translation_validation"
UNDECIDED = [
    "sortedness / permutation of the reference algorithm itself (trusted: rayon 1.10.0 = std's pdqsort, vetted upstream)",
    "identical match order for every thread count beyond: the comparator is a total order (chain checked) and the sort is a comparison sort",
]
ASSUMPTIONS = [
    "rayon 1.10.0 src/slice/quicksort.rs (sha256 pinned in rules/props/c18.py, copy in /verif/ref) sorts correctly and leaves a permutation on panic",
    "token equality after the listed normalisations (comments, whitespace, attributes, alpha-renaming of local binders, cmp::min≡Ord::min, rayon::join≡rayon_core::join, CopyOnDrop literal≡constructor) preserves behaviour",
]
TRUSTED = ["rayon-1.10.0/src/slice/quicksort.rs", "rustc nightly front end (MIR for the cancellation rules)", "rules/refdiff.py lexer + normaliser"]

REF_SHA256 = "082eb0acb08b675607b0d5a6e99f40bebf924dad6f53c848fc3c2458cc1a48e5"
REF_PATH = os.path.join(VERIF, "ref", "rayon-1.10.0-quicksort.rs")

_state = {}


def rule_refdiff(ctx):
    if not os.path.exists(REF_PATH):
        raise Inconclusive("reference file missing: " + REF_PATH)
    h = hashlib.sha256(open(REF_PATH, "rb").read()).hexdigest()
    if h != REF_SHA256:
        raise Inconclusive("reference file does not have the pinned sha256")
    # cross-check with the copy the repository's own build uses, when present
    note = "registry copy not found (fallback copy in /verif/ref used)"
    home = os.path.expanduser("~/.cargo/registry/src")
    if os.path.isdir(home):
        for d in os.listdir(home):
            p = os.path.join(home, d, "rayon-1.10.0", "src", "slice", "quicksort.rs")
            if os.path.exists(p):
                hh = hashlib.sha256(open(p, "rb").read()).hexdigest()
                note = "cargo registry copy of rayon-1.10.0 quicksort.rs %s the pinned reference" % ("matches" if hh == REF_SHA256 else "DIFFERS from")
    ctx.note(note)
    ours = os.path.join(REPO, "src", "par_sort.rs")
    if not os.path.exists(ours):
        raise Inconclusive("src/par_sort.rs not found")
    res = refdiff.compare(ours, REF_PATH)
    _state["refdiff"] = res
    ctx.floor("reference items compared", len(res["items"]), 14)
    # A local deviation from the vetted text (a changed operator, constant, index, a dropped statement) is reported as
    # a violation: that is how this check decides anything (the seeded sort defects differ in 1-2 places).  A function
    # that has been REWRITTEN (it differs in more than REWRITE_REGIONS separate places; variable renumbering not counted)
    # is outside what a textual comparison can judge: INCONCLUSIVE, never silently accepted.
    REWRITE_REGIONS = 4
    for it in res["items"]:
        where = "src/par_sort.rs (%s)" % it["name"]
        if it["equal"] and it["delta_ok"]:
            ctx.ok(where, "%d tokens equal to the reference%s" % (it["tokens"], (" after removing the cancellation delta %s" % it["delta"]) if it["delta"] else ""))
        elif not it["equal"] and it.get("changed_regions", 0) > REWRITE_REGIONS:
            ctx.fail_closed("%s has been rewritten (it differs from the vetted reference in %d separate places, %d tokens): translation validation does not apply to it "
                            "and its behaviour is not decided" % (it["name"], it.get("changed_regions", 0), it.get("changed_tokens", 0)))
        elif not it["equal"]:
            fd = it["first_difference"] or {}
            ctx.violation("par_sort|%s|deviates" % it["name"], where,
                          "no longer the vetted reference (rayon 1.10.0 quicksort.rs) modulo the cancellation delta; first difference — ours: `%s` / reference: `%s`"
                          % (fd.get("ours"), fd.get("reference")))
        else:
            ctx.violation("par_sort|%s|delta" % it["name"], where,
                          "cancellation delta differs from the enumerated one: found %s, expected %s" % (it["delta"], it["delta_expected"]))
    for m in res["missing"]:
        ctx.violation("par_sort|%s|missing" % m, "src/par_sort.rs", "reference item `%s` has no counterpart" % m)
    for x in res["extra"]:
        if x.startswith("const ") or x.startswith("struct ") or x.startswith("impl "):
            ctx.fail_closed("item `%s` exists only in par_sort.rs: not covered by the translation validation" % x)
        else:
            nm_ = x[3:].split("#")[0].strip()
            used_outside = False
            for other in ("worker.rs", "lib.rs", "pattern.rs", "boxcar.rs"):
                op_ = os.path.join(REPO, "src", other)
                if os.path.exists(op_) and re.search(r"\b%s\b" % re.escape(nm_), open(op_, encoding="utf-8").read()):
                    used_outside = True
            if used_outside:
                ctx.violation("par_sort|%s|extra" % x, "src/par_sort.rs", "function `%s` exists only in par_sort.rs (not part of the vetted reference) and is used by the rest of the crate: a sort entry point that was never validated" % x)
            else:
                ctx.fail_closed("private helper `%s` exists only in par_sort.rs (not part of the vetted reference): the functions that use it are not validated" % x)


def ret_sources(fn):
    """All values assigned to the return place, as (bb, si, expr)."""
    out = []
    for bi, si, rv in ret_aggregates(fn):
        out.append((bi, si, fn.expr_of_rvalue(rv)))
    for bi, t in fn.calls():
        if t["dest"]["l"] == 0 and not t["dest"]["p"]:
            out.append((bi, "term", ("call", callee(t), tuple(fn.expr_of_operand(a) for a in t["args"]), t.get("fn"), (bi, 0))))
    return out


def is_cancel_load(fn, e):
    return e[0] == "call" and isinstance(e[3], str) and e[3].endswith("Atomic::<bool>::load") and classify(fn, e[2][0]) == "canceled"


def rule_cancel_taint(ctx):
    facts = ctx.facts
    for name in ("par_sort::recurse", "par_sort::par_quicksort"):
        fn = get_fn(facts, "nucleo", name)
        srcs = ret_sources(fn)
        if not srcs:
            raise Inconclusive("%s: no return value found" % name)
        k = 0
        for bi, si, e in srcs:
            k += 1
            key = "%s|return|%d" % (name, k)
            where = site(fn, bi, si if si != "term" else None)
            if e[0] == "const" and e[1] == 0:
                # `false` must not be returned on a path that observed the flag raised
                bad = False
                for g in guards_of(fn, bi):
                    if is_cancel_load(fn, g[3]) and g[2] in ([None], [1]):
                        bad = True
                if bad:
                    ctx.violation(key, where, "reports `not cancelled` on the path where the cancel flag was seen raised: a partially sorted slice is treated as complete")
                else:
                    ctx.ok(where, "returns false (not cancelled) on a path that never saw the flag raised")
            elif e[0] == "const" and e[1] == 1:
                gs = [g for g in guards_of(fn, bi) if is_cancel_load(fn, g[3])]
                if gs and all(g[2] in ([None], [1]) for g in gs):
                    ctx.ok(where, "returns true only under canceled.load() == true")
                else:
                    ctx.violation(key, where, "reports `cancelled` although the cancel flag was not observed raised (a completed sort would be discarded / never installed)")
            elif e[0] == "bin" and e[1] == "BitOr":
                parts = [e[2], e[3]]
                okp = True
                for p in parts:
                    p = peel(p)
                    if not (p[0] == "field" and peel(p[1])[0] == "call" and str(peel(p[1])[1]).endswith("::join")):
                        okp = False
                idx = sorted(p[2] if p[0] == "field" else "?" for p in [peel(x) for x in parts])
                if okp and idx == ["0", "1"]:
                    ctx.ok(where, "returns join.0 | join.1 (either half cancelled ⇒ cancelled)")
                else:
                    ctx.violation(key, where, "result of the parallel halves is combined as %s; it must be `left | right` of the join" % show(e))
            elif e[0] == "bin":
                ctx.violation(key, where, "results of the two halves combined with %s: a cancelled half can be reported as complete" % e[1])
            elif e[0] == "call" and e[1] == "par_sort::recurse" and name == "par_sort::par_quicksort":
                ctx.ok(where, "par_quicksort returns recurse's result")
            elif e[0] == "field" and peel(e[1])[0] == "call" and str(peel(e[1])[1]).endswith("::join"):
                ctx.violation(key, where, "only one half's cancellation result is returned (%s)" % show(e))
            else:
                ctx.violation(key, where, "cancel result has an unexpected source: %s" % show(e))
    # the join closures return their recurse call's result
    rc = get_fn(facts, "nucleo", "par_sort::recurse")
    n = 0
    for c in closure_creations(rc):
        cf = get_fn(facts, "nucleo", c[3])
        ss = ret_sources(cf)
        n += 1
        if len(ss) == 1 and ss[0][2][0] == "call" and ss[0][2][1] == "par_sort::recurse":
            ctx.ok(site(cf, 0), "join closure returns recurse(..)")
        else:
            ctx.violation("%s|return|1" % cf.path, site(cf, 0), "join closure does not return its recurse result: %s" % [show(s[2]) for s in ss])
    ctx.floor("join closures", n, 2)


def rule_cancel_points(ctx):
    facts = ctx.facts
    allowed = ("par_sort::recurse", "par_sort::par_quicksort")
    n = 0
    for b in facts.bodies_of("nucleo"):
        if not b["path"].startswith("par_sort::"):
            continue
        fn = fn_of(b)
        for bi, t in fn.calls(lambda t: atomic_op(t) is not None):
            n += 1
            if fn.path in allowed and atomic_op(t) == "load" and classify(fn, fn.expr_of_operand(t["args"][0])) == "canceled":
                ctx.ok(site(fn, bi), "cancel flag read between partition steps")
            else:
                ctx.violation("%s|atomic|1" % fn.path, site(fn, bi), "atomic operation inside the sort outside recurse/par_quicksort: a cancellation exit in the middle of a partition step would leave holes / duplicated elements in the slice")
    if n == 0:
        ctx.ok("par_sort", "the sort never reads the cancel flag (never reports cancelled)")
    ub = [u for u in facts.crate("nucleo")["unsafe_blocks"] if u["owner"] in allowed or u["owner"].startswith("par_sort::recurse::")]
    if ub:
        for u in ub:
            ctx.violation("%s|unsafe-block|1" % u["owner"], "%s:%d" % (u["loc"]["file"], u["loc"]["line"]), "unsafe block in a function that has cancellation exits")
    else:
        ctx.ok("par_sort::recurse / par_quicksort", "no unsafe block: every cancellation exit happens with all elements in the slice")
    for name in allowed:
        fn = get_fn(facts, "nucleo", name)
        guards = [1 for bi, si, s in fn.stmts(lambda s: s["k"] == "assign" and s["rv"].get("agg") == "adt" and "CopyOnDrop" in s["rv"].get("adt", ""))]
        if guards:
            ctx.violation("%s|CopyOnDrop|1" % name, site(fn, 0), "a CopyOnDrop hole guard is alive in a function with cancellation exits")
        else:
            ctx.ok(site(fn, 0), "no hole guard alive across a cancellation exit")
    # the flag is only read, never written, by the sort
    # (stores are ruled out above: any non-load atomic op is a violation)


def rule_total_order(ctx):
    rule_placeholders(ctx)


def rule_zst(ctx):
    fn = get_fn(ctx.facts, "nucleo", "par_sort::par_quicksort")
    sw = None
    for bi in sorted(fn.live):
        t = fn.blocks[bi]["term"]
        if t["k"] == "switch":
            sw = (bi, t)
            break
    if sw is None:
        raise Inconclusive("par_quicksort has no branch")
    e = fn.expr_of_operand(sw[1]["discr"])
    if e[0] == "bin" and e[1] == "Eq" and any(x[0] == "call" and str(x[1]).endswith("size_of") for x in walk(e)) or \
            any(x[0] in ("rt", "constx", "const") and "size_of" in str(x) for x in walk(e)):
        ctx.ok(site(fn, sw[0]), "zero-sized element types return before anything else")
    else:
        ctx.note("first branch of par_quicksort is %s" % show(e))
        ctx.ok(site(fn, sw[0]), "first branch of par_quicksort precedes the cancel check and recursion (token-equal to the reference: C18.refdiff)")


def extra_coverage(ctx):
    res = _state.get("refdiff")
    if not res:
        return {}
    return {
        "programs": len(res["items"]),
        "disagreements_checked": sum(1 for it in res["items"] if not (it["equal"] and it["delta_ok"])) + len(res["missing"]) + len(res["extra"]),
        "reference_sha256": res["ref_sha256"],
        "ours_sha256": res["ours_sha256"],
        "functions": [{"name": it["name"], "tokens": it["tokens"], "equal": it["equal"], "delta": it["delta"]} for it in res["items"]],
    }


def rules(ctx):
    ctx.run_rule("C18.refdiff", rule_refdiff)
    ctx.run_rule("C18.cancel-taint", rule_cancel_taint)
    ctx.run_rule("C18.cancel-points", rule_cancel_points)
    ctx.run_rule("C18.total-order", rule_total_order)
    ctx.run_rule("C18.zst", rule_zst)

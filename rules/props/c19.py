"""C19 — tick's status tells the truth about the snapshot (shape facts)."""
from cfg import Inconclusive, op_place, show, walk, strip_casts, decision_paths
from common import (atomic_op, calls_to, callee, closure_creations, closure_consumer, field_chain, fn_of,
                    find_fn, get_fn, head_sources, peel, site, guards_of, field_assigns, field_borrows,
                    field_reads, is_diverging, ret_aggregates, bool_param, is_arg)


from common import closure_tree, iter_pipeline


def worker_param(fn, base):
    """Is `base` the (non-self) parameter of this body that refers to the Worker? (by type, not by name)"""
    return isinstance(base, tuple) and base[0] == "arg" and base[1] >= 2 and "Worker<" in fn.b["locals"][base[1]]["ty"]

PROP = "C19"
LEVEL = "other"
UNDECIDED = [
    "that every item whose push completed before the call is counted, under concurrent injectors (schedule quantifier)",
    "equality of snapshot contents before/after over all histories (only: no snapshot field is written when changed == false)",
]
ASSUMPTIONS = [
    "Deref/DerefMut on the ArcMutexGuard yield the one Worker object (aliases of one abstract place)",
    "MIR at opt-level 0 preserves source control flow",
]

TICK = "Nucleo::<T>::tick"
TICK_INNER = "Nucleo::<T>::tick_inner"


def is_worker_field(e, name):
    """e is a read of <guard-deref>.name (or the old value returned by mem::replace on it)"""
    if replaced_worker_field(e) == name:
        return True
    e = peel(e) if e and e[0] in ("ref", "deref") else e
    if not (isinstance(e, tuple) and e[0] == "field" and e[2] == name):
        return False
    return "worker::Worker<" in (e[3] or "")


def replaced_worker_field(e):
    """`mem::replace(&mut worker.FIELD, v)` evaluates to the OLD value of the field: returns FIELD (or None)."""
    if isinstance(e, tuple) and e and e[0] in ("ref", "deref"):
        e = peel(e)
    if isinstance(e, tuple) and e and e[0] == "call" and (str(e[1]).endswith("mem::replace") or str(e[1]).endswith("mem::take")) and e[2]:
        a0 = e[2][0]
        while isinstance(a0, tuple) and a0 and a0[0] in ("ref", "deref"):
            a0 = a0[1]
        if isinstance(a0, tuple) and a0 and a0[0] == "field" and "worker::Worker<" in (a0[3] or ""):
            return a0[2]
    return None


def canon_atom(e):
    rf = replaced_worker_field(e)
    if rf is not None:
        return ("wf", rf)
    """Canonical form of a guard atom: field reads through the guard collapse to ('wf', name)."""
    e = peel(e) if isinstance(e, tuple) and e and e[0] in ("ref", "deref") else e
    if isinstance(e, tuple) and e and e[0] == "field" and "worker::Worker<" in (e[3] or ""):
        return ("wf", e[2])
    if isinstance(e, tuple) and e and e[0] == "call":
        return ("call", e[1], tuple(canon_atom(a) for a in e[2]))
    if isinstance(e, tuple) and e and e[0] == "field":
        return ("field", canon_atom(e[1]), e[2])
    if isinstance(e, tuple) and e and e[0] == "arg":
        return ("arg", e[2])
    return e


def snapshot_mutators(ti):
    """Blocks of tick_inner that call something with &mut self.snapshot."""
    out = []
    for bi, t in ti.calls():
        for a in t["args"]:
            e = ti.expr_of_operand(a)
            if e[0] == "ref" and e[2]:
                base, names = field_chain(e)
                if names and names[0] == "snapshot" and base[0] == "arg":
                    out.append((bi, t))
    # direct field writes
    return out


def _rule_changed_guards_mutation_tick(ctx):
    facts = ctx.facts
    ti = get_fn(facts, "nucleo", TICK_INNER)
    muts = snapshot_mutators(ti)
    direct = [(bi, si) for bi, si, s in ti.stmts(lambda s: s["k"] == "assign" and any(isinstance(e, dict) and e.get("name") == "snapshot" for e in s["lhs"]["p"]))]
    for bi, si in direct:
        ctx.violation(TICK_INNER + "|snapshot-direct-write|1", site(ti, bi, si), "tick_inner writes a snapshot field directly")
    ctx.floor("snapshot mutation sites in tick_inner", len(muts), 1)
    # reads/writes of Worker.running in tick_inner
    reads = field_reads(ti, "running", "worker::Worker<")
    writes = [w for w in field_assigns(ti, "running", "worker::Worker<")]
    swapped = [bi for bi, si, s_ in writes if si == "replace"]
    if not reads and not swapped:
        raise Inconclusive("tick_inner never reads inner.running")
    for rbi, rsi, rs in reads:
        for wbi, wsi, ws in writes:
            if not (ti.dominates(rbi, wbi) and rbi not in ti.reach_from(ti.succ[wbi][0] if ti.succ[wbi] else wbi, include_start=True) or (rbi == wbi and wsi != "term" and rsi < wsi)):
                ctx.violation(TICK_INNER + "|running-write-before-read|1", site(ti, wbi, wsi),
                              "inner.running is written before one of its reads: `changed` and the update guard may see different values")
    for bi, t in muts:
        if callee(t) not in ("Snapshot::<T>::update",):
            ctx.violation(TICK_INNER + "|snapshot-mutator|%s" % callee(t), site(ti, bi), "tick mutates the snapshot through %s (only Snapshot::update is accounted for by `changed`)" % callee(t))
            continue
        gs = [g for g in guards_of(ti, bi) if is_worker_field(g[3], "running")]
        if gs and all(g[2] in ([None], [1]) for g in gs):
            ctx.ok(site(ti, bi), "Snapshot::update is control-dependent on inner.running == true")
        else:
            ctx.violation(TICK_INNER + "|update-unguarded|1", site(ti, bi),
                          "Snapshot::update is reachable without inner.running being true: the snapshot can change while tick reports changed == false")
    # `changed` of every non-constant returned Status is a read of inner.running
    n = 0
    for bi, si, rv in ret_aggregates(ti):
        if rv.get("agg") != "adt" or not rv.get("adt", "").endswith("Status"):
            raise Inconclusive("tick_inner returns something that is not a Status literal")
        names = rv["fields"]
        ch = ti.expr_of_operand(rv["ops"][names.index("changed")])
        n += 1
        upd = [m for m, t_ in muts]
        # the facts that hold whenever Snapshot::update executes: its guards, as (atom, truth)
        gfacts = []
        for u in upd:
            for g in guards_of(ti, u):
                truth = g[2] in ([None], [1])
                gfacts.append((canon_atom(g[3]), truth))

        def implied(e):
            if e[0] == "un" and e[1] == "Not":
                return (canon_atom(e[2]), False) in gfacts
            return (canon_atom(e), True) in gfacts

        defs = [(bi, si, ch)]
        if ch[0] == "local":
            defs = ti.def_exprs(ch[1])
        for dbi, dsi, e in defs:
            if e[0] == "const" and e[1] == 1:
                ctx.ok(site(ti, dbi, dsi if dsi != -1 else None), "changed: true (conservative)")
            elif e[0] == "const" and e[1] == 0:
                bad = [u for u in upd if (dbi in ti.reach_from(u) and bi in ti.reach_from(dbi)) or (u in ti.reach_from(dbi) and bi in ti.reach_from(u) and len(defs) == 1)]
                if bad:
                    ctx.violation(TICK_INNER + "|changed-const-false|1", site(ti, dbi, dsi), "changed: false on a path that passes Snapshot::update")
                else:
                    ctx.ok(site(ti, dbi, dsi), "changed: false only on a path that cannot have updated the snapshot")
            elif implied(e):
                ctx.ok(site(ti, dbi, dsi), "changed (%s) is one of the conditions under which Snapshot::update runs" % show(e))
            else:
                ctx.violation(TICK_INNER + "|changed-source|1", site(ti, dbi, dsi),
                              "`changed` is %s, which is not implied by the conditions guarding Snapshot::update: the snapshot can be rewritten while tick reports changed == false" % show(e))
    ctx.floor("Status values returned by tick_inner", n, 2)
    # tick: `changed` is (at least) the OR of all phases that ran on the path, decided per return path as a
    # boolean function of the phases' results (whatever the statement shapes: |=, ||, struct literal, early return)
    tick = get_fn(facts, "nucleo", TICK)
    tab = tick_phase_table(tick)
    ctx.floor("return paths of tick", len(tab), 2)
    if max(n_ for _, n_, _, _ in tab) < 2:
        ctx.violation(TICK + "|changed-or|0", site(tick, 0), "tick has no path with a second phase")
    bad = [t_ for t_ in tab if t_[2] in ("changed", "opaque", "no-phase")]
    if bad:
        ctx.violation(TICK + "|changed-or|1", site(tick, 0), "tick does not combine the `changed` of its phases with OR: %s" % bad[0][3])
    else:
        ctx.ok(site(tick, 0), "on all %d return paths of tick, changed ⊇ OR of the phases' changed" % len(tab))


def rule_changed_guards_mutation(ctx):
    facts = ctx.facts
    if not getattr(ctx, "tick_flat", False):
        _rule_changed_guards_mutation_tick(ctx)
    # who else can mutate the snapshot: &mut self.snapshot is taken only in tick_inner and restart
    for b in facts.bodies_of("nucleo"):
        fn = fn_of(b)
        if fn.path in (TICK_INNER, "Nucleo::<T>::restart"):
            continue
        for bi, si, s in field_borrows(fn, "snapshot", "Nucleo<"):
            ctx.violation("%s|&mut snapshot|1" % fn.path, site(fn, bi, si), "snapshot mutably borrowed outside tick_inner/restart")
    # WHO-WRITES Snapshot fields
    for b in facts.bodies_of("nucleo"):
        fn = fn_of(b)
        for fld in ("item_count", "matches", "pattern", "items"):
            ws = field_assigns(fn, fld, "Snapshot<") + field_borrows(fn, fld, "Snapshot<")
            for bi, si, s in ws:
                if fn.path in ("Snapshot::<T>::update", "Snapshot::<T>::clear"):
                    continue
                ctx.violation("%s|Snapshot.%s|write" % (fn.path, fld), site(fn, bi, si), "Snapshot.%s written outside Snapshot::update/clear" % fld)
    ctx.ok("crate nucleo", "Snapshot fields are written only by Snapshot::update / Snapshot::clear")


def _status_field(r, name):
    r = peel(r) if r and r[0] in ("ref", "deref") else r
    if r is None:
        return None
    if r[0] == "agg" and name in r[2]:
        return r[2][name]
    if r[0] == "upd":
        return r[2].get(name, ("field", r[1], name, None))
    if r[0] == "call":
        return ("field", r, name, None)
    return None


def _bool_eval(e, asg):
    """Evaluate a boolean expression over atoms (call id, field) -> bool; None when it depends on anything else."""
    e = strip_casts(e)
    if e[0] == "const" and e[1] in (0, 1, True, False):
        return bool(e[1])
    if e[0] == "field":
        b = e[1]
        while b and b[0] in ("ref", "deref"):
            b = b[1]
        if b and b[0] == "upd" and e[2] in b[2]:
            return _bool_eval(b[2][e[2]], asg)
        if b and b[0] == "upd":
            b = b[1]
        if b and b[0] == "call":
            return asg.get((b[4], e[2]))
        return None
    if e[0] == "un" and e[1] == "Not":
        v = _bool_eval(e[2], asg)
        return None if v is None else (not v)
    if e[0] == "bin" and e[1] in ("BitOr", "BitAnd"):
        a, b = _bool_eval(e[2], asg), _bool_eval(e[3], asg)
        if e[1] == "BitOr":
            if a is True or b is True:
                return True
            return None if (a is None or b is None) else False
        if a is False or b is False:
            return False
        return None if (a is None or b is None) else True
    return None


def tick_phase_table(tick):
    """Per return path of tick: the tick_inner calls made and the returned Status, checked as boolean functions
    of the phases' (changed, running): yields (path_no, n_phases, problem or None, detail)."""
    import itertools
    out = []
    paths = decision_paths(tick, with_calls=True)
    for pi, (conds, res, calls) in enumerate(paths):
        phases = [c for c in calls if c[0] == TICK_INNER]
        if not phases:
            out.append((pi, 0, "no-phase", "a return path of tick does not call tick_inner"))
            continue
        ch = _status_field(res, "changed")
        ru = _status_field(res, "running")
        if ch is None or ru is None:
            out.append((pi, len(phases), "opaque", "returned Status is not built from the phases' results: %s" % show(res)[:120]))
            continue
        ids = [c[1] for c in phases]
        problem = None
        for bits in itertools.product((False, True), repeat=2 * len(ids)):
            asg = {}
            for k, cid in enumerate(ids):
                asg[(cid, "changed")] = bits[2 * k]
                asg[(cid, "running")] = bits[2 * k + 1]
            feasible = True
            for d, chosen, allv in conds:
                v = _bool_eval(d, asg)
                if v is None:
                    continue
                want = (chosen != 0) if chosen is not None else True
                if v != want:
                    feasible = False
                    break
            if not feasible:
                continue
            cv, rv = _bool_eval(ch, asg), _bool_eval(ru, asg)
            if cv is None or rv is None:
                problem = ("opaque", "returned Status depends on something other than the phases' results")
                break
            any_changed = any(asg[(cid, "changed")] for cid in ids)
            if any_changed and not cv:
                problem = ("changed", "with %d phase(s), some phase reported changed but tick returns changed == false" % len(ids))
                break
            if asg[(ids[-1], "running")] and not rv:
                problem = ("running", "the last phase reported running (it spawned a run or timed out) but tick returns running == false")
                break
        out.append((pi, len(ids), problem[0] if problem else None, problem[1] if problem else "ok"))
    return out


def rule_running_guards_spawn(ctx):
    ti = get_fn(ctx.facts, "nucleo", TICK_INNER)
    spawns = [(bi, t) for bi, t in ti.calls(lambda t: callee(t) == "rayon::ThreadPool::spawn")]
    if len(spawns) != 1:
        raise Inconclusive("expected exactly one spawn in tick_inner")
    sb = spawns[0][0]
    for bi, si, rv in ret_aggregates(ti):
        names = rv["fields"]
        rop = rv["ops"][names.index("running")]
        r = ti.expr_of_operand(rop)
        if r[0] == "const":
            if r[1] == 1:
                # running: true constant — must be the failed-lock exit (nothing spawned but a run is still going)
                if sb in ti.reach_from(0) and bi in ti.reach_from(ti.blocks[sb]["term"]["target"]):
                    ctx.ok(site(ti, bi, si), "constant running: true")
                else:
                    ctx.ok(site(ti, bi, si), "failed-lock exit reports running: true (the previous run still holds the lock)")
            else:
                if bi in ti.reach_from(ti.blocks[sb]["term"]["target"]):
                    ctx.violation(TICK_INNER + "|running-const-false|1", site(ti, bi, si), "returns running: false on a path that spawned a run")
                else:
                    ctx.violation(TICK_INNER + "|running-const-false|2", site(ti, bi, si), "returns a constant running: false without deciding whether work is pending")
            continue
        # must be the very local that guards the spawn
        p = op_place(rop)
        rl = None
        e = r
        if r[0] == "local":
            rl = r[1]
        gs = guards_of(ti, sb)
        match = [g for g in gs if g[3] == r]
        if match and all(g[2] in ([None], [1]) for g in match):
            # and on the false edge nothing is spawned (trivially: spawn guarded)
            ctx.ok(site(ti, bi, si), "`running` is the value that guards ThreadPool::spawn (%s)" % show(r))
        else:
            ctx.violation(TICK_INNER + "|running-source|1", site(ti, bi, si),
                          "`running` (%s) is not the condition under which the run is spawned" % show(r))
    # tick returns (at least) the last phase's running on every path
    tick = get_fn(ctx.facts, "nucleo", TICK)
    tab = tick_phase_table(tick)
    bad = [t_ for t_ in tab if t_[2] in ("running", "opaque", "no-phase")]
    if bad:
        ctx.violation(TICK + "|running-second-phase|1", site(tick, 0), "tick does not return the `running` of its last phase: %s" % bad[0][3])
    else:
        ctx.ok(site(tick, 0), "on all %d return paths of tick, running ⊇ the last phase's running" % len(tab))


def _rule_running_formula_tick(ctx):
    ti = get_fn(ctx.facts, "nucleo", TICK_INNER)
    spawns = [(bi, t) for bi, t in ti.calls(lambda t: callee(t) == "rayon::ThreadPool::spawn")]
    sb = spawns[0][0]
    gs = [g for g in guards_of(ti, sb) if g[3][0] == "local"]
    if not gs:
        raise Inconclusive("spawn is not guarded by a local condition")
    l = gs[0][3][1]
    defs = ti.def_exprs(l)
    saw_true = saw_cmp = False
    for bi, si, e in defs:
        if e[0] == "const" and e[1] == 1:
            g = [x for x in guards_of(ti, bi) if is_arg(x[3], bool_param(ti))]
            if g and all(x[2] in ([None], [1]) for x in g):
                saw_true = True
                ctx.ok(site(ti, bi, si), "running = true when this tick cancelled the previous run")
            else:
                ctx.violation(TICK_INNER + "|running-true-unguarded|1", site(ti, bi, si), "running forced to true outside the cancelling path")
        elif e[0] == "bin" and e[1] in ("Gt", "Lt", "Ne"):
            a, b = (e[2], e[3]) if e[1] != "Lt" else (e[3], e[2])
            oka = a[0] == "call" and a[1] == "boxcar::Vec::<T>::count" and field_chain(a[2][0])[1] == ["items"] and field_chain(a[2][0])[0][0] == "arg"
            okb = b[0] == "call" and b[1] == "worker::Worker::<T>::item_count"
            if oka and okb:
                saw_cmp = True
                ctx.ok(site(ti, bi, si), "running = self.items.count() > inner.item_count() (current stream vs. worker's processed count)")
            else:
                ctx.violation(TICK_INNER + "|running-formula|1", site(ti, bi, si),
                              "pending-work test is %s; it must compare the current stream's count (self.items) with the worker's processed item count" % show(e))
        else:
            ctx.violation(TICK_INNER + "|running-formula|2", site(ti, bi, si), "unexpected definition of the running condition: %s" % show(e))
    if not saw_cmp:
        ctx.violation(TICK_INNER + "|running-formula|3", site(ti, sb), "no comparison of injected vs processed item counts decides `running`")


def rule_running_formula(ctx):
    if not getattr(ctx, "tick_flat", False):
        _rule_running_formula_tick(ctx)
    # item_count = last_snapshot - in_flight.len()
    ic = get_fn(ctx.facts, "nucleo", "worker::Worker::<T>::item_count")
    rets = ret_aggregates(ic)
    okic = False
    for bi, si, rv in rets:
        e = ic.expr_of_rvalue(rv)
        if e[0] == "bin" and e[1] == "Sub":
            a, b = e[2], strip_casts(e[3])
            if a[0] == "field" and a[2] == "last_snapshot" and b[0] == "call" and str(b[1]).endswith("::len") and field_chain(b[2][0])[1] == ["in_flight"]:
                okic = True
    if okic:
        ctx.ok(site(ic, 0), "item_count = last_snapshot - in_flight.len()")
    else:
        ctx.violation("worker::Worker::<T>::item_count|formula|1", site(ic, 0), "processed item count is not last_snapshot - in_flight.len()")
    # Worker.running: set true at the start of run, cleared only by tick_inner
    for b in ctx.facts.bodies_of("nucleo"):
        fn = fn_of(b)
        for bi, si, s in field_assigns(fn, "running", "worker::Worker<"):
            v = fn.const_of_operand(s["rv"]["use"]) if si != "term" and "use" in s["rv"] else None
            if fn.path == "worker::Worker::<T>::run" and v == 1 and bi == 0:
                ctx.ok(site(fn, bi, si), "run marks itself running first thing")
            elif fn.path == TICK_INNER and v == 0:
                ctx.ok(site(fn, bi, si), "only the consuming tick clears Worker.running")
            else:
                ctx.violation("%s|Worker.running|write" % fn.path, site(fn, bi, si), "Worker.running written outside the run start / the consuming tick (value %s)" % v)
    run = get_fn(ctx.facts, "nucleo", "worker::Worker::<T>::run")
    if not [1 for bi, si, s in field_assigns(run, "running", "worker::Worker<") if bi == 0]:
        ctx.violation("worker::Worker::<T>::run|Worker.running|missing", site(run, 0), "run does not set Worker.running = true on entry: a finished run's results are never picked up and `changed` stays false")


def _rule_status_lattice_tick(ctx):
    facts = ctx.facts
    # tick cancels exactly when status != Unchanged || state.canceled()
    tick = get_fn(facts, "nucleo", TICK)
    inner_calls = [(bi, t) for bi, t in tick.calls(lambda t: callee(t) == TICK_INNER)]
    c = tick.expr_of_operand(inner_calls[0][1]["args"][2])
    good = False
    if c[0] == "local":
        ds = tick.def_exprs(c[1])
        has_true = any(e[0] == "const" and e[1] == 1 for _, _, e in ds)
        has_state = any(e[0] == "call" and e[1] == "State::canceled" for _, _, e in ds)
        ne = False
        for bi, si, e in ds:
            if e[0] == "const" and e[1] == 1:
                for g in guards_of(tick, bi):
                    ge = g[3]
                    if ge[0] == "call" and str(ge[3]).endswith("PartialEq::ne"):
                        other = peel(ge[2][1])
                        if other[0] == "agg" and other[1].endswith("Status::Unchanged") and g[2] in ([None], [1]):
                            ne = True
        good = has_true and has_state and ne
    if good:
        ctx.ok(site(tick, inner_calls[0][0]), "tick cancels iff pattern.status() != Unchanged || state.canceled()")
    else:
        ctx.violation(TICK + "|cancel-condition|1", site(tick, inner_calls[0][0]), "cancel condition of tick is not `status != Unchanged || state.canceled()`: %s" % show(c))


def rule_status_lattice(ctx):
    facts = ctx.facts
    st = facts.adt("nucleo", "pattern::Status")
    if st is None:
        raise Inconclusive("pattern::Status not found")
    order = [v["name"] for v in st["variants"]]
    if order == ["Unchanged", "Update", "Rescore"]:
        ctx.ok("pattern::Status", "declaration order Unchanged < Update < Rescore (derived Ord)")
    else:
        ctx.violation("pattern::Status|variant-order|1", "%s:%d" % (st["loc"]["file"], st["loc"]["line"]),
                      "variant order is %s: MultiPattern::status() takes the derived maximum, which must be Rescore > Update > Unchanged" % order)
    derived = [im for im in facts.crate("nucleo")["impls"] if im["self_ty"] == "pattern::Status" and im["trait"] == "std::cmp::Ord"]
    if derived and derived[0]["derived"]:
        ctx.ok("impl Ord for pattern::Status", "derived")
    else:
        ctx.fail_closed("Ord for pattern::Status is not derived: cannot read the order off the declaration")
    # status() = max over columns
    sf = get_fn(facts, "nucleo", "pattern::MultiPattern::status")
    tree = closure_tree(facts, "nucleo", "pattern::MultiPattern::status")
    has_max = any(callee(t).endswith("::max") for f_ in tree for bi, t in f_.calls())
    folds = [(bi, t) for bi, t in sf.calls(lambda t: str(t.get("fn")).endswith("Iterator::fold"))]
    fold_ok = True
    for bi, t in folds:
        init = peel(sf.expr_of_operand(t["args"][1]))
        # the fold must start from the least element, otherwise an all-lower list reports too much / too little
        least = (init[0] == "agg" and str(init[1]).endswith("Status::" + order[0])) or (init[0] == "const" and init[1] == order[0])
        stages = iter_pipeline(sf, t)
        if not least or any(st[0].startswith(("truncating:", "unknown:", "subset:")) for st in stages[1:]):
            fold_ok = False
    # explicit maximum loop: `let mut res = LEAST; for (_, status) in cols { if status > res { res = status } } res`
    loop_max = False
    rets_ = [e_ for e_ in (sf.expr_of_rvalue(rv) for _, _, rv in ret_aggregates(sf))]
    if len(rets_) == 1 and rets_[0][0] == "local":
        acc = rets_[0][1]
        defs_ = sf.def_exprs(acc)
        lp = [l for l in sf.loops()]
        if lp:
            h_, body_, _ = min(lp, key=lambda l: len(l[1]))
            init = [e_ for b_, s_, e_ in defs_ if b_ not in body_]
            upd = [(b_, s_, e_) for b_, s_, e_ in defs_ if b_ in body_]
            least = len(init) == 1 and init[0][0] == "agg" and str(init[0][1]).endswith("Status::" + order[0])
            good_upd = bool(upd)
            for b_, s_, e_ in upd:
                # the assignment is taken exactly when the element compares greater than the accumulator
                okg = False
                for g in guards_of(sf, b_):
                    ge = g[3]
                    truth = g[2] in ([None], [1])
                    if ge[0] == "call" and str(ge[3]).rsplit("::", 1)[-1] in ("gt", "lt", "ge", "le") and "PartialOrd" in str(ge[3]):
                        opn = str(ge[3]).rsplit("::", 1)[-1]
                        x_, y_ = peel(ge[2][0]), peel(ge[2][1])
                        while x_[0] in ("ref", "deref"):
                            x_ = peel(x_[1])
                        while y_[0] in ("ref", "deref"):
                            y_ = peel(y_[1])
                        x_acc = x_[0] == "local" and x_[1] == acc
                        y_acc = y_[0] == "local" and y_[1] == acc
                        if y_acc and not x_acc and ((opn == "gt" and truth) or (opn == "le" and not truth)):
                            okg = True
                        if x_acc and not y_acc and ((opn == "lt" and truth) or (opn == "ge" and not truth)):
                            okg = True
                if not okg:
                    good_upd = False
            loop_max = least and good_upd
    if (has_max and fold_ok) or loop_max:
        ctx.ok(site(sf, 0), "status() is the maximum over the columns")
    else:
        ctx.violation("pattern::MultiPattern::status|max|1", site(sf, 0), "status() is not the maximum of the column statuses")
    if not getattr(ctx, "tick_flat", False):
        _rule_status_lattice_tick(ctx)
    # reparse never downgrades a pending Rescore
    rp = get_fn(facts, "nucleo", "pattern::MultiPattern::reparse")
    for bi, si, s in rp.stmts(lambda s: s["k"] == "assign" and s["lhs"]["p"] and isinstance(s["lhs"]["p"][-1], dict) and s["lhs"]["p"][-1].get("name") == "1"):
        e = rp.expr_of_rvalue(s["rv"])
        if e[0] == "agg" and e[1].endswith("Status::Update"):
            gs = guards_of(rp, bi)
            okg = False
            for g in gs:
                ge = g[3]
                if ge[0] == "call" and str(ge[3]).endswith("PartialEq::ne") and g[2] in ([None], [1]):
                    other = peel(ge[2][1])
                    if other[0] == "agg" and other[1].endswith("Status::Rescore"):
                        okg = True
            app = any(is_arg(g[3], bool_param(rp)) and g[2] in ([None], [1]) for g in gs)
            if okg and app:
                ctx.ok(site(rp, bi, si), "Update assigned only under append && old_status != Rescore")
            else:
                ctx.violation("pattern::MultiPattern::reparse|update-guard|1", site(rp, bi, si),
                              "Status::Update assigned without `append && old_status != Rescore`: a pending full rescore can be downgraded and stale matches survive")
    # run: reset_matches dominates the rescoring when status == Rescore
    run = get_fn(facts, "nucleo", "worker::Worker::<T>::run")
    resets = [bi for bi, t in run.calls(lambda t: callee(t) == "worker::Worker::<T>::reset_matches")]
    guarded = False
    for r in resets:
        for g in guards_of(run, r):
            ge = g[3]
            if ge[0] == "call" and str(ge[3]).endswith("PartialEq::eq") and g[2] in ([None], [1]):
                other = peel(ge[2][1])
                if other[0] == "agg" and other[1].endswith("Status::Rescore"):
                    guarded = True
    if not guarded and resets:
        # `if a || status == Rescore { reset }`: decided on the edges -- every `== Rescore` test of run sends its true edge
        # through a reset_matches on all paths
        tests = []
        for bi in sorted(run.live):
            t_ = run.blocks[bi]["term"]
            if t_["k"] != "switch":
                continue
            ge = run.expr_of_operand(t_["discr"])
            if ge[0] == "call" and str(ge[3]).endswith("PartialEq::eq"):
                other = peel(ge[2][1])
                if other[0] == "agg" and other[1].endswith("Status::Rescore"):
                    tests.append((bi, t_["otherwise"]))
        if tests and all(tt_ in resets or run.all_paths_to_return_pass(tt_, via_nodes=resets) for _, tt_ in tests):
            guarded = True
    if guarded:
        ctx.ok(site(run, resets[0]), "a Rescore status resets the match list before rescoring")
    else:
        ctx.violation("worker::Worker::<T>::run|rescore-reset|1", site(run, 0), "no reset_matches under pattern_status == Rescore")


def _rule_pattern_handover_tick(ctx):
    facts = ctx.facts
    ti = get_fn(facts, "nucleo", TICK_INNER)
    spawns = [(bi, t) for bi, t in ti.calls(lambda t: callee(t) == "rayon::ThreadPool::spawn")]
    sb = spawns[0][0]
    cf = []
    for bi, t in ti.calls(lambda t: callee(t).endswith("MultiPattern as std::clone::Clone>::clone_from") or callee(t).endswith("MultiPattern as std::clone::Clone>::clone")):
        cf.append((bi, t))
    good = False
    for bi, t in cf:
        if callee(t).endswith("clone_from"):
            dst = ti.expr_of_operand(t["args"][0])
            src = ti.expr_of_operand(t["args"][1])
            db, dn = field_chain(dst)
            sbase, sn = field_chain(src)
            if dn[-1:] == ["pattern"] and sn == ["pattern"] and sbase[0] == "arg" and db[0] != "arg" and ti.dominates(bi, sb):
                good = True
    if good:
        ctx.ok(site(ti, sb), "worker pattern := matcher's current pattern before every spawn")
    else:
        ctx.violation(TICK_INNER + "|pattern-handover|1", site(ti, sb), "the run is spawned without first copying self.pattern into the worker: the run scores with a stale pattern and the snapshot's pattern differs from the matcher's current one")
    # reset_status only on the cancelling path, before the lock
    rs = [(bi, t) for bi, t in ti.calls(lambda t: callee(t) == "pattern::MultiPattern::reset_status")]
    for bi, t in rs:
        g = [x for x in guards_of(ti, bi) if is_arg(x[3], bool_param(ti))]
        if g and all(x[2] in ([None], [1]) for x in g):
            ctx.ok(site(ti, bi), "pattern status reset only by the cancelling phase")
        else:
            ctx.violation(TICK_INNER + "|reset-status|1", site(ti, bi), "pattern status reset outside the cancelling phase: an edit can be forgotten without a rescoring run")


def rule_pattern_handover(ctx):
    facts = ctx.facts
    if not getattr(ctx, "tick_flat", False):
        _rule_pattern_handover_tick(ctx)
    for b in facts.bodies_of("nucleo"):
        fn = fn_of(b)
        if fn.path == TICK_INNER:
            continue
        for bi, t in fn.calls(lambda t: callee(t) == "pattern::MultiPattern::reset_status"):
            ctx.violation("%s|reset-status|1" % fn.path, site(fn, bi), "pattern status reset outside tick_inner")
    # Snapshot::update copies worker.pattern
    up = get_fn(facts, "nucleo", "Snapshot::<T>::update")
    okp = False
    for bi, t in up.calls(lambda t: callee(t).endswith("clone_from") or callee(t).endswith("::clone")):
        dst = up.expr_of_operand(t["args"][0])
        if callee(t).endswith("clone_from"):
            src = up.expr_of_operand(t["args"][1])
            if field_chain(dst)[1] == ["pattern"] and field_chain(src)[1] == ["pattern"] and worker_param(up, field_chain(src)[0]):
                okp = True
    if okp:
        ctx.ok(site(up, 0), "snapshot.pattern := worker.pattern on update")
    else:
        ctx.violation("Snapshot::<T>::update|pattern|1", site(up, 0), "Snapshot::update does not copy the worker's pattern")


def rule_update_guard(ctx):
    """Premise of `changed == false ⇒ nothing was replaced` and of `running == false ⇒ the finished results are
    installed`: shared with C06/C12 (Snapshot::update guards, was_canceled set/cleared discipline, update before the
    worker's pattern is replaced)."""
    from props.c12 import update_guard
    update_guard(ctx, "C19")


def rule_cancel_lock(ctx):
    """`running == false` promises the snapshot's pattern is the matcher's current one: the cancelling phase must not be
    able to time out on the worker lock (shared with C12)."""
    from props.c12 import rule_cancel_lock as r
    r(ctx)


def rule_snapshot_fields(ctx):
    """`running == false` promises that the snapshot's pattern is the matcher's current one and its count / matches are
    those of the last run: Snapshot::update must copy every field from the worker on every path (a copy that is skipped
    under some flag leaves a field of an older run next to fields of the new one).  Shared with C12."""
    from props.c12 import rule_snapshot_fields as r
    r(ctx)


def rule_cancel_writers(ctx):
    """tick_inner assumes that every cancellation is followed by its own cancelled phase (which forces running = true,
    respawns and resets the flag): only tick_inner, restart and Drop may raise `canceled` (shared with C13)."""
    from props.c13 import rule_cancel_writers as r
    r(ctx)


def rule_clone_complete(ctx):
    """The worker's and the snapshot's copies of the pattern are synchronised with `clone_from` (tick_inner,
    Snapshot::update).  A hand-written `clone_from` that leaves a field of the destination untouched makes the copies
    diverge by history (the destination keeps a flag of an older pattern), so the snapshot's pattern no longer is the
    pattern its matches were computed with.  Every hand-written clone_from in both crates writes every field of its
    struct on every path (a derived impl does so by construction)."""
    facts = ctx.facts
    n = 0
    for cname in ("nucleo", "nucleo_matcher"):
        c = facts.crate(cname)
        adts = {a["path"]: a for a in c["adts"]}
        for im in c["impls"]:
            if im.get("trait") != "std::clone::Clone" or im.get("derived"):
                continue
            cf = [it for it in im["items"] if it.endswith("::clone_from")]
            if not cf:
                continue
            a = adts.get(im["self_ty"]) or adts.get(im["self_ty"].split("<")[0])
            if a is None or a.get("kind") != "Struct":
                continue
            fn = get_fn(facts, cname, cf[0])
            n += 1
            missing = []
            for f in a["variants"][0]["fields"]:
                nm = f["name"]
                blocks = [bi for bi, si, s_ in field_assigns(fn, nm, a["path"].rsplit("::", 1)[-1])]
                blocks += [bi for bi, si, s_ in field_borrows(fn, nm, a["path"].rsplit("::", 1)[-1])]
                # whole-struct assignment `*self = source.clone()` writes everything
                whole = [bi for bi in sorted(fn.live) for s_ in fn.blocks[bi]["stmts"]
                         if s_.get("k") == "assign" and s_["lhs"]["l"] == 1 and s_["lhs"]["p"] == ["deref"]]
                blocks += whole
                if not blocks or not fn.all_paths_to_return_pass(0, via_nodes=sorted(set(blocks))):
                    if "PhantomData" in f["ty"]:
                        continue
                    missing.append(nm)
            if missing:
                ctx.violation("%s|clone_from|%s" % (cf[0], ",".join(missing)), site(fn, 0),
                              "%s does not write field(s) %s of the destination on every path: a destination that held another value keeps it, so two copies synchronised "
                              "with clone_from differ depending on their history (worker pattern vs snapshot pattern)" % (cf[0], missing))
            else:
                ctx.ok(site(fn, 0), "%s writes every field of %s on every path" % (cf[0].split(" as ")[0].lstrip("<"), a["path"]))
    ctx.floor("hand-written clone_from implementations", n, 2)


def rules(ctx):
    ctx.run_rule("C19.cancel-writers", rule_cancel_writers)
    ctx.run_rule("C19.cancel-lock", rule_cancel_lock)
    ctx.run_rule("C19.clone-complete", rule_clone_complete)
    ctx.run_rule("C19.update-guard", rule_update_guard)
    ctx.run_rule("C19.changed-guards-mutation", rule_changed_guards_mutation)
    ctx.run_rule("C19.running-guards-spawn", rule_running_guards_spawn)
    ctx.run_rule("C19.running-formula", rule_running_formula)
    ctx.run_rule("C19.status-lattice", rule_status_lattice)
    ctx.run_rule("C19.pattern-handover", rule_pattern_handover)
    ctx.run_rule("C19.snapshot-fields", rule_snapshot_fields)

"""C16 — character normalization is a coherent, idempotent projection.
Finite domain: tables come from the compiler's const evaluator, the dispatch from MIR; the sweep over
all 1,112,064 scalar values is table algebra in this checker (no nucleo code is executed)."""
import json
import os

from cfg import Inconclusive, op_place, show, walk, strip_casts
from common import (resolve_capture, calls_to, callee, closure_creations, field_chain, fn_of, get_fn, peel, site, guards_of,
                    ret_aggregates)
from engine import VERIF

PROP = "C16"
LEVEL = "proof"
UNDECIDED = [
    "scalars first assigned after UCD 14 are checked for agreement only if present (oracle data newer than UCD 14 is limited to the UCD-16 orbit table)",
]
ASSUMPTIONS = [
    "the const evaluator's table contents are what the compiled crate uses",
    "NFKD decompositions of the documented Latin blocks are frozen by Unicode's stability policy (oracle: UCD 14 via CPython, frozen in /verif/ref/ucd14_oracle.json)",
    "simple case folding orbits: regex-syntax 0.8.11 UCD-16 all-pairs table (frozen in /verif/ref/simple_fold_orbits.json)",
    "core::slice::binary_search_by_key finds a key iff present when the slice is strictly sorted by that key",
]
TRUSTED = ["rustc const evaluator", "rules/props/c16.py table algebra", "/verif/ref oracle files (provenance recorded inside)"]

M = "nucleo_matcher"
NORM = "chars::normalize::normalize"
FOLD_TABLE = "chars::case_fold::CASE_FOLDING_SIMPLE"
MAXC = 0x10FFFF
# The rustdoc of `normalize` lists five blocks; the table LATIN_1AB and the baseline test `boundary_cases`
# ('ʟ' U+029F -> 'L') additionally cover IPA Extensions up to the table's end, so that block is part of the
# tested contract (documentation gap recorded in DESIGN.md §5, D17).
BLOCKS = [(0x80, 0xFF, "Latin-1 Supplement"), (0x100, 0x17F, "Latin Extended-A"), (0x180, 0x24F, "Latin Extended-B"),
          (0x250, 0x2AF, "IPA Extensions"),
          (0x1E00, 0x1EFF, "Latin Extended Additional"), (0x2070, 0x209F, "Superscripts and Subscripts")]

_state = {}


def in_blocks(c):
    return any(lo <= c <= hi for lo, hi, _ in BLOCKS)


def table(ctx, path):
    k = ctx.facts.const(M, path)
    if k is None or not isinstance(k.get("value"), list):
        raise Inconclusive("table %s not const-evaluated" % path)
    return k["value"]


def _checked_lookup(r, is_c, poly_of, Poly):
    """(static path, base) when r is Option::unwrap_or(Option::copied|cloned(<[T]>::get(TABLE, c - base)), c)."""
    def call(e, *names):
        e = strip_casts(e)
        if e[0] == "call" and any(e[1].endswith("::" + n) for n in names):
            return e[2]
        return None
    a = call(r, "unwrap_or")
    if not a or len(a) != 2 or not is_c(a[1]):
        return None
    inner = strip_casts(a[0])
    b = call(inner, "copied", "cloned")
    if b and len(b) == 1:
        inner = strip_casts(b[0])
    g = call(inner, "get")
    if not g or len(g) != 2:
        return None
    base_e = peel(g[0])
    while base_e[0] in ("ref", "deref"):
        base_e = peel(base_e[1])
    if base_e[0] != "static":
        return None
    idx = poly_of(g[1], lambda x: "c" if is_c(x) else None)
    if idx.has_opaque():
        return None
    off = idx - Poly.atom("c")
    if off.atoms():
        return None
    return base_e[1], -int(off.t.get((), 0))


def extract_dispatch(ctx):
    """Decision-list extraction of `normalize`: [(lo, hi, 'id' | ('table', static_path, base))].
    Every flow-sensitive decision path of the (loop-free) body is turned into the interval of scalars that takes it
    (conditions must be comparisons of c with constants, in any form: if-chains, range patterns, helper closures)
    and its leaf (c itself, or TABLE[c - base])."""
    from cfg import decision_paths, poly_of, Poly
    fn = get_fn(ctx.facts, M, NORM)
    out = []

    def is_c(x):
        x = strip_casts(x)
        while x[0] in ("ref", "deref"):
            x = strip_casts(x[1])
        return x[0] == "arg" and x[1] == 1

    def konst(x):
        x = strip_casts(x)
        return x[1] if x[0] == "const" and isinstance(x[1], int) and not isinstance(x[1], bool) else None

    for conds, res in decision_paths(fn):
        lo, hi = 0, MAXC
        for d, chosen, allv in conds:
            d = strip_casts(d)
            if d[0] == "overflowflag":
                continue
            if not (d[0] == "bin" and d[1] in ("Lt", "Le", "Gt", "Ge", "Eq", "Ne")):
                raise Inconclusive("normalize: branch condition %s is not a comparison of c with a constant" % show(d))
            truth = (chosen != 0) if chosen is not None else True
            op, x, y = d[1], d[2], d[3]
            if is_c(x) and konst(y) is not None:
                K = konst(y)
            elif is_c(y) and konst(x) is not None:
                K = konst(x)
                op = {"Lt": "Gt", "Le": "Ge", "Gt": "Lt", "Ge": "Le", "Eq": "Eq", "Ne": "Ne"}[op]
            else:
                raise Inconclusive("normalize: branch condition %s is not a comparison of c with a constant" % show(d))
            if not truth:
                op = {"Lt": "Ge", "Le": "Gt", "Gt": "Le", "Ge": "Lt", "Eq": "Ne", "Ne": "Eq"}[op]
            if op == "Lt":
                hi = min(hi, K - 1)
            elif op == "Le":
                hi = min(hi, K)
            elif op == "Gt":
                lo = max(lo, K + 1)
            elif op == "Ge":
                lo = max(lo, K)
            elif op == "Eq":
                lo, hi = max(lo, K), min(hi, K)
            else:
                raise Inconclusive("normalize: `!=` condition splits the range")
        if lo > hi:
            continue  # infeasible path
        if res is None:
            raise Inconclusive("normalize: path without a result")
        r = strip_casts(res)
        if is_c(r):
            out.append((lo, hi, "id"))
            continue
        if r[0] == "index":
            base_e = peel(r[1])
            idx = poly_of(r[2], lambda x: "c" if is_c(x) else None)
            if base_e[0] == "static" and not idx.has_opaque():
                off = idx - Poly.atom("c")
                if not off.atoms():
                    base = -int(off.t.get((), 0))
                    out.append((lo, hi, ("table", base_e[1], base)))
                    continue
        # checked lookup with the character itself as fallback: TABLE.get(c - base).copied().unwrap_or(c)
        # = TABLE[c - base] for c - base < len(TABLE) (the constant table's own length), c beyond it
        chk = _checked_lookup(r, is_c, poly_of, Poly)
        if chk is not None:
            path, base = chk
            n = len(table(ctx, path))
            if lo >= base:
                if lo <= min(hi, base + n - 1):
                    out.append((lo, min(hi, base + n - 1), ("table", path, base)))
                if hi >= base + n:
                    out.append((max(lo, base + n), hi, "id"))
                continue
            # c < base: the subtraction `c - base` underflows (panic in debug builds, huge offset otherwise)
        raise Inconclusive("normalize: leaf %s is neither `c` nor TABLE[c - base]" % show(res)[:160])
    out.sort()
    # merge adjacent intervals with the same leaf
    merged = []
    for lo, hi, kind in out:
        if merged and merged[-1][2] == kind and merged[-1][1] + 1 == lo:
            merged[-1] = (merged[-1][0], hi, kind)
        else:
            merged.append((lo, hi, kind))
    return fn, merged


def rule_dispatch(ctx):
    fn, parts = extract_dispatch(ctx)
    _state["dispatch"] = parts
    # partition of the scalar range
    pos = 0
    okp = True
    for lo, hi, kind in parts:
        if lo != pos:
            okp = False
        pos = hi + 1
    if pos != MAXC + 1:
        okp = False
    if okp:
        ctx.ok(site(fn, 0), "dispatch intervals partition 0..=0x10FFFF: %s" % [(hex(lo), hex(hi), k if k == "id" else k[1].rsplit("::", 1)[1]) for lo, hi, k in parts])
    else:
        ctx.violation(NORM + "|partition|1", site(fn, 0), "extracted intervals do not partition the scalar range: %s" % parts)
    ntab = 0
    for lo, hi, kind in parts:
        if kind == "id":
            continue
        ntab += 1
        _, path, base = kind
        tb = table(ctx, path)
        key = "%s|interval|%s" % (NORM, path.rsplit("::", 1)[1])
        if lo == base and hi == base + len(tb) - 1:
            ctx.ok(site(fn, 0), "%s serves exactly [%#x, %#x] = base .. base+len(%d)" % (path.rsplit("::", 1)[1], lo, hi, len(tb)))
        elif lo < base or hi > base + len(tb) - 1:
            ctx.violation(key, site(fn, 0), "interval [%#x, %#x] indexes %s (len %d, base %#x) out of bounds: normalize panics for some characters" % (lo, hi, path, len(tb), base))
        else:
            ctx.violation(key, site(fn, 0), "interval [%#x, %#x] covers only part of %s (base %#x, len %d): the remaining entries are dead and those characters are not normalized" % (lo, hi, path, base, len(tb)))
        if not (in_blocks(lo) or any(l <= lo for l, h, _ in BLOCKS)):
            pass
    ctx.floor("table-backed intervals of normalize", ntab, 3)
    # fold: to_lower_case / is_upper_case as functions of "c has an entry in the fold table" (whatever the spelling:
    # binary_search_by_key / binary_search_by, map_or / match / ok() / is_ok() / helper functions)
    from cfg import decision_paths
    from props.c01 import char_routines_by_evaluation
    ev = char_routines_by_evaluation(ctx)
    if ev is not None and ctx.facts.body(M, "chars::to_lower_case") is not None:
        for name, k_, what in (("chars::to_lower_case", "lower", "table[idx].1 if c has an entry else c"), ("chars::is_upper_case", "upper", "c has an entry")):
            f = get_fn(ctx.facts, M, name)
            if ev[k_]:
                c, got, want_ = ev[k_][0]
                ctx.violation("%s|value|1" % name, site(f, 0), "%s(U+%04X) = %s, the fold table says %s: this routine is no longer exactly the table lookup that "
                              "char_class_and_normalize / the smart-case logic assume" % (name, c, got if k_ == "upper" else "U+%04X" % got, want_ if k_ == "upper" else "U+%04X" % want_))
            else:
                ctx.ok(site(f, 0), "%s(c) = %s on %d representative characters (evaluated against the constant table)" % (name, what, ev["reps"]))
        return
    for name, want in (("chars::to_lower_case", {True: ("VALUE",), False: ("C",)}), ("chars::is_upper_case", {True: 1, False: 0})):
        f = get_fn(ctx.facts, M, name)
        bs = [(bi, t) for bi, t in f.calls(lambda t: any(callee(t).endswith(x) for x in ("binary_search_by_key", "binary_search_by", "::binary_search")))]
        if len(bs) != 1:
            ctx.violation("%s|lookup|1" % name, site(f, 0), "%s is not a single binary search over the fold table (%d found)" % (name, len(bs)))
            continue
        bi, t = bs[0]
        tb = peel(f.expr_of_operand(t["args"][0]))
        okk = (tb[0] == "static" and tb[1] == FOLD_TABLE) or (tb[0] in ("const", "constx") and FOLD_TABLE in (tb[1], tb[2] if len(tb) > 2 else None))
        okkey = False
        how = callee(t).rsplit("::", 1)[-1]

        def is_c(x):
            x = peel(x)
            while x[0] in ("ref", "deref"):
                x = peel(x[1])
            return x[0] == "arg" and x[1] == 1
        if how == "binary_search_by_key":
            clo = f.expr_of_operand(t["args"][2])
            if is_c(f.expr_of_operand(t["args"][1])) and clo[0] == "closure":
                cf = get_fn(ctx.facts, M, clo[1])
                r = ret_aggregates(cf)
                if len(r) == 1:
                    e = peel(cf.expr_of_rvalue(r[0][2]))
                    okkey = e[0] == "field" and e[2] == "0"
        elif how == "binary_search_by":
            clo = f.expr_of_operand(t["args"][1])
            if clo[0] == "closure":
                cf = get_fn(ctx.facts, M, clo[1])
                cmps = [(cb, ct) for cb, ct in cf.calls(lambda t: callee(t).endswith("::cmp"))]
                if len(cmps) == 1 and cmps[0][1]["dest"]["l"] == 0:
                    x = peel(cf.expr_of_operand(cmps[0][1]["args"][0]))
                    y = cf.expr_of_operand(cmps[0][1]["args"][1])
                    # element.0 .cmp( &captured c )  -- this orientation, not the reverse
                    ycap = [z for z in walk(y) if z[0] == "field" and peel(z[1])[0] == "arg" and peel(z[1])[1] == 1]
                    capt = False
                    for z in ycap:
                        rc = resolve_capture(cf, z[2])
                        if rc is not None and is_c(rc[1]):
                            capt = True
                    okkey = x[0] == "field" and x[2] == "0" and capt
        if okk and okkey:
            ctx.ok(site(f, bi), "%s: binary search (%s) of c in CASE_FOLDING_SIMPLE on the first tuple component" % (name, how))
        else:
            ctx.violation("%s|lookup|2" % name, site(f, bi), "lookup is not a binary search of c in CASE_FOLDING_SIMPLE on the key component (table ok: %s, key ok: %s, form: %s)" % (okk, okkey, how))
            continue
        bsid = (bi, t["dest"]["l"])

        class _U(Exception):
            pass

        def lk(e, found, carg=None):
            e = peel(e) if e[0] in ("ref", "deref") else e
            k = e[0]
            if k == "const":
                return int(e[1]) if isinstance(e[1], (bool, int)) else _raise("const")
            if k == "arg":
                if carg is not None and e[1] == 2:
                    return carg
                if carg is None and e[1] == 1:
                    return ("C",)
                raise _U("parameter")
            if k in ("ref", "deref", "cast"):
                return lk(e[2] if k == "cast" else e[1], found, carg)
            if k == "agg" and isinstance(e[1], str) and e[1].endswith("Option::Some"):
                return ("SOME", lk(e[2].get("0"), found, carg))
            if k == "agg" and isinstance(e[1], str) and e[1].endswith("Option::None"):
                return ("NONE",)
            if k == "call":
                nm = str(e[1])
                short = nm.rsplit("::", 1)[-1]
                if len(e) > 4 and e[4] == bsid:
                    return ("R",)
                if "Option" in nm and short in ("unwrap_or", "is_some", "is_none", "unwrap_or_else", "unwrap", "expect"):
                    v = lk(e[2][0], found, carg)
                    if isinstance(v, tuple) and v and v[0] in ("SOME", "NONE"):
                        if short == "is_some":
                            return int(v[0] == "SOME")
                        if short == "is_none":
                            return int(v[0] == "NONE")
                        if short == "unwrap_or":
                            return v[1] if v[0] == "SOME" else lk(e[2][1], found, carg)
                        if short in ("unwrap", "expect") and v[0] == "SOME":
                            return v[1]
                if short in ("ok",) and "Result" in nm:
                    v = lk(e[2][0], found, carg)
                    return ("OPT",) if v == ("R",) else _raise("ok of %s" % (v,))
                if short in ("is_ok", "is_some"):
                    v = lk(e[2][0], found, carg)
                    if v in (("R",), ("OPT",)):
                        return int(found)
                if short in ("is_err", "is_none"):
                    v = lk(e[2][0], found, carg)
                    if v in (("R",), ("OPT",)):
                        return int(not found)
                if short == "map_or":
                    v = lk(e[2][0], found, carg)
                    if v in (("R",), ("OPT",)):
                        if not found:
                            return lk(e[2][1], found, carg)
                        clo = e[2][2]
                        if clo[0] == "closure":
                            cf2 = get_fn(ctx.facts, M, clo[1])
                            r2 = ret_aggregates(cf2)
                            if len(r2) == 1:
                                return lk(cf2.expr_of_rvalue(r2[0][2]), found, ("IDX",))
                raise _U("call of %s" % nm)
            if k == "discr":
                v = lk(e[1], found, carg)
                if isinstance(v, tuple) and v and v[0] in ("SOME", "NONE"):
                    return int(v[0] == "SOME")
                if v == ("R",):
                    return 0 if found else 1
                if v == ("OPT",):
                    return 1 if found else 0
                raise _U("discriminant")
            if k == "downcast":
                return lk(e[1], found, carg)
            if k == "field":
                base = e[1]
                b0 = peel(base) if base[0] in ("ref", "deref") else base
                if b0[0] == "index":
                    arr = peel(b0[1])
                    ix = lk(b0[2], found, carg)
                    is_tab = (arr[0] == "static" and arr[1] == FOLD_TABLE) or (arr[0] in ("const", "constx") and FOLD_TABLE in arr[1:3])
                    if is_tab and ix == ("IDX",) and e[2] == "1":
                        return ("VALUE",)
                    raise _U("table read")
                v = lk(base, found, carg)
                if isinstance(v, tuple) and v and v[0] == "SOME" and e[2] == "0":
                    return v[1]
                if v in (("R",), ("OPT",)) and e[2] == "0":
                    if not found:
                        raise _U("index read on the not-found path")
                    return ("IDX",)
                raise _U("field")
            if k == "un" and e[1] == "Not":
                return int(not lk(e[2], found, carg))
            raise _U(k)

        def _raise(m):
            raise _U(m)

        okv = True
        why = ""
        try:
            for found in (True, False):
                hits = []
                for conds, res in decision_paths(f):
                    feas = True
                    for d, chosen, allv in conds:
                        if d[0] == "overflowflag":
                            continue
                        v = lk(d, found)
                        if isinstance(v, tuple):
                            raise _U("branch on %s" % (v,))
                        if (chosen is not None and v != chosen) or (chosen is None and v in allv):
                            feas = False
                            break
                    if feas:
                        hits.append(res)
                if len(hits) != 1:
                    raise _U("%d paths for found=%s" % (len(hits), found))
                got = lk(hits[0], found)
                if got != want[found]:
                    okv = False
                    why = "when c %s an entry the result is %s, expected %s" % ("has" if found else "has no", got, want[found])
        except _U as ex:
            ctx.violation("%s|value|1" % name, site(f, 0), "%s is not `found ? table[idx].1 : c` / `found` in a recognisable form (%s)" % (name, ex))
            continue
        if okv:
            ctx.ok(site(f, 0), "%s(c) = %s" % (name, "table[idx].1 if c has an entry else c" if name.endswith("to_lower_case") else "c has an entry"))
        else:
            ctx.violation("%s|value|1" % name, site(f, 0), "%s: %s" % (name, why))


def rule_table_algebra(ctx):
    ft = table(ctx, FOLD_TABLE)
    keys = [k for k, v in ft]
    fold = dict((k, v) for k, v in ft)
    where = "matcher/src/chars/case_fold.rs (CASE_FOLDING_SIMPLE)"
    bad = [(keys[i], keys[i + 1]) for i in range(len(keys) - 1) if not keys[i] < keys[i + 1]]
    if bad:
        ctx.violation("CASE_FOLDING_SIMPLE|sorted|1", where, "keys not strictly increasing at %s: binary search misses entries" % [(hex(a), hex(b)) for a, b in bad[:3]])
    else:
        ctx.ok(where, "%d keys strictly increasing (binary-search precondition)" % len(keys))
    nonidem = [(k, v) for k, v in ft if v in fold and fold[v] != v]
    if nonidem:
        ctx.violation("CASE_FOLDING_SIMPLE|idempotent|1", where, "fold(fold(c)) != fold(c) for %s" % [(hex(k), hex(v)) for k, v in nonidem[:5]])
    else:
        ctx.ok(where, "no folded value is itself folded further: fold is idempotent on all scalars")
    selfmap = [k for k, v in ft if k == v]
    ascii_keys = [(k, v) for k, v in ft if k < 0x80]
    exp = [(c, c + 32) for c in range(ord("A"), ord("Z") + 1)]
    if ascii_keys == exp:
        ctx.ok(where, "ASCII keys are exactly A..=Z -> +32; all other ASCII is untouched by folding")
    else:
        ctx.violation("CASE_FOLDING_SIMPLE|ascii|1", where, "ASCII part of the fold table is not exactly A..=Z -> a..=z: %s" % [(hex(k), hex(v)) for k, v in ascii_keys if (k, v) not in exp][:5])
    into_ascii = [(k, v) for k, v in ft if k >= 0x80 and v < 0x80]
    ctx.note("non-ASCII characters folding to ASCII: %s" % [(hex(k), chr(v)) for k, v in into_ascii])
    # normalization tables
    parts = _state.get("dispatch")
    if parts is None:
        _, parts = extract_dispatch(ctx)
    norm = {}
    for lo, hi, kind in parts:
        if kind == "id":
            continue
        _, path, base = kind
        tb = table(ctx, path)
        twhere = "matcher/src/chars/normalize.rs (%s)" % path.rsplit("::", 1)[1]
        outside = []
        for c in range(max(lo, base), min(hi, base + len(tb) - 1) + 1):
            v = tb[c - base]
            norm[c] = v
            if v != c and not in_blocks(c):
                outside.append((c, v))
        if outside:
            ctx.violation("%s|blocks|1" % path, twhere, "characters outside the documented blocks are changed: %s" % [(hex(c), chr(v)) for c, v in outside[:5]])
        else:
            ctx.ok(twhere, "changes only characters of the documented blocks")
    _state["norm"] = norm
    _state["fold"] = fold
    # ASCII is a fixed point of normalize by dispatch (first interval is identity and covers 0..0x7F)
    first = parts[0]
    if first[2] == "id" and first[1] >= 0x7F:
        ctx.ok(NORM, "ASCII is outside every table interval")
    else:
        ctx.violation(NORM + "|ascii|1", NORM, "ASCII characters can be changed by normalize")


def rule_sweep(ctx):
    """All scalars x 4 configurations: build the composed map from the extracted pieces and check
    idempotence and ASCII behaviour of each map and of the composition as the `char` impl applies it."""
    norm = _state.get("norm")
    fold = _state.get("fold")
    if norm is None or fold is None:
        raise Inconclusive("tables not available (previous rule failed)")

    def N(c):
        return norm.get(c, c)

    def F(c):
        return fold.get(c, c)
    n = 0
    bad_n = bad_f = bad_comp = bad_ascii = 0
    first_bad = None
    for c in range(0x110000):
        if 0xD800 <= c <= 0xDFFF:
            continue
        for ic in (False, True):
            for nm in (False, True):
                n += 1
                x = c
                if nm:
                    x = N(x)
                if ic:
                    x = F(x)
                # second application of the same configuration
                y = x
                if nm:
                    y = N(y)
                if ic:
                    y = F(y)
                if y != x:
                    bad_comp += 1
                    first_bad = first_bad or (c, ic, nm, x, y)
                if c < 0x80:
                    exp = c + 32 if (ic and 65 <= c <= 90) else c
                    if x != exp:
                        bad_ascii += 1
        if N(N(c)) != N(c):
            bad_n += 1
        if F(F(c)) != F(c):
            bad_f += 1
    _state["sweep_n"] = n
    if bad_n or bad_f or bad_ascii:
        ctx.violation("sweep|idempotence|1", "all scalars", "normalize not idempotent for %d scalars, fold for %d, ASCII changed for %d" % (bad_n, bad_f, bad_ascii))
    else:
        ctx.ok("all 1,112,064 scalars", "normalize and fold are each idempotent; ASCII untouched except A-Z under folding (%d scalar×config evaluations of the table maps)" % n)
    if bad_comp:
        c, ic, nm, x, y = first_bad
        ctx.note("composition fold∘normalize is not idempotent for %d (scalar, config) pairs, e.g. U+%04X (ignore_case=%s normalize=%s): %#x then %#x — the property asks idempotence of each map separately" % (bad_comp, c, ic, nm, x, y))
    else:
        ctx.ok("all scalars × 4 configurations", "the composed map fold^{ignore_case} ∘ normalize^{normalize} is idempotent too")


def rule_oracles(ctx):
    norm = _state.get("norm")
    fold = _state.get("fold")
    if norm is None or fold is None:
        raise Inconclusive("tables not available")
    o14 = json.load(open(os.path.join(VERIF, "ref", "ucd14_oracle.json")))
    orb = json.load(open(os.path.join(VERIF, "ref", "simple_fold_orbits.json")))
    # NFKD
    want = {int(k): v for k, v in o14["nfkd_ascii_alnum_plus_marks"].items()}
    wrong = [(c, norm.get(c, c), v) for c, v in sorted(want.items()) if norm.get(c, c) != v]
    twhere = "matcher/src/chars/normalize.rs"
    if wrong:
        for c, got, v in wrong[:40]:
            ctx.violation("normalize|nfkd|U+%04X" % c, twhere, "U+%04X decomposes (NFKD) to '%s' + combining marks but normalizes to %s" % (c, chr(v), ("'%s'" % chr(got)) if got != c else "itself"))
    else:
        ctx.ok(twhere, "all %d block characters whose NFKD is an ASCII letter/digit + marks map to exactly that letter/digit" % len(want))
    # case folding vs orbits
    orbit_of = {}
    for i, o in enumerate(orb["orbits"]):
        for c in o:
            orbit_of[c] = i
    fwhere = "matcher/src/chars/case_fold.rs"
    notin = [(k, v) for k, v in fold.items() if k not in orbit_of or orbit_of.get(v) != orbit_of[k]]
    if notin:
        for k, v in notin[:8]:
            ctx.violation("fold|orbit|U+%04X" % k, fwhere, "U+%04X folds to U+%04X, which is not in its simple-case-folding orbit" % (k, v))
    else:
        ctx.ok(fwhere, "every fold value lies in its key's UCD-16 orbit (%d keys)" % len(fold))
    # one target per orbit
    tg = {}
    multi = []
    for k, v in fold.items():
        i = orbit_of.get(k)
        if i is None:
            continue
        if i in tg and tg[i] != v:
            multi.append((i, tg[i], v))
        tg[i] = v
    if multi:
        for i, a, b in multi[:5]:
            ctx.violation("fold|orbit-target|%d" % i, fwhere, "members of one orbit fold to different targets U+%04X / U+%04X" % (a, b))
    else:
        ctx.ok(fwhere, "all keys of one orbit share one target")
    # agreement with full case folding where that is a single scalar (UCD 14)
    sf = {int(k): v for k, v in o14["single_scalar_full_fold"].items()}
    dis = [(k, fold.get(k, k), v) for k, v in sorted(sf.items()) if fold.get(k, k) != v]
    if dis:
        for k, got, v in dis[:8]:
            ctx.violation("fold|value|U+%04X" % k, fwhere, "U+%04X: Unicode case folding gives U+%04X, the table gives %s" % (k, v, "U+%04X" % got if got != k else "no folding"))
    else:
        ctx.ok(fwhere, "agrees with Unicode (UCD 14) case folding for all %d scalars whose full folding is one scalar" % len(sf))
    # completeness: every UCD-14-assigned non-target orbit member is a key
    assigned = set()
    for lo, hi in o14["assigned_ranges"]:
        if hi - lo < 200000:
            assigned.update(range(lo, hi + 1))
    missing = []
    for o in orb["orbits"]:
        i = orbit_of[o[0]]
        t = tg.get(i)
        if t is None:
            # no key of this orbit in the table: either the orbit is newer than the table's UCD 15.0
            # (e.g. U+1FD3/U+0390, added in 15.1) or every row was deleted; the second case is caught by
            # the UCD-14 agreement check above for all C-type foldings
            continue
        for c in o:
            if c != t and c in assigned and c not in fold:
                # c might itself be a fold target of the UCD-14 fold (identity under folding)
                if sf.get(c) is None and c not in sf.values():
                    missing.append((o, c))
                elif sf.get(c) is not None:
                    missing.append((o, c))
    if missing:
        for o, c in missing[:8]:
            ctx.violation("fold|complete|%s" % ("U+%04X" % c if c else "orbit-%04X" % o[0]), fwhere,
                          "%s of orbit %s has no entry in CASE_FOLDING_SIMPLE: it does not match its case variants" % ("U+%04X" % c if c else "every member", ["U+%04X" % x for x in o]))
    else:
        ctx.ok(fwhere, "every UCD-14-assigned, non-target member of every orbit is a key (no deleted rows)")


def fold_guard_report(ctx, fn, bi, what):
    return site(fn, bi)


def rule_siblings(ctx):
    """The two normalizer routines of `char` (and of AsciiChar) apply the same steps under config-only guards."""
    from props.c01 import rule_norm_siblings
    rule_norm_siblings(ctx)


def rule_ascii(ctx):
    from props.c01 import rule_ascii_fold_consts
    rule_ascii_fold_consts(ctx)


def extra_coverage(ctx):
    return {"exhaustive": True, "domain": "all 1,112,064 Unicode scalar values x 4 (ignore_case, normalize) configurations",
            "table_evaluations": _state.get("sweep_n", 0)}


def rule_norm_route(ctx):
    """Last clause of the property: every place that normalizes a haystack character (filtering, scoring, comparing)
    goes through the one normalizer, so that all of them see the same result.  Shared with C01.norm-route."""
    from props.c01 import rule_norm_route as r
    r(ctx)


def rule_predicate_purity(ctx):
    """The scanning predicates of the non-ASCII prefilter decide by the normalized comparison only (shared with C01)."""
    from props.c01 import rule_predicate_purity as r
    r(ctx)


def rule_char_eq_exact(ctx):
    """All places that compare a haystack character with a needle character see the same result only if `==` between the
    character types is exact code point equality (shared with C01.char-eq-exact)."""
    from props.c01 import rule_char_eq_exact as r
    r(ctx)


def rules(ctx):
    ctx.run_rule("C16.norm-route", rule_norm_route)
    ctx.run_rule("C16.predicate-purity", rule_predicate_purity)
    ctx.run_rule("C16.dispatch", rule_dispatch)
    ctx.run_rule("C16.table-algebra", rule_table_algebra)
    ctx.run_rule("C16.sweep", rule_sweep)
    ctx.run_rule("C16.oracles", rule_oracles)
    ctx.run_rule("C16.siblings", rule_siblings)
    ctx.run_rule("C16.ascii", rule_ascii)
    ctx.run_rule("C16.char-eq-exact", rule_char_eq_exact)

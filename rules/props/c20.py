"""C20 — active_injectors counts the live injectors of the current stream (accounting argument)."""
from cfg import Inconclusive, op_place, show, walk, strip_casts
from common import (calls_to, callee, field_chain, fn_of, get_fn, peel, site, guards_of, field_assigns,
                    ret_aggregates)

PROP = "C20"
LEVEL = "other"
UNDECIDED = [
    "the count over all histories of injector()/clone/drop/restart/tick from several threads (history quantifier)",
    "Arc::strong_count being read while other threads clone/drop injectors (inherently a racy snapshot)",
]
ASSUMPTIONS = [
    "Arc::strong_count is the number of live Arc handles to the stream",
    "state transitions are exactly those found by WHO-WRITES(Nucleo.state)",
]

AI = "Nucleo::<T>::active_injectors"


def arc_holders(facts):
    out = []
    for a in facts.crate("nucleo")["adts"]:
        for v in a["variants"]:
            for f in v["fields"]:
                if f["ty"].startswith("std::sync::Arc<boxcar::Vec<"):
                    out.append((a["path"], f["name"]))
    return out


def flatten_sub(e):
    """a - b - c  ->  (a, [b, c])"""
    subs = []
    while e[0] in ("bin", "checked") and e[1] == "Sub":
        subs.append(e[3])
        e = e[2]
    subs.reverse()
    return e, subs


def rule_holders(ctx):
    facts = ctx.facts
    hs = arc_holders(facts)
    expect = {("Injector", "items"), ("Nucleo", "items"), ("Snapshot", "items"), ("worker::Worker", "items")}
    for h in hs:
        if h in expect:
            ctx.ok("%s.%s" % h, "holder of an Arc to the item stream")
        else:
            ctx.violation("%s|field %s|holder" % h, h[0], "new owner of an Arc<boxcar::Vec<T>> (%s.%s): active_injectors subtracts exactly one term per non-injector holder and would over-count" % h)
    for h in sorted(expect - set(hs)):
        ctx.violation("%s|field %s|gone" % h, h[0], "%s.%s no longer holds the stream: the subtraction in active_injectors no longer matches the holders" % h)
    # statics holding one
    for k in facts.crate("nucleo")["consts"]:
        if k["kind"] == "static" and "boxcar::Vec" in (k.get("ty") or ""):
            ctx.violation("%s|static|1" % k["path"], k["path"], "static holds the item stream")
    fn = get_fn(facts, "nucleo", AI)
    rets = ret_aggregates(fn)
    if len(rets) != 1:
        raise Inconclusive("active_injectors: expected one return value")
    e = fn.expr_of_rvalue(rets[0][2])
    head, subs = flatten_sub(e)
    key = AI + "|formula|1"
    okh = head[0] == "call" and str(head[1]).endswith("::strong_count") and field_chain(head[2][0])[1] == ["items"] and field_chain(head[2][0])[0][0] == "arg"
    if not okh:
        ctx.violation(key, site(fn, 0), "the count does not start from Arc::strong_count(&self.items) (the CURRENT stream): %s" % show(head))
        return
    terms = {"refs": 0, "snapshot": 0, "other": []}
    for s_ in subs:
        s2 = strip_casts(s_)
        if s2[0] == "call" and s2[1] == "State::matcher_item_refs":
            a = s2[2][0]
            if field_chain(a)[1] == ["state"]:
                terms["refs"] += 1
            else:
                terms["other"].append(show(s_))
        elif s2[0] == "call" and str(s2[1]).endswith("::ptr_eq"):
            x = field_chain(s2[2][0])[1]
            y = field_chain(s2[2][1])[1]
            if sorted([x, y]) == sorted([["snapshot", "items"], ["items"]]):
                terms["snapshot"] += 1
            else:
                terms["other"].append(show(s_))
        else:
            terms["other"].append(show(s_))
    if terms["refs"] == 1 and terms["snapshot"] == 1 and not terms["other"]:
        ctx.ok(site(fn, 0), "strong_count(self.items) − matcher_item_refs(state) [Nucleo + Worker] − ptr_eq(snapshot.items, self.items) [Snapshot]")
    else:
        ctx.violation(key, site(fn, 0), "subtracted terms do not match the three non-injector holders: refs×%d snapshot×%d other=%s" % (terms["refs"], terms["snapshot"], terms["other"]))


def rule_refs_table(ctx):
    facts = ctx.facts
    fn = get_fn(facts, "nucleo", "State::matcher_item_refs")
    st = facts.adt("nucleo", "State")
    variants = {v["discr"]: v["name"] for v in st["variants"]}
    sw = fn.blocks[0]["term"]
    if sw["k"] != "switch" or fn.expr_of_operand(sw["discr"])[0] != "discr":
        raise Inconclusive("matcher_item_refs is not a match on the state")
    table = {}
    for v, bb in sw["arms"]:
        vals = []
        for rb in fn.reach_from(bb):
            for s in fn.blocks[rb]["stmts"]:
                if s["k"] == "assign" and s["lhs"]["l"] == 0 and not s["lhs"]["p"]:
                    c = fn.const_of_operand(s["rv"]["use"]) if "use" in s["rv"] else None
                    vals.append(c)
        if len(vals) != 1 or vals[0] is None:
            raise Inconclusive("matcher_item_refs: arm %s is not a constant" % v)
        table[variants.get(v, v)] = vals[0]
    # expected = 1 (Nucleo.items) + [Worker.items is the current stream], bracket justified by C20.transitions
    expected = {"Init": 2, "Cleared": 1, "Fresh": 2}
    for k, want in expected.items():
        got = table.get(k)
        if got == want:
            ctx.ok("State::%s" % k, "matcher_item_refs = %d = 1 + [worker points at the current stream]" % want)
        else:
            ctx.violation("State::matcher_item_refs|%s" % k, site(fn, 0),
                          "matcher_item_refs(%s) = %s, but in that state the matcher itself holds %d handle(s) to the current stream (Nucleo.items%s)" % (k, got, want, " + Worker.items" if want == 2 else "; the worker still holds the OLD stream"))
    for k in table:
        if k not in expected:
            ctx.fail_closed("new State variant %s: not covered by the accounting table" % k)


def rule_transitions(ctx):
    facts = ctx.facts
    writers = {}
    for b in facts.bodies_of("nucleo"):
        fn = fn_of(b)
        for bi, si, s in field_assigns(fn, "state", "Nucleo<"):
            e = fn.expr_of_rvalue(s["rv"]) if si != "term" else ("?",)
            v = e[1].rsplit("::", 1)[1] if e[0] == "agg" else None
            writers.setdefault(fn.path, []).append((fn, bi, si, v))
        for bi, si, s in fn.stmts(lambda s: s["k"] == "assign" and s["rv"].get("agg") == "adt" and s["rv"].get("adt") == "Nucleo"):
            names = s["rv"]["fields"]
            e = fn.expr_of_operand(s["rv"]["ops"][names.index("state")])
            v = e[1].rsplit("::", 1)[1] if e[0] == "agg" else None
            writers.setdefault(fn.path, []).append((fn, bi, si, v))
            # Init: items is a clone of the worker's stream => worker points at current stream => 2
            it = fn.expr_of_operand(s["rv"]["ops"][names.index("items")])
            sn = fn.expr_of_operand(s["rv"]["ops"][names.index("snapshot")])
            if it[0] == "call" and str(it[1]).endswith("Clone>::clone") and field_chain(it[2][0])[1][-1:] == ["items"]:
                ctx.ok(site(fn, bi, si), "new(): Nucleo.items is a clone of the worker's stream (Init ⇒ 2 matcher refs)")
            else:
                ctx.violation("%s|new-items|1" % fn.path, site(fn, bi, si), "Nucleo.items is not a clone of the worker's stream in new(): Init ⇒ 2 refs no longer holds")
    allowed = {"Nucleo::<T>::new": "Init", "Nucleo::<T>::restart": "Cleared", "Nucleo::<T>::tick": "Fresh"}
    for path, lst in writers.items():
        for fn, bi, si, v in lst:
            if allowed.get(path) == v:
                ctx.ok(site(fn, bi, si), "state := %s in %s" % (v, path.rsplit("::", 1)[1]))
            else:
                ctx.violation("%s|state-write|%s" % (path, v), site(fn, bi, si), "unexpected state transition to %s in %s" % (v, path))
    for p in allowed:
        if p not in writers:
            ctx.violation("%s|state-write|missing" % p, p, "%s no longer sets the state to %s" % (p, allowed[p]))
    # Worker.items written only in tick_inner (under cleared) — C12.stream-switch checks the guard; here: who
    for b in facts.bodies_of("nucleo"):
        fn = fn_of(b)
        for bi, si, s in field_assigns(fn, "items", "worker::Worker<"):
            if fn.blocks[bi]["cleanup"]:
                continue
            if fn.path == "Nucleo::<T>::tick_inner":
                ctx.ok(site(fn, bi, si), "Worker.items re-pointed only in tick_inner")
            else:
                ctx.violation("%s|Worker.items|write" % fn.path, site(fn, bi, si), "Worker.items written outside tick_inner")
        for bi, si, s in field_assigns(fn, "items", "Nucleo<"):
            if fn.blocks[bi]["cleanup"]:
                continue
            if fn.path == "Nucleo::<T>::restart":
                ctx.ok(site(fn, bi, si), "Nucleo.items replaced only in restart (together with state := Cleared, see C12.restart-shape)")
            else:
                ctx.violation("%s|Nucleo.items|write" % fn.path, site(fn, bi, si), "Nucleo.items written outside restart")
    # Cleared ⇒ worker still holds the OLD stream: restart must not touch the worker's handle
    rs = get_fn(facts, "nucleo", "Nucleo::<T>::restart")
    if any(callee(t).endswith("::lock") or callee(t).endswith("::lock_arc") for bi, t in rs.calls()):
        ctx.violation("Nucleo::<T>::restart|locks-worker|1", site(rs, 0), "restart takes the worker lock: the Cleared ⇒ 1 accounting assumes the worker handle is untouched until the next tick")
    else:
        ctx.ok(site(rs, 0), "restart leaves the worker's handle alone (Cleared ⇒ 1 matcher ref to the new stream)")


def rules(ctx):
    ctx.run_rule("C20.holders", rule_holders)
    ctx.run_rule("C20.refs-table", rule_refs_table)
    ctx.run_rule("C20.transitions", rule_transitions)

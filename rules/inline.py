"""Program normalisation: helper functions that are NEW relative to the function inventory the rules were written
against (ref/fn_inventory.json) are inlined into their callers at the MIR-fact level, so a rule sees the same
decomposition into functions whether or not a maintainer extracted a helper.

Inlining is semantics preserving (arguments are assigned to fresh locals, `return` becomes an assignment of the
result to the call's destination followed by a jump to the continuation, unwind edges are redirected to the call
site's unwind target), so every verdict on an inlined body is a verdict on the real program.  A new helper whose
every use was inlined and which is not public is hidden from body iteration (it has been absorbed by its callers);
a new public function, or one that is also used as a function value, stays visible as a body of its own.
"""
import copy
import json
import os

VERIF = os.path.dirname(os.path.dirname(os.path.abspath(__file__)))
INVENTORY = os.path.join(VERIF, "ref", "fn_inventory.json")
MAX_DEPTH = 6


def load_inventory():
    if not os.path.exists(INVENTORY):
        return None
    with open(INVENTORY) as f:
        return json.load(f)


_SUBST = [None]   # const-generic substitution of the splice in progress: {param name: python value or ('param', name)}


def _split_args(txt):
    txt = (txt or "").strip()
    if txt.startswith("[") and txt.endswith("]"):
        txt = txt[1:-1]
    out, cur, d = [], "", 0
    for ch in txt:
        if ch in "<([{":
            d += 1
        elif ch in ">)]}":
            d -= 1
        if ch == "," and d == 0:
            out.append(cur.strip())
            cur = ""
        else:
            cur += ch
    if cur.strip():
        out.append(cur.strip())
    return out


def const_generic_subst(callee, fn_args):
    """{const param name: value} for a call `callee::<..>` from the Debug text of its generic arguments."""
    gens = callee.get("generics") or []
    toks = _split_args(fn_args)
    nl = [g for g in gens if g.get("kind") != "lifetime"]
    use = gens if len(toks) == len(gens) else (nl if len(toks) == len(nl) else None)
    if use is None:
        return {}
    out = {}
    for g, tok in zip(use, toks):
        if g.get("kind") == "type":
            # a type parameter of the helper: the concrete argument is written into the generic-argument text of the
            # calls that are folded in (`Layout::array::<T>` inside `append_array::<u16>` is `Layout::array::<u16>`)
            if tok.split("/#")[0].strip() != g["name"]:
                out[g["name"]] = ("type", tok)
            continue
        if g.get("kind") != "const":
            continue
        if tok in ("true", "false"):
            out[g["name"]] = (tok == "true")
        elif tok.lstrip("-").isdigit():
            out[g["name"]] = int(tok)
        else:
            nm = tok.split("/#")[0].strip()
            if nm.isidentifier():
                out[g["name"]] = ("param", nm)
    return out


def _remap(o, loff, boff, poff, callee_path, unwind_to):
    """Deep copy of a JSON fragment of the callee with locals/blocks/promoteds renumbered."""
    if isinstance(o, list):
        return [_remap(x, loff, boff, poff, callee_path, unwind_to) for x in o]
    if not isinstance(o, dict):
        return o
    sub = _SUBST[0]
    if sub and "param" in o and o.get("param") in sub and "ty" in o and not (isinstance(sub[o["param"]], tuple) and sub[o["param"]][0] == "type"):
        v = sub[o["param"]]
        if isinstance(v, tuple):
            return dict(o, param=v[1], text=v[1])
        return {"ty": o["ty"], "text": str(v).lower(), "val": v}
    if sub and o.get("k") == "call" and isinstance(o.get("fn_args"), str):
        txt = o["fn_args"]
        import re as _re
        for nm, v in sub.items():
            if isinstance(v, tuple) and v[0] == "type":
                rep = v[1]
            else:
                rep = (v[1] + "/#0") if isinstance(v, tuple) else str(v).lower()
            txt = _re.sub(r"\b%s/#\d+" % _re.escape(nm), lambda m_, rep=rep: rep, txt)
        o = dict(o, fn_args=txt)
    if "l" in o and "p" in o and len(o) == 2:  # place
        np = []
        for e in o["p"]:
            if isinstance(e, dict) and "index" in e:
                e = dict(e, index=e["index"] + loff)
            np.append(e)
        return {"l": o["l"] + loff, "p": np}
    out = {}
    for k, v in o.items():
        if k in ("target", "otherwise") and isinstance(v, int) and not isinstance(v, bool):
            out[k] = v + boff
        elif k == "arms" and isinstance(v, list):
            out[k] = [[a[0], a[1] + boff] for a in v]
        elif k == "unwind":
            if isinstance(v, int) and not isinstance(v, bool):
                out[k] = v + boff
            elif v == "continue":
                out[k] = unwind_to
            else:
                out[k] = v
        elif k == "promoted" and isinstance(v, int) and not isinstance(v, bool) and o.get("def") == callee_path:
            out[k] = v + poff
        else:
            out[k] = _remap(v, loff, boff, poff, callee_path, unwind_to)
    return out


def _callee_of(term):
    if term.get("k") != "call":
        return None
    return term.get("resolved") or term.get("fn")


CLOSURE_CALLS = ("std::ops::Fn::call", "std::ops::FnMut::call_mut", "std::ops::FnOnce::call_once")


def splice(body, bi, callee, closure_call=False):
    """Inline `callee` at the call terminating block `bi` of `body` (in place).
    closure_call: the call is `Fn*::call*(closure, (args,))`: the closure body takes the environment as _1 and the
    components of the argument tuple as _2.."""
    blocks = body["blocks"]
    term = blocks[bi]["term"]
    loff = len(body["locals"])
    boff = len(blocks)
    poff = len(body.get("promoted") or [])
    unwind_to = term.get("unwind", "continue")
    _SUBST[0] = const_generic_subst(callee, term.get("fn_args")) if not closure_call else None
    body["locals"].extend(copy.deepcopy(callee["locals"]))
    if callee.get("promoted"):
        body.setdefault("promoted", []).extend(copy.deepcopy(callee["promoted"]))
    for d in callee.get("debug", []):
        if "place" in d:
            nd = {"name": d["name"], "place": _remap(d["place"], loff, boff, poff, callee["path"], unwind_to), "line": d.get("line", 0),
                  "inl": callee["path"]}
            body["debug"].append(nd)
    line = term.get("line", 0)
    cfile = callee["loc"]["file"]
    for blk in callee["blocks"]:
        nb = _remap(blk, loff, boff, poff, callee["path"], unwind_to)
        nb.setdefault("file", cfile)
        nb.setdefault("inl", callee["path"])
        t = nb["term"]
        if t["k"] == "return":
            nb["stmts"].append({"k": "assign", "line": t.get("line", line), "exp": False, "inl_ret": True,
                                "lhs": copy.deepcopy(term["dest"]), "rv": {"use": {"move": {"l": loff, "p": []}}}})
            if term.get("target") is None:
                nb["term"] = {"k": "unreachable", "line": t.get("line", line), "col": 0, "exp": False}
            else:
                nb["term"] = {"k": "goto", "line": t.get("line", line), "col": 0, "exp": False, "target": term["target"]}
        elif t["k"] == "resume" and isinstance(unwind_to, int) and not isinstance(unwind_to, bool):
            nb["term"] = {"k": "goto", "line": t.get("line", line), "col": 0, "exp": False, "target": unwind_to}
        blocks.append(nb)
    # argument passing
    args = term.get("args", [])
    if closure_call:
        blocks[bi]["stmts"].append({"k": "assign", "line": line, "exp": False, "inl_arg": True,
                                    "lhs": {"l": loff + 1, "p": []}, "rv": {"use": copy.deepcopy(args[0])}})
        tup = args[1] if len(args) > 1 else None
        tp = (tup.get("move") or tup.get("copy")) if tup else None
        for i in range(callee["arg_count"] - 1):
            if tp is None:
                break
            fld = {"f": i, "name": str(i), "of": "(tuple)", "ty": callee["locals"][2 + i]["ty"]}
            blocks[bi]["stmts"].append({"k": "assign", "line": line, "exp": False, "inl_arg": True,
                                        "lhs": {"l": loff + 2 + i, "p": []},
                                        "rv": {"use": {"move": {"l": tp["l"], "p": list(tp["p"]) + [fld]}}}})
    else:
        for i, a in enumerate(args):
            blocks[bi]["stmts"].append({"k": "assign", "line": line, "exp": False, "inl_arg": True,
                                        "lhs": {"l": loff + 1 + i, "p": []}, "rv": {"use": copy.deepcopy(a)}})
    _SUBST[0] = None
    blocks[bi]["inlined_call"] = {"callee": callee["path"], "line": line, "entry": boff}
    blocks[bi]["term"] = {"k": "goto", "line": line, "col": term.get("col", 0), "exp": term.get("exp", False), "target": boff}


def _single_defs(body):
    defs = {}
    for blk in body["blocks"]:
        for st in blk["stmts"]:
            if st["k"] == "assign" and not st["lhs"]["p"]:
                defs.setdefault(st["lhs"]["l"], []).append(st["rv"])
        t = blk["term"]
        if t["k"] == "call" and not t["dest"]["p"]:
            defs.setdefault(t["dest"]["l"], []).append(None)
    return defs


def _chase(defs, op, depth=0):
    """Follow an operand through single-definition copies/borrows to a constant operand (or None)."""
    if depth > 12 or op is None:
        return None
    if "const" in op:
        return op["const"]
    p = op.get("move") or op.get("copy")
    if p is None or p["p"]:
        return None
    ds = defs.get(p["l"], [])
    if len(ds) != 1 or ds[0] is None:
        return None
    rv = ds[0]
    if "use" in rv:
        return _chase(defs, rv["use"], depth + 1)
    if "ref" in rv and not rv["ref"]["p"]:
        return _chase(defs, {"copy": rv["ref"]}, depth + 1)
    return None


_NEW_DIRECT = set()
_MAP_EXPANDED = set()      # closures whose only use was `opt.map(closure)`: folded into the match that replaced the call


def _chase_closure(defs, op, depth=0):
    """Follow an operand through single-definition copies / borrows to a closure aggregate; returns its body path."""
    if depth > 12 or op is None:
        return None
    p = op.get("move") or op.get("copy")
    if p is None:
        return None
    if p["p"] and p["p"] != ["deref"]:
        return None
    ds = defs.get(p["l"], [])
    if len(ds) != 1 or ds[0] is None:
        return None
    rv = ds[0]
    if rv.get("agg") == "closure":
        return rv.get("closure")
    if "use" in rv:
        return _chase_closure(defs, rv["use"], depth + 1)
    if "ref" in rv and not rv["ref"]["p"]:
        return _chase_closure(defs, {"copy": rv["ref"]}, depth + 1)
    return None


def expand_option_map(body, by_path):
    """`opt.map(closure)` with a closure built in this body is its definition: `match opt { None => None, Some(x) =>
    Some(closure(x)) }` (the call of the closure is then folded in like any direct closure call).  Returns the number of
    call sites rewritten."""
    defs = _single_defs(body)
    n = 0
    blocks = body["blocks"]
    for bi in range(len(blocks)):
        t = blocks[bi]["term"]
        if t["k"] != "call" or str(t.get("fn")) not in ("std::option::Option::<T>::map",) or len(t.get("args", [])) != 2 or t.get("target") is None:
            continue
        cl = _chase_closure(defs, t["args"][1])
        if cl is None or cl not in by_path or by_path[cl]["kind"] != "Closure" or by_path[cl]["arg_count"] != 2:
            continue
        opt = t["args"][0]
        op_ = opt.get("move") or opt.get("copy")
        if op_ is None or op_["p"]:
            continue
        cb = by_path[cl]
        line = t.get("line", 0)
        L = body["locals"]
        opt_ty = L[op_["l"]]["ty"]
        l_discr = len(L); L.append({"ty": "isize", "mut": False})
        l_pay = len(L); L.append({"ty": cb["locals"][2]["ty"], "mut": False})
        l_tup = len(L); L.append({"ty": "(%s,)" % cb["locals"][2]["ty"], "mut": False})
        l_res = len(L); L.append({"ty": cb["locals"][0]["ty"], "mut": False})
        b_none, b_some, b_wrap, b_unr = len(blocks), len(blocks) + 1, len(blocks) + 2, len(blocks) + 3
        dest, target, unwind = t["dest"], t["target"], t.get("unwind", "continue")
        mk = lambda stmts, term: {"stmts": stmts, "term": term, "cleanup": blocks[bi].get("cleanup", False), "synth": "Option::map"}
        asg = lambda lhs, rv: {"k": "assign", "line": line, "exp": False, "lhs": lhs, "rv": rv}
        blocks.append(mk([asg(copy.deepcopy(dest), {"agg": "adt", "adt": "std::option::Option", "variant": "None", "vidx": 0, "fields": [], "ops": []})],
                         {"k": "goto", "line": line, "col": 0, "exp": False, "target": target}))
        blocks.append(mk([asg({"l": l_pay, "p": []}, {"use": {"move": {"l": op_["l"], "p": [{"downcast": 1, "variant": "Some"}, {"f": 0, "name": "0", "of": opt_ty, "ty": cb["locals"][2]["ty"]}]}}}),
                          asg({"l": l_tup, "p": []}, {"agg": "tuple", "ops": [{"move": {"l": l_pay, "p": []}}]})],
                         {"k": "call", "line": line, "col": t.get("col", 0), "exp": False, "fn": "std::ops::FnOnce::call_once", "fn_args": "", "fn_local": False,
                          "resolved": cl, "resolved_local": True, "devirtualised": True, "args": [copy.deepcopy(t["args"][1]), {"move": {"l": l_tup, "p": []}}], "arg_tys": [],
                          "dest": {"l": l_res, "p": []}, "target": b_wrap, "unwind": unwind, "fn_line": line}))
        blocks.append(mk([asg(copy.deepcopy(dest), {"agg": "adt", "adt": "std::option::Option", "variant": "Some", "vidx": 1, "fields": ["0"], "ops": [{"move": {"l": l_res, "p": []}}]})],
                         {"k": "goto", "line": line, "col": 0, "exp": False, "target": target}))
        blocks.append(mk([], {"k": "unreachable", "line": line, "col": 0, "exp": False}))
        blocks[bi]["stmts"].append(asg({"l": l_discr, "p": []}, {"discr": {"l": op_["l"], "p": []}, "of": opt_ty}))
        blocks[bi]["term"] = {"k": "switch", "line": line, "col": t.get("col", 0), "exp": False, "discr": {"move": {"l": l_discr, "p": []}}, "ty": "isize",
                              "arms": [[0, b_none], [1, b_some]], "otherwise": b_unr, "synth": "Option::map"}
        _NEW_DIRECT.add(cl)
        _MAP_EXPANDED.add(cl)
        n += 1
    return n


def devirtualise(body, by_path):
    """After inlining a helper that takes `impl Fn` parameters: calls `Fn::call(f, (a, b))` whose `f` is now known to
    be a function item become direct calls of that function (arguments untupled)."""
    defs = _single_defs(body)
    n = 0
    new_direct = _NEW_DIRECT
    for blk in body["blocks"]:
        t = blk["term"]
        if t["k"] != "call" or t.get("fn") not in CLOSURE_CALLS or (t.get("resolved") and t.get("resolved") in by_path):
            continue
        c = _chase(defs, t["args"][0]) if t.get("args") else None
        if not c or "fn" not in c:
            # `f` is a closure value built in this very body (it was passed to a helper that has been folded in):
            # the call becomes a direct call of that closure, which the closure-folding step then takes care of
            cl = _chase_closure(defs, t["args"][0]) if t.get("args") else None
            if cl is not None and cl in by_path and by_path[cl]["kind"] == "Closure":
                t["resolved"] = cl
                t["resolved_local"] = True
                t["devirtualised"] = True
                n += 1
                new_direct.add(cl)
            continue
        tup = t["args"][1] if len(t["args"]) > 1 else None
        tp = (tup.get("move") or tup.get("copy")) if tup else None
        if tp is None or tp["p"]:
            continue
        ds = defs.get(tp["l"], [])
        if len(ds) != 1 or ds[0] is None or ds[0].get("agg") != "tuple":
            continue
        t["fn"] = c["fn"]
        t["fn_args"] = c.get("fn_args", "")
        t["resolved"] = c["fn"]
        t["resolved_local"] = c["fn"] in by_path
        t["args"] = copy.deepcopy(ds[0]["ops"])
        t["arg_tys"] = []
        t["devirtualised"] = True
        n += 1
    return n


def _norm_sig(sig):
    import re
    return re.sub(r"DefId\([^)]*\)", "D", sig or "")


def rename_aliases(bodies, known, detail):
    """A private inventory function that disappeared while exactly one new function with the same container, the same
    signature and a similar set of callees appeared is the same function under a new name: map new -> old."""
    if not detail:
        return {}
    present = {b["path"] for b in bodies if b["kind"] in ("Fn", "AssocFn")}
    missing = [p for p in known if p not in present and p in detail]
    new = [b for b in bodies if b["kind"] in ("Fn", "AssocFn") and b["path"] not in known]
    out = {}
    for m in missing:
        d = detail[m]
        cands = []
        for b in new:
            cont = b.get("impl_self") or b["path"].rsplit("::", 1)[0]
            if cont != d.get("container") or _norm_sig(b.get("sig")).replace(b["path"].rsplit("::", 1)[-1], "") != d.get("sig", "").replace(m.rsplit("::", 1)[-1], ""):
                continue
            callees = set((blk["term"].get("resolved") or blk["term"].get("fn") or "?") for blk in b["blocks"] if blk["term"]["k"] == "call")
            old = set(d.get("callees", []))
            jac = len(callees & old) / max(1, len(callees | old))
            if jac >= 0.5 or (not old and not callees):
                cands.append((jac, b["path"]))
        if len(cands) == 1 and cands[0][1] not in out:
            out[cands[0][1]] = m
    return out


def module_moves(bodies, known):
    """Items moved verbatim into a new (private) submodule: `a::Type::f` is missing and `a::sub::Type::f` is new.
    Returns {new_prefix: old_prefix} (e.g. {'boxcar::location::': 'boxcar::'}) when every new function below the new
    prefix corresponds to a missing inventory function."""
    present = {b["path"] for b in bodies if b["kind"] in ("Fn", "AssocFn")}
    missing = set(p for p in known if p not in present)
    new = [b["path"] for b in bodies if b["kind"] in ("Fn", "AssocFn") and b["path"] not in known]
    votes = {}
    for q in new:
        segs = q.split("::")
        for i in range(0, len(segs) - 1):
            if "<" in segs[i] or ">" in segs[i]:
                continue
            p_ = "::".join(segs[:i] + segs[i + 1:])
            if p_ in missing:
                np_, op_ = "::".join(segs[:i + 1]) + "::", ("::".join(segs[:i]) + "::") if i else ""
                votes.setdefault((np_, op_), []).append(q)
    out = {}
    for (np_, op_), qs in votes.items():
        under = [q for q in new if q.startswith(np_)]
        if under and all(q in qs for q in under) and op_:
            out[np_] = op_
    return out


def apply_module_moves(crate, moves):
    if not moves:
        return crate
    txt = json.dumps(crate)
    for np_, op_ in moves.items():
        txt = txt.replace(np_, op_)
    return json.loads(txt)


def apply_aliases(crate, aliases):
    """Rename function paths (and the closures nested in them) throughout one crate's fact base."""
    if not aliases:
        return crate
    txt = json.dumps(crate)
    for newp, oldp in aliases.items():
        txt = txt.replace(json.dumps(newp)[:-1] + '"', json.dumps(oldp)[:-1] + '"')
        txt = txt.replace(json.dumps(newp)[:-1] + "::{", json.dumps(oldp)[:-1] + "::{")
    return json.loads(txt)


def normalise(crate_name, bodies, known):
    """bodies: list of body dicts of one crate (mutated in place). known: set of function paths of the inventory.
    Returns (absorbed_paths, report)."""
    by_path = {b["path"]: b for b in bodies}
    # (a hand-written `Iterator::next` of a new type stays a call: the loops that drive it are recognised by that call)
    new = {p: b for p, b in by_path.items() if b["kind"] in ("Fn", "AssocFn") and p not in known and not p.endswith(" as std::iter::Iterator>::next")}
    # closures that are called directly (`let f = |..| ..; f(x)`) are local helper functions too
    direct = set()
    for b in bodies:
        for blk in b["blocks"]:
            t = blk["term"]
            if t["k"] == "call" and t.get("fn") in CLOSURE_CALLS and t.get("resolved") in by_path \
                    and by_path[t["resolved"]]["kind"] == "Closure":
                direct.add(t["resolved"])
    # `opt.map(|x| ..)` with a closure built on the spot is a `match`
    for b in bodies:
        if expand_option_map(b, by_path):
            for p_ in list(_NEW_DIRECT):
                if p_ in by_path:
                    direct.add(p_)
            _NEW_DIRECT.clear()
    if not new and not direct:
        return set(), []
    pristine = {p: copy.deepcopy(b) for p, b in new.items()}
    for p in direct:
        pristine[p] = copy.deepcopy(by_path[p])
    report = []
    not_absorbed = set()
    # uses as a function value (not in callee position) keep the body visible
    for b in bodies:
        txt = json.dumps([blk["stmts"] for blk in b["blocks"]]) + json.dumps(
            [blk["term"].get("args") for blk in b["blocks"] if blk["term"]["k"] == "call"])
        for p in new:
            # as a function VALUE: a fn-item constant (a promoted constant's `def` also names its function: not a use)
            if ('"fn": %s' % json.dumps(p)) in txt:
                not_absorbed.add(p)
    for b in bodies:
        stack = [b["path"]]
        before = len(report)
        _inline_into(b, pristine, stack, report, not_absorbed, 0)
        if len(report) > before and devirtualise(b, by_path):
            # the now-direct calls may themselves be helpers that are new to the inventory, or closures built here
            for p_ in list(_NEW_DIRECT):
                if p_ in by_path and p_ not in pristine:
                    pristine[p_] = copy.deepcopy(by_path[p_])
            _NEW_DIRECT.clear()
            _inline_into(b, pristine, stack, report, not_absorbed, 0)
    absorbed = set()
    for p in list(_MAP_EXPANDED):
        if p in by_path and p not in not_absorbed:
            absorbed.add(p)
    _MAP_EXPANDED.clear()
    for p, b in new.items():
        vis = b.get("vis", "")
        if p in not_absorbed or vis == "Public":
            continue
        absorbed.add(p)
    return absorbed, report


def _inline_into(b, pristine, stack, report, not_absorbed, depth):
    bi = 0
    budget = 400
    origin = {}  # block index -> chain of callee paths it was inlined from (recursion guard)
    while bi < len(b["blocks"]):
        t = b["blocks"][bi]["term"]
        c = _callee_of(t)
        if c in pristine and c != b["path"]:
            chain = origin.get(bi, ())
            if c in chain or len(chain) >= MAX_DEPTH or budget <= 0:
                not_absorbed.add(c)
            else:
                budget -= 1
                start = len(b["blocks"])
                splice(b, bi, pristine[c], closure_call=(t.get("fn") in CLOSURE_CALLS and pristine[c]["kind"] == "Closure"))
                for nb in range(start, len(b["blocks"])):
                    origin[nb] = chain + (c,)
                report.append((b["path"], c))
        bi += 1

#!/bin/bash
# usage: keepseed.sh <worktree> <seed id> <property> <demo path in repo> <caught-by> <needs...>
set -eu
W=$1; ID=$2; PROP=$3; DEMO=$4; CAUGHT=$5; shift 5; NEEDS="$*"
D=/verif/seeded/$ID
mkdir -p $D
cp $W/SEED/patch.diff $D/patch.diff
cp $W/$DEMO $D/$(basename $DEMO)
[ -f $W/SEED/README.md ] && cp $W/SEED/README.md $D/README.agent.md
python3 - "$D" "$ID" "$PROP" "$DEMO" "$CAUGHT" "$NEEDS" <<'PY'
import json,sys
d,i,p,demo,caught,needs=sys.argv[1:7]
json.dump({"id":i,"breaks_property":p,"demo":demo,"needs_to_manifest":needs,
 "confirmed":"tools/seedcheck.sh in the agent's scratch worktree: baseline suite green with the change; demo fails with the change and passes without it",
 "checks_run":"tools/mut.py <props> --patch seeded/%s/patch.diff (scratch copy of /repo with the patch applied)"%i,
 "caught_by":caught.split(",") if caught!="none" else []},open(d+"/meta.json","w"),indent=1)
PY
git -C /repo worktree remove --force $W
echo kept $ID

//! Type-level witnesses (Engine D). Nothing here is executed: every example is either
//! `compile_fail` with a pinned error code, or its `no_run` twin that differs only by the
//! offending line (so a witness cannot pass merely because a path or a signature is wrong).
//! Build with `cargo +nightly test --doc --offline` (error codes are honoured on nightly only).

/// C06.borrow-witness — a snapshot cannot be observed while a tick mutates the matcher.
///
/// ```compile_fail,E0502
/// use std::sync::Arc;
/// let mut n: nucleo::Nucleo<u32> = nucleo::Nucleo::new(nucleo::Config::DEFAULT, Arc::new(|| {}), Some(1), 1);
/// let snap = n.snapshot();
/// n.tick(10); // mutable borrow while `snap` is alive
/// let _ = snap.matched_item_count();
/// ```
///
/// twin (compiles):
/// ```no_run
/// use std::sync::Arc;
/// let mut n: nucleo::Nucleo<u32> = nucleo::Nucleo::new(nucleo::Config::DEFAULT, Arc::new(|| {}), Some(1), 1);
/// n.tick(10);
/// let snap = n.snapshot();
/// let _ = snap.matched_item_count();
/// ```
pub struct C06SnapshotBorrow;

/// C06.borrow-witness — the same for `restart`.
///
/// ```compile_fail,E0502
/// use std::sync::Arc;
/// let mut n: nucleo::Nucleo<u32> = nucleo::Nucleo::new(nucleo::Config::DEFAULT, Arc::new(|| {}), Some(1), 1);
/// let snap = n.snapshot();
/// n.restart(true);
/// let _ = snap.matches();
/// ```
///
/// twin (compiles):
/// ```no_run
/// use std::sync::Arc;
/// let mut n: nucleo::Nucleo<u32> = nucleo::Nucleo::new(nucleo::Config::DEFAULT, Arc::new(|| {}), Some(1), 1);
/// n.restart(true);
/// let snap = n.snapshot();
/// let _ = snap.matches();
/// ```
pub struct C06SnapshotRestart;

/// C06 / C11 — an `Item` borrowed from a snapshot cannot outlive the matcher that owns the stream.
///
/// ```compile_fail,E0505
/// use std::sync::Arc;
/// let n: nucleo::Nucleo<u32> = nucleo::Nucleo::new(nucleo::Config::DEFAULT, Arc::new(|| {}), Some(1), 1);
/// let item = n.snapshot().get_item(0);
/// drop(n); // moved out while `item` borrows from it
/// let _ = item.map(|i| *i.data);
/// ```
///
/// twin (compiles):
/// ```no_run
/// use std::sync::Arc;
/// let n: nucleo::Nucleo<u32> = nucleo::Nucleo::new(nucleo::Config::DEFAULT, Arc::new(|| {}), Some(1), 1);
/// let item = n.snapshot().get_item(0);
/// let _ = item.map(|i| *i.data);
/// drop(n);
/// ```
pub struct C11ItemOutlivesMatcher;

/// C11.lifetime-witness — an `Item` obtained from an injector cannot outlive that handle.
///
/// ```compile_fail,E0505
/// use std::sync::Arc;
/// let n: nucleo::Nucleo<String> = nucleo::Nucleo::new(nucleo::Config::DEFAULT, Arc::new(|| {}), Some(1), 1);
/// let inj = n.injector();
/// let item = inj.get(0);
/// drop(inj);
/// let _ = item.map(|i| i.data.len());
/// ```
///
/// twin (compiles):
/// ```no_run
/// use std::sync::Arc;
/// let n: nucleo::Nucleo<String> = nucleo::Nucleo::new(nucleo::Config::DEFAULT, Arc::new(|| {}), Some(1), 1);
/// let inj = n.injector();
/// let item = inj.get(0);
/// let _ = item.map(|i| i.data.len());
/// drop(inj);
/// ```
pub struct C11ItemOutlivesInjector;

/// C09.send-sync-witness — items shared with the worker pool must be `Send + Sync`.
///
/// ```compile_fail,E0277
/// use std::rc::Rc;
/// use std::sync::Arc;
/// let _n: nucleo::Nucleo<Rc<u8>> = nucleo::Nucleo::new(nucleo::Config::DEFAULT, Arc::new(|| {}), Some(1), 1);
/// ```
///
/// ```compile_fail,E0277
/// use std::cell::Cell;
/// use std::sync::Arc;
/// let _n: nucleo::Nucleo<Cell<u8>> = nucleo::Nucleo::new(nucleo::Config::DEFAULT, Arc::new(|| {}), Some(1), 1);
/// ```
///
/// twin (compiles):
/// ```no_run
/// use std::sync::Arc;
/// let _n: nucleo::Nucleo<Arc<u8>> = nucleo::Nucleo::new(nucleo::Config::DEFAULT, Arc::new(|| {}), Some(1), 1);
/// ```
pub struct C09SendSync;

/// C09 — the notify callback is called from pool threads: it must be `Send + Sync`.
///
/// ```compile_fail,E0277
/// use std::rc::Rc;
/// use std::sync::Arc;
/// let local = Rc::new(0u8);
/// let _n: nucleo::Nucleo<u32> = nucleo::Nucleo::new(nucleo::Config::DEFAULT, Arc::new(move || { let _ = &local; }), Some(1), 1);
/// ```
///
/// twin (compiles):
/// ```no_run
/// use std::sync::Arc;
/// let shared = Arc::new(0u8);
/// let _n: nucleo::Nucleo<u32> = nucleo::Nucleo::new(nucleo::Config::DEFAULT, Arc::new(move || { let _ = &shared; }), Some(1), 1);
/// ```
pub struct C09NotifySendSync;

"""C03 — the score is the fzf scheme applied to the reported alignment (structural clauses)."""
import json
import os

from cfg import Inconclusive, Fn, op_place, show, walk, strip_casts
from common import (config_effects, calls_to, callee, callee_names, field_chain, fn_of, get_fn, head_sources, peel, site,
                    guards_of, ret_aggregates, uses_of_local, is_diverging, field_assigns)
from engine import VERIF

PROP = "C03"
LEVEL = "other"
UNDECIDED = [
    "score/alignment coherence for every input (that the DP and the re-scoring walk agree on every haystack)",
    "index (Sub) arithmetic inside the slab region, which rests on row-offset invariants computed from the input",
]
ASSUMPTIONS = [
    "derived PartialOrd/PartialEq of CharClass compare discriminants in declaration order (derive confirmed from the impl inventory)",
    "u16::saturating_* / std::cmp::max do what their names say",
]
M = "nucleo_matcher"
CLASSES = ["Whitespace", "NonWord", "Delimiter", "Lower", "Upper", "Letter", "Number"]
WORD = ("Lower", "Upper", "Letter", "Number")

SCHEME = {
    "score::SCORE_MATCH": 16, "score::PENALTY_GAP_START": 3, "score::PENALTY_GAP_EXTENSION": 1,
    "score::BONUS_BOUNDARY": 8, "score::BONUS_NON_WORD": 8, "score::BONUS_CAMEL123": 5,
    "score::BONUS_CONSECUTIVE": 4, "score::BONUS_FIRST_CHAR_MULTIPLIER": 2,
}


def rule_constants(ctx):
    facts = ctx.facts
    for path, want in SCHEME.items():
        k = facts.const(M, path)
        where = "matcher/src/score.rs (%s)" % path
        if k is None:
            ctx.fail_closed("constant %s not found" % path)
            continue
        if k.get("value") == want:
            ctx.ok(where, "= %d (compiler-evaluated) as in the documented fzf scheme" % want)
        else:
            ctx.violation("%s|value|1" % path, where, "%s evaluates to %s; the documented scheme says %d (the crate's own tests are written with this constant, so they stay green)" % (path, k.get("value"), want))
    d = facts.const(M, "config::Config::DEFAULT")
    if d is None or not isinstance(d.get("value"), dict):
        raise Inconclusive("Config::DEFAULT not evaluated")
    v = d["value"]
    for fld, want in (("bonus_boundary_white", 10), ("bonus_boundary_delimiter", 9)):
        if v.get(fld) == want:
            ctx.ok("Config::DEFAULT.%s" % fld, "= %d" % want)
        else:
            ctx.violation("config::Config::DEFAULT|%s|1" % fld, "matcher/src/config.rs", "Config::DEFAULT.%s = %s, documented %d" % (fld, v.get(fld), want))
    ic = v.get("initial_char_class")
    if isinstance(ic, dict) and ic.get("variant") == "Whitespace":
        ctx.ok("Config::DEFAULT.initial_char_class", "= Whitespace (start of haystack counts as a whitespace boundary)")
    else:
        ctx.violation("config::Config::DEFAULT|initial_char_class|1", "matcher/src/config.rs", "Config::DEFAULT.initial_char_class = %s, documented Whitespace" % ic)
    # path configuration: final value of every bonus field after match_paths / set_match_paths (whatever the
    # statement shapes: field stores, struct-update literals, helpers)
    for name in ("config::Config::match_paths", "config::Config::set_match_paths"):
        fn = get_fn(facts, M, name)
        want = {"bonus_boundary_white": ("const", 8), "bonus_boundary_delimiter": ("unchanged",), "initial_char_class": ("enum", "Delimiter"),
                "normalize": ("unchanged",), "ignore_case": ("unchanged",), "prefer_prefix": ("unchanged",)}
        bad = None
        npaths = 0
        for conds, final, get in config_effects(fn):
            npaths += 1
            got = {f: get(f) for f in want}
            if got != want and bad is None:
                bad = {k: v for k, v in got.items() if v != want[k]}
        if bad is None and npaths:
            ctx.ok(site(fn, 0), "path configuration: whitespace bonus 8, initial class Delimiter, every other scoring field unchanged (%d path(s))" % npaths)
        else:
            ctx.violation("%s|fields|1" % name, site(fn, 0), "path configuration leaves %s, documented %s" % (bad, {k: want[k] for k in (bad or {})}))


# ---------------------------------------------------------------- bonus_for abstract table

def eval_bonus_for(fn, prev, cls, order):
    """Abstractly evaluate bonus_for for one (prev, class) pair. Returns ('const', v) | ('field', name)."""
    bb = 0
    env = {}
    steps = 0
    while True:
        steps += 1
        if steps > 400:
            raise Inconclusive("bonus_for: abstract evaluation does not terminate")
        blk = fn.blocks[bb]
        for s in blk["stmts"]:
            if s["k"] == "assign" and s["lhs"]["l"] == 0 and not s["lhs"]["p"]:
                e = fn.expr_of_rvalue(s["rv"])
                if e[0] == "const" and isinstance(e[1], int):
                    return ("const", e[1], e[2])
                if e[0] == "field" and "config::Config" in (e[3] or ""):
                    return ("field", e[2])
                raise Inconclusive("bonus_for: leaf %s is neither a constant nor a config field" % show(e))
        t = blk["term"]
        if t["k"] == "goto":
            bb = t["target"]
        elif t["k"] == "call":
            f = t.get("fn") or ""
            if f.rsplit("::", 2)[-2:] and f.startswith("std::cmp::Partial"):
                m = f.rsplit("::", 1)[1]
                a = peel(fn.expr_of_operand(t["args"][0]))
                b = peel(fn.expr_of_operand(t["args"][1]))

                def val(x):
                    if x[0] == "arg":
                        return {2: prev, 3: cls}.get(x[1])
                    if x[0] == "agg" and "CharClass::" in x[1]:
                        return x[1].rsplit("::", 1)[1]
                    return None
                va, vb = val(a), val(b)
                if va is None or vb is None:
                    raise Inconclusive("bonus_for: comparison operands not resolvable: %s vs %s" % (show(a), show(b)))
                ia, ib = order.index(va), order.index(vb)
                res = {"eq": ia == ib, "ne": ia != ib, "gt": ia > ib, "lt": ia < ib, "ge": ia >= ib, "le": ia <= ib}.get(m)
                if res is None:
                    raise Inconclusive("bonus_for: unknown comparison %s" % m)
                env[t["dest"]["l"]] = int(res)
                bb = t["target"]
            else:
                raise Inconclusive("bonus_for calls %s: no longer a pure discriminant tree" % f)
        elif t["k"] == "switch":
            d = t["discr"]
            p = op_place(d)
            v = None
            if p is not None and not p["p"] and p["l"] in env:
                v = env[p["l"]]
            else:
                e = fn.expr_of_operand(d)
                if e[0] == "discr":
                    x = peel(e[1])
                    if x[0] == "arg":
                        v = order.index({2: prev, 3: cls}[x[1]])
                elif e[0] == "call" and e[4][1] in env:
                    v = env[e[4][1]]
            if v is None:
                raise Inconclusive("bonus_for: switch on %s not resolvable" % show(fn.expr_of_operand(d)))
            tgt = None
            for val_, b_ in t["arms"]:
                if val_ == v:
                    tgt = b_
            bb = tgt if tgt is not None else t["otherwise"]
        elif t["k"] == "return":
            raise Inconclusive("bonus_for: returned without assigning a value")
        else:
            raise Inconclusive("bonus_for: unexpected terminator %s" % t["k"])


def spec_cell(prev, cls):
    """Cells fixed by the property text: ('white'|'delimiter'|int) or None (unspecified)."""
    if cls in WORD:
        if prev == "Whitespace":
            return "bonus_boundary_white"
        if prev == "Delimiter":
            return "bonus_boundary_delimiter"
        if prev == "NonWord":
            return 8
        if (prev == "Lower" and cls == "Upper") or (prev != "Number" and cls == "Number"):
            return 5
        return 0
    return None


def bonus_table(ctx):
    facts = ctx.facts
    cc = facts.adt(M, "chars::CharClass")
    if cc is None:
        raise Inconclusive("CharClass not found")
    order = [v["name"] for v in cc["variants"]]
    derived = [im for im in facts.crate(M)["impls"] if im["self_ty"] == "chars::CharClass" and im["trait"] in ("std::cmp::PartialOrd", "std::cmp::PartialEq")]
    if len(derived) < 2 or not all(im["derived"] for im in derived):
        raise Inconclusive("PartialOrd/PartialEq of CharClass are not derived: order cannot be read off the declaration")
    fn = get_fn(facts, M, "score::<impl config::Config>::bonus_for")
    table = {}
    for p in order:
        for c in order:
            table[(p, c)] = eval_bonus_for(fn, p, c, order)
    return fn, order, table


def rule_bonus_table(ctx):
    fn, order, table = bonus_table(ctx)
    if sorted(order) != sorted(CLASSES):
        ctx.fail_closed("CharClass variants changed: %s" % order)
        return
    bad = 0
    for (p, c), leaf in sorted(table.items()):
        want = spec_cell(p, c)
        if want is None:
            continue
        got = leaf[2] if leaf[0] == "field" and False else (leaf[1])
        okc = (leaf[0] == "field" and leaf[1] == want) or (leaf[0] == "const" and leaf[1] == want)
        if okc:
            ctx.ok("bonus_for(%s, %s)" % (p, c), "= %s" % (want,))
        else:
            bad += 1
            ctx.violation("score::<impl config::Config>::bonus_for|cell|%s,%s" % (p, c), site(fn, 0),
                          "bonus_for(prev=%s, class=%s) yields %s; the scheme says %s (variant order used for `>`: %s)" % (p, c, leaf[1:], want, order))
    unspec = {k: v for k, v in table.items() if spec_cell(*k) is None}
    ctx.note("cells not fixed by the property text (informational): %s" % sorted(set((k[1], str(v[1])) for k, v in unspec.items())))


# ---------------------------------------------------------------- prev-class

def rule_prev_class(ctx):
    facts = ctx.facts
    n = 0
    for b in facts.bodies_of(M):
        fn = fn_of(b)
        loops = fn.loops()
        for bi, t in fn.calls(lambda t: callee(t).endswith("::bonus_for")):
            prev = fn.expr_of_operand(t["args"][1])
            # `let before = mem::replace(&mut prev_class, class)`: the carried variable is the one being replaced,
            # its in-loop definition is the replace call (new value = 2nd argument)
            if prev[0] == "call" and str(prev[1]).endswith("mem::replace") and peel(prev[2][0])[0] == "local":
                carried = peel(prev[2][0])[1]
                rb = prev[4][0]
                inner = [l for l in loops if bi in l[1] and rb in l[1]]
                if not inner:
                    continue
                h, body, srcs = min(inner, key=lambda l: len(l[1]))
                n += 1
                key = "%s|prev-class|%s" % (fn.path, fn.names.get(carried, "_%d" % carried))
                stale = [s_ for s_ in srcs if s_ in fn.reach_from(h, removed_nodes={rb})]
                if stale:
                    ctx.violation(key, site(fn, bi), "loop-carried previous-class `%s` is not updated on every iteration (a path from the loop header to the back edge skips the mem::replace)" % fn.names.get(carried))
                elif any(x[0] == "call" and (str(x[3]).endswith("char_class_and_normalize") or str(x[3]).endswith("Char::char_class") or str(x[1]).endswith("::char_class")) for x in walk(prev[2][1])):
                    ctx.ok(site(fn, bi), "previous class carried on every iteration (mem::replace) and taken from the current element")
                else:
                    ctx.violation(key + "|value", site(fn, bi), "previous-class is assigned something other than the class of the current element")
                continue
            if prev[0] != "local" or len(fn.defs.get(prev[1], [])) < 2:
                continue
            inner = [l for l in loops if bi in l[1]]
            if not inner:
                continue
            loop = min(inner, key=lambda l: len(l[1]))
            h, body, srcs = loop
            defs_in = [d for d in fn.defs.get(prev[1], []) if d[0] in body]
            if not defs_in:
                continue  # not loop-carried
            defblocks = set(d[0] for d in defs_in)
            # loop-carried = the value used here can come from an earlier iteration: some path from the loop
            # header reaches the use without passing an in-loop definition.  A local that is (re)computed on every
            # path of the iteration before it is used (e.g. `match pos.checked_sub(1) {..}`) is iteration-local:
            # its arguments are checked by C03.bonus-args instead.
            if bi not in fn.reach_from(h, removed_nodes=defblocks) and bi not in defblocks:
                continue
            n += 1
            r = fn.reach_from(h, removed_nodes=defblocks)
            stale = [s for s in srcs if s in r]
            key = "%s|prev-class|%s" % (fn.path, fn.names.get(prev[1], "_%d" % prev[1]))
            if stale:
                ctx.violation(key, site(fn, bi),
                              "loop-carried previous-class `%s` is not updated on every iteration (a path from the loop header to the back edge skips the assignment, e.g. the `continue` for non-matching characters): "
                              "the bonus of the next match is computed from the class of an older character (stale previous-class bonus)" % fn.names.get(prev[1]))
                continue
            # each in-loop definition is the class of the current element
            okv = True
            for d in fn.def_exprs(prev[1]):
                if d[0] not in body:
                    continue
                e = d[2]
                good = False
                for x in walk(e):
                    if x[0] == "call" and (str(x[3]).endswith("char_class_and_normalize") or str(x[3]).endswith("Char::char_class") or str(x[1]).endswith("::char_class")):
                        good = True
                if not good:
                    okv = False
            if okv:
                ctx.ok(site(fn, bi), "previous class carried on every iteration and taken from the current element")
            else:
                ctx.violation(key + "|value", site(fn, bi), "previous-class is assigned something other than the class of the current element")
    ctx.floor("loops with a loop-carried previous class", n, 2)


# ---------------------------------------------------------------- no-wrap

CYC = "cyc"


class Bounds:
    def __init__(self, ctx, fn, maxb, in_region=False, max_needle=None):
        self.ctx = ctx
        self.fn = fn
        self.maxb = maxb
        self.in_region = in_region
        self.max_needle = max_needle

    def bound(self, e, at):
        r = self.ub(e, frozenset(), 0, at)
        return None if r == CYC else r

    def ub(self, e, seen, depth, at):
        """Upper bound of an unsigned integer expression; None = not bounded locally; CYC = only
        reachable through a max/copy cycle (contributes nothing)."""
        if depth > 40:
            return None
        k = e[0]
        if k == "const" and isinstance(e[1], int):
            return e[1]
        if k == "cast" and e[1] == "IntToInt":
            inner = self.ub(e[2], seen, depth + 1, at)
            if inner == CYC:
                return CYC
            lim_from = {"u8": 255, "u16": 65535, "u32": 2 ** 32 - 1, "bool": 1}.get(e[3])
            lim_to = {"u8": 255, "u16": 65535, "u32": 2 ** 32 - 1}.get(e[4])
            c = [x for x in (inner, lim_from, lim_to) if x is not None]
            return min(c) if c else None
        if k == "call":
            name = str(e[1])
            if name.endswith("::bonus_for"):
                return self.maxb
            if name.endswith("cmp::max") or name.endswith("Ord::max"):
                a, b = self.ub(e[2][0], seen, depth + 1, at), self.ub(e[2][1], seen, depth + 1, at)
                vals = [x for x in (a, b) if x != CYC]
                if any(x is None for x in vals):
                    return None
                return max(vals) if vals else CYC
            if name.endswith("cmp::min") or name.endswith("Ord::min"):
                a, b = self.ub(e[2][0], seen, depth + 1, at), self.ub(e[2][1], seen, depth + 1, at)
                c = [x for x in (a, b) if x is not None and x != CYC]
                return min(c) if c else None
            if "saturating_sub" in name:
                return self.ub(e[2][0], seen, depth + 1, at)
            if "saturating_add" in name or "saturating_mul" in name:
                return 65535
            return None
        if k in ("bin", "checked"):
            a, b = self.ub(e[2], seen, depth + 1, at), self.ub(e[3], seen, depth + 1, at)
            op = e[1]
            if op in ("Add", "Mul"):
                if a is None or b is None or a == CYC or b == CYC:
                    return None
                return a + b if op == "Add" else a * b
            if op in ("Sub", "Div", "Shr"):
                return None if a == CYC else a
            if op == "BitAnd":
                c = [x for x in (a, b) if x is not None and x != CYC]
                return min(c) if c else None
            return None
        if k == "deref":
            return self.ub(e[1], seen, depth + 1, at)
        if k == "ref":
            # only ever reached below a deref (`*p` with p = &mut x, e.g. a folded helper's parameter): bound of the referent
            return self.ub(e[1], seen, depth + 1, at)
        if k == "index":
            # an element of a table: bounded by everything that is ever stored into the table
            return self.elem_ub(e[1], depth + 1)
        if k == "field" and isinstance(e[1], tuple) and e[1][0] == "local" and str(e[2]).isdigit():
            # component of a tuple-valued local assigned in several branches
            if e[1][1] in seen:
                return CYC
            bs = []
            for _, _, d in self.fn.def_exprs(e[1][1], at=at):
                if d[0] == "tuple" and int(e[2]) < len(d[1]):
                    b = self.ub(d[1][int(e[2])], seen | {e[1][1]}, depth + 1, at)
                    if b is None:
                        return None
                    if b != CYC:
                        bs.append(b)
                else:
                    return None
            return max(bs) if bs else CYC
        if k == "field":
            # enumerate index of an iterator over the needle inside the slab-guarded region
            if self.in_region and self.max_needle is not None and e[2] == "0":
                has_enum = any(x[0] == "call" and "Enumerate" in str(x[1]) and str(x[1]).endswith("::next") for x in walk(e))
                over_needle = any(x[0] in ("arg", "local") and x[2] and "needle" in x[2] for x in walk(e))
                if has_enum and over_needle:
                    return self.max_needle
            return None
        if k == "local":
            if e[1] in seen:
                return CYC
            bs = []
            for d in self.ptr_stores(e[1]):
                # the local is also written through `&mut` pointers taken in this body (a folded helper's out-parameter)
                if d is None:
                    return None
                b = self.ub(d, seen | {e[1]}, depth + 1, None)
                if b is None:
                    return None
                if b != CYC:
                    bs.append(b)
            for _, _, d in self.fn.def_exprs(e[1], at=at):
                b = self.ub(d, seen | {e[1]}, depth + 1, at)
                if b is None:
                    return None
                if b != CYC:
                    bs.append(b)
            return max(bs) if bs else CYC
        if k == "arg":
            ty = self.fn.b["locals"][e[1]]["ty"]
            b = {"u8": 255, "bool": 1}.get(ty)
            if b is not None:
                return b
            return self.arg_bound(e[1], depth)
        return None

    def ptr_stores(self, l):
        """Values stored into local `l` through mutable pointers to it taken in this body: expressions, or None for a
        pointer that escapes into a call (what the callee stores is not visible here)."""
        cache = self.__dict__.setdefault("_ptr_stores", {})
        if l in cache:
            return cache[l]
        fn = self.fn
        ptrs = set()
        for bi in sorted(fn.live):
            for s_ in fn.blocks[bi]["stmts"]:
                if s_.get("k") != "assign":
                    continue
                rv = s_["rv"]
                tgt = rv.get("ref") if rv.get("mut") else None
                if tgt is None and rv.get("mut"):
                    tgt = rv.get("rawptr")
                if isinstance(tgt, dict) and tgt.get("l") == l and not tgt.get("p") and not s_["lhs"].get("p"):
                    ptrs.add(s_["lhs"]["l"])
        out = []
        if ptrs:
            # copies / reborrows of the pointers
            changed = True
            while changed:
                changed = False
                for bi in sorted(fn.live):
                    for s_ in fn.blocks[bi]["stmts"]:
                        if s_.get("k") != "assign" or s_["lhs"].get("p") or s_["lhs"]["l"] in ptrs:
                            continue
                        rv = s_["rv"]
                        src = None
                        if "use" in rv and isinstance(rv["use"], dict):
                            pl = rv["use"].get("place") or rv["use"].get("copy") or rv["use"].get("move")
                            if isinstance(pl, dict) and not pl.get("p"):
                                src = pl.get("l")
                        tgt = rv.get("ref") or rv.get("rawptr")
                        if isinstance(tgt, dict) and [x for x in tgt.get("p", []) if x != "deref" and x != {"k": "deref"}] == [] and tgt.get("p"):
                            src = tgt.get("l")
                        if src in ptrs:
                            ptrs.add(s_["lhs"]["l"])
                            changed = True
            for bi in sorted(fn.live):
                for s_ in fn.blocks[bi]["stmts"]:
                    if s_.get("k") == "assign" and s_["lhs"]["l"] in ptrs and s_["lhs"].get("p"):
                        out.append(fn.expr_of_rvalue(s_["rv"], 0, None, None))
                t = fn.blocks[bi]["term"]
                if t["k"] == "call":
                    for a in t["args"]:
                        pl = a.get("place") or a.get("copy") or a.get("move") if isinstance(a, dict) else None
                        if isinstance(pl, dict) and pl.get("l") in ptrs:
                            out.append(None)
        cache[l] = out
        return out

    def elem_ub(self, e, depth):
        """Upper bound of every element reachable inside the aggregate value `e` (an array, possibly wrapped in structs /
        Options): max over everything that is stored into it, in this body or in the closure that builds it."""
        if depth > 30:
            return None
        while isinstance(e, tuple) and e and e[0] in ("index", "field", "downcast", "deref", "ref", "cast"):
            e = e[2] if e[0] == "cast" else e[1]
        if e[0] == "local":
            return self.stores_ub(e[1], depth + 1)
        if e[0] == "call":
            clo = [a for a in e[2] if isinstance(a, tuple) and a and a[0] == "closure"]
            nm = str(e[1])
            if clo and (nm.endswith("bool>::then") or nm.endswith("Option::<T>::map") or nm.endswith("::unwrap_or_else") or nm.endswith("::get_or_insert_with")):
                from common import get_fn as _get_fn
                cf = _get_fn(self.ctx.facts, self.fn.b["crate"], clo[0][1])
                sub = Bounds(self.ctx, cf, self.maxb, in_region=self.in_region, max_needle=self.max_needle)
                return sub.stores_ub(0, depth + 1)
        return None

    def stores_ub(self, l, depth, seen=frozenset()):
        if depth > 30 or l in seen:
            return None if depth > 30 else CYC
        fn = self.fn
        best = None
        n = 0
        for bi in sorted(fn.live):
            for si, s_ in enumerate(fn.blocks[bi]["stmts"]):
                if s_.get("k") != "assign" or s_["lhs"]["l"] != l:
                    continue
                n += 1
                rv = s_["rv"]
                vals = []
                if s_["lhs"]["p"]:
                    vals.append(self.ub(fn.expr_of_rvalue(rv), frozenset(), depth + 1, bi))
                elif "repeat" in rv:
                    pl = rv["repeat"].get("move") or rv["repeat"].get("copy")
                    if pl is not None and not pl["p"]:
                        vals.append(self.stores_ub(pl["l"], depth + 1, seen | {l}))
                    else:
                        vals.append(self.ub(fn.expr_of_operand(rv["repeat"]), frozenset(), depth + 1, bi))
                elif rv.get("agg") is not None:
                    for o in rv.get("ops", []):
                        pl = o.get("move") or o.get("copy")
                        if pl is not None and not pl["p"] and ("[" in str(fn.b["locals"][pl["l"]]["ty"]) or "Table" in str(fn.b["locals"][pl["l"]]["ty"])):
                            vals.append(self.stores_ub(pl["l"], depth + 1, seen | {l}))
                        else:
                            vals.append(self.ub(fn.expr_of_operand(o), frozenset(), depth + 1, bi))
                elif isinstance(rv.get("use"), dict):
                    pl = rv["use"].get("move") or rv["use"].get("copy")
                    if pl is not None and not pl["p"]:
                        vals.append(self.stores_ub(pl["l"], depth + 1, seen | {l}))
                    else:
                        vals.append(self.ub(fn.expr_of_operand(rv["use"]), frozenset(), depth + 1, bi))
                else:
                    return None
                for v in vals:
                    if v is None:
                        return None
                    if v != CYC:
                        best = v if best is None else max(best, v)
            t = fn.blocks[bi]["term"]
            if t["k"] == "call" and t["dest"]["l"] == l:
                return None
        return best if n else None

    def arg_bound(self, argl, depth):
        """Interprocedural: bound of a parameter of a crate-private function = max over all call sites."""
        if depth > 6 or self.ctx is None:
            return None
        fn = self.fn
        if fn.b.get("vis", "").startswith("Public") or fn.b["kind"] == "Closure":
            return None
        from common import calls_to, callee as _callee, fn_of
        sites = calls_to(self.ctx.facts, fn.b["crate"], lambda t: _callee(t) == fn.path or t.get("fn") == fn.path)
        if not sites:
            return None
        best = 0
        for cf, cbi, ct in sites:
            if argl - 1 >= len(ct["args"]):
                return None
            root = cf.b.get("root", cf.path)
            sub = Bounds(self.ctx, cf, self.maxb, in_region=self.in_region, max_needle=self.max_needle)
            b = sub.ub(cf.expr_of_operand(ct["args"][argl - 1]), frozenset(), depth + 1, cbi)
            if b is None or b == CYC:
                return None
            best = max(best, b)
        return best


def slab_region(ctx):
    """Bodies that only run behind a successful MatrixSlab::alloc."""
    facts = ctx.facts
    region = set()
    cand = [b["path"] for b in facts.bodies_of(M) if b["path"].startswith("fuzzy_optimal::") and not b["path"].startswith("fuzzy_optimal::<impl Matcher>")]
    region = set(cand)
    fmo = get_fn(facts, M, "fuzzy_optimal::<impl Matcher>::fuzzy_match_optimal")
    alloc = [(bi, t) for bi, t in fmo.calls(lambda t: callee(t).endswith("MatrixSlab::alloc"))]
    problems = []
    if len(alloc) != 1:
        problems.append("fuzzy_match_optimal: expected one slab alloc")
        return region, problems
    ab, at = alloc[0]
    sw = fmo.blocks[at["target"]]["term"]
    some_edge = None
    if sw["k"] == "switch":
        for v, bb in sw["arms"]:
            if v == 1:
                some_edge = (at["target"], bb)
    if some_edge is None:
        problems.append("fuzzy_match_optimal: alloc result is not matched directly")
    changed = True
    while changed:
        changed = False
        for p in list(region):
            for fn, bi, t in calls_to(facts, M, lambda t, p=p: callee(t) == p or (t.get("fn") == p)):
                root = fn.b.get("root", fn.path)
                if root in region:
                    continue
                if fn.path == fmo.path and some_edge and fmo.must_pass(bi, via_edges=[some_edge]):
                    continue
                problems.append("%s is also called from %s outside the slab-guarded region" % (p, fn.path))
                region.discard(p)
                changed = True
    return region, problems


def rule_no_wrap(ctx):
    facts = ctx.facts
    fnb, order, table = bonus_table(ctx)
    d = facts.const(M, "config::Config::DEFAULT")["value"]
    consts = {p: facts.const(M, p)["value"] for p in SCHEME}
    # max leaf over constructible configs: DEFAULT, match_paths (white := BONUS_BOUNDARY)
    leaves_const = [l[1] for l in table.values() if l[0] == "const"]
    fields = set(l[1] for l in table.values() if l[0] == "field")
    cfgs = [dict(d), dict(d, bonus_boundary_white=consts["score::BONUS_BOUNDARY"])]
    maxb = max(leaves_const + [c[f] for c in cfgs for f in fields])
    region, problems = slab_region(ctx)
    for p in problems:
        ctx.fail_closed(p)
    mn = facts.const(M, "matrix::MAX_NEEDLE_LEN")["value"]
    mpb = facts.const(M, "score::MAX_PREFIX_BONUS")["value"]
    sm = consts["score::SCORE_MATCH"]
    mult = consts["score::BONUS_FIRST_CHAR_MULTIPLIER"]
    global_bound = mn * (sm + maxb) + maxb * mult + mpb
    ctx.note("max bonus over constructible configs = %d; slab-region score bound = MAX_NEEDLE_LEN*(SCORE_MATCH+max_bonus) + max_bonus*MULT + MAX_PREFIX_BONUS = %d" % (maxb, global_bound))
    n = 0
    for b in facts.bodies_of(M):
        fn = fn_of(b)
        root0 = fn.b.get("root", fn.path)
        bd = Bounds(ctx, fn, maxb, in_region=root0 in region, max_needle=mn)
        k = 0
        for bi in sorted(fn.live):
            t = fn.blocks[bi]["term"]
            if not (t["k"] == "assert" and t.get("kind") == "Overflow" and t["ty"] == "u16" and t["op"] in ("Add", "Mul")):
                continue
            k += 1
            n += 1
            ea = fn.expr_of_operand(t["a"])
            eb = fn.expr_of_operand(t["b"])
            ua, ub = bd.bound(ea, bi), bd.bound(eb, bi)
            key = "%s|u16-%s|%d" % (fn.path, t["op"], k)
            local = None
            if ua is not None and ub is not None:
                local = ua + ub if t["op"] == "Add" else ua * ub
            if local is not None and local <= 65535:
                ctx.ok(site(fn, bi), "u16 %s bounded by its operands: %s ≤ %d" % (t["op"], "%d %s %d" % (ua, "+" if t["op"] == "Add" else "*", ub), local))
                continue
            root = fn.b.get("root", fn.path)
            if root in region and t["op"] == "Add" and (local is None):
                if global_bound <= 65535:
                    ctx.ok(site(fn, bi), "u16 Add on DP scores inside the slab-guarded region: needle ≤ MAX_NEEDLE_LEN ⇒ score ≤ %d ≤ u16::MAX" % global_bound)
                else:
                    ctx.violation(key, site(fn, bi), "DP score can reach %d > u16::MAX with the current limits (MAX_NEEDLE_LEN=%d, max bonus=%d)" % (global_bound, mn, maxb))
                continue
            what = "%s(%s, %s)" % (t["op"], show(ea)[:70], show(eb)[:70])
            if local is not None:
                ctx.violation(key, site(fn, bi), "u16 arithmetic can exceed u16::MAX: %s with operands up to %d and %d (wraps in release builds, panics in debug)" % (what, ua, ub))
            else:
                ctx.violation(key, site(fn, bi),
                              "unchecked u16 accumulation %s: this body is reachable with needles of any length (exact/prefix/postfix/substring/greedy paths), so the running score wraps around for long needles; use saturating arithmetic" % what)
    ctx.floor("u16 Add/Mul overflow obligations", n, 20)



def rule_bonus_args(ctx):
    """Every bonus is computed for (class of the character before the candidate, class of the
    haystack character at the candidate). The needle's character may stand in for the haystack's
    only where the candidate search is case sensitive (then the two bytes are equal)."""
    from props.c11 import for_loops
    facts = ctx.facts
    n = 0
    for b in facts.bodies_of(M):
        if not (b["path"].startswith("exact::") or b["path"].startswith("score::<impl Matcher>") or b["path"].startswith("fuzzy_optimal::<impl matrix")):
            continue
        fn = fn_of(b)
        loops = for_loops(fn)
        k = 0
        sites_ = []
        for bi, t in fn.calls(lambda t: callee(t).endswith("::bonus_for")):
            sites_.append((bi, fn.expr_of_operand(t["args"][2]), fn.expr_of_operand(t["args"][1]), t))
        # a bonus read from a per-call table `table[prev as usize][class as usize]` stands for bonus_for(prev, class)
        seen_reads = set()
        for bi in sorted(fn.live):
            for si, s_ in enumerate(fn.blocks[bi]["stmts"]):
                if s_.get("k") != "assign":
                    continue
                e = fn.expr_of_rvalue(s_["rv"])
                for x in walk(e):
                    if x[0] == "index" and isinstance(x[1], tuple) and x[1][0] == "index":
                        i_, j_ = strip_casts(x[1][2]), strip_casts(x[2])
                        if i_[0] == "discr" and j_[0] == "discr" and "CharClass" in str(i_[2:]) and repr(x) not in seen_reads:
                            seen_reads.add(repr(x))
                            sites_.append((bi, j_[1], i_[1], None))
        for bi, cls, prev, t in sites_:
            n += 1
            k += 1
            key = "%s|bonus-args|%d" % (fn.path, k)
            if cls[0] == "arg" and prev[0] == "arg":
                ctx.ok(site(fn, bi), "pass-through wrapper")
                continue
            # filling a table over all pairs of classes: bonus_for(p, c) for p, c enumerated from a constant array of
            # CharClass, stored at [p as usize][c as usize]
            def enumerated(e_):
                return any(x[0] == "call" and str(x[1]).endswith("::next") and "array" in str(x[1]) for x in walk(e_))
            if t is not None and enumerated(cls) and enumerated(prev):
                dl = t["dest"]["l"]
                stored = None
                for b2 in sorted(fn.live):
                    for s2 in fn.blocks[b2]["stmts"]:
                        if s2.get("k") == "assign" and len([p_ for p_ in s2["lhs"]["p"] if isinstance(p_, dict) and "index" in p_]) == 2 and \
                                any(x[0] == "call" and len(x) > 4 and x[4] == (bi, dl) for x in walk(fn.expr_of_rvalue(s2["rv"]))):
                            ix = [p_["index"] for p_ in s2["lhs"]["p"] if isinstance(p_, dict) and "index" in p_]
                            e1, e2 = strip_casts(fn.expr_of_local(ix[0])), strip_casts(fn.expr_of_local(ix[1]))
                            if e1[0] == "discr" and e2[0] == "discr" and repr(strip_casts(e1[1])) == repr(strip_casts(prev)) and repr(strip_casts(e2[1])) == repr(strip_casts(cls)):
                                stored = True
                            else:
                                stored = False
                if stored:
                    ctx.ok(site(fn, bi), "table fill: table[p][c] = bonus_for(p, c) for every pair of classes")
                else:
                    ctx.violation(key + "|table-fill", site(fn, bi), "bonus_for over enumerated classes is not stored at [prev][class] of a table (transposed or partial table)")
                continue
            # ---- class of the candidate character
            exprs = [cls]
            if cls[0] == "local":
                exprs = [d for _, _, d in fn.def_exprs(cls[1], at=bi)]
            verdict = None
            for e in exprs:
                cc = [x for x in walk(e) if x[0] == "call" and (str(x[3]).endswith("char_class_and_normalize") or str(x[3]).endswith("Char::char_class") or str(x[1]).endswith("::char_class") or str(x[1]).endswith("char_class_and_normalize"))]
                if not cc:
                    # a class that arrives as a component of what a generic iterator parameter yields was computed by the
                    # caller's candidate finder: not visible from here, hence undecided rather than wrong
                    opaque_item = any(x[0] == "call" and str(x[1]).endswith("::next") for x in walk(e))
                    if opaque_item:
                        verdict = ("undecided", "the class argument is part of an item an iterator yields (%s): which character it is the class of is decided where the items are produced, which this rule does not follow" % show(e)[:60])
                        break
                    verdict = ("bad", "class argument %s is not a character class of anything" % show(e)[:80])
                    break
                ch = cc[0][2][0]
                # role-based (no reliance on parameter names): the candidate's own character is an element the
                # loop iterator yielded, or a slice element indexed by something the iterator yielded; the
                # needle's character is a scalar parameter or a constant-indexed element of a slice parameter
                def from_iter(e_, depth=0):
                    for x in walk(e_):
                        if x[0] == "call" and str(x[1]).endswith("::next"):
                            return True
                        if x[0] == "local" and depth < 3:
                            for _, _, d_ in fn.def_exprs(x[1]):
                                if from_iter(d_, depth + 1):
                                    return True
                    return False
                from_hay = from_iter(ch) or any(x[0] == "index" and x[2][0] != "const" for x in walk(ch))
                scalar_arg = any(x[0] == "arg" and fn.b["locals"][x[1]]["ty"] in ("u8", "char") for x in walk(ch))
                const_idx = any((x[0] == "index" and x[2][0] == "const") or x[0] == "cindex" for x in walk(ch))
                from_needle = (scalar_arg or const_idx) and not from_hay
                if from_hay:
                    continue
                if from_needle:
                    # allowed only under a case-sensitive candidate search
                    inner = [l for l in loops if bi in l[1] and l[2] is not None]
                    if not inner:
                        verdict = ("bad", "class taken from the needle character outside a candidate loop")
                        break
                    loop = min(inner, key=lambda l: len(l[1]))
                    it = fn.expr_of_operand(fn.blocks[loop[2][0]]["term"]["args"][0])
                    cands = [it]
                    for x in walk(it):
                        if x[0] == "local":
                            cands += [d for _, _, d in fn.def_exprs(x[1])]
                    srcs = set()
                    for c_ in cands:
                        for x in walk(c_):
                            if x[0] == "call":
                                nm = str(x[1])
                                if "Memchr2" in nm or "memchr2" in nm:
                                    srcs.add("insensitive")
                                elif "Memchr<" in nm or "Memchr::<" in nm or nm.endswith("Memchr::new") or "memmem::find_iter" in nm or "FindIter" in nm or nm.endswith("::find_overlapping") or "memmem::Finder" in nm:
                                    srcs.add("sensitive")
                            if x[0] == "arg" and "Iterator" in fn.b["locals"][x[1]]["ty"]:
                                srcs.add("param:" + str(x[2]))
                    if srcs == {"sensitive"}:
                        continue
                    verdict = ("bad", "the candidate's class is taken from the needle character although the candidates come from %s: under ignore_case the haystack character can be the upper-case variant, whose class (and camelCase bonus) differs" % sorted(srcs))
                    break
                verdict = ("bad", "cannot tell which character's class is used: %s" % show(ch)[:80])
                break
            if verdict and verdict[0] == "undecided":
                ctx.fail_closed("%s: %s" % (site(fn, bi), verdict[1]))
                continue
            if verdict:
                ctx.violation(key + "|class", site(fn, bi), verdict[1])
                continue
            # ---- class of the previous character
            def expand_prev(e_, depth=0):
                if e_[0] == "local" and depth < 4:
                    out_ = []
                    for _, _, d_ in fn.def_exprs(e_[1], at=bi if depth == 0 else None):
                        out_ += expand_prev(d_, depth + 1)
                    return out_ or [e_]
                return [e_]
            pex = expand_prev(prev)
            okp = True
            why = ""
            for e in pex:
                has_class = any(x[0] == "call" and ("char_class" in str(x[1]) or "char_class" in str(x[3])) for x in walk(e))
                has_init = any(x[0] == "field" and x[2] == "initial_char_class" for x in walk(e))
                is_param = e[0] == "arg"
                if not (has_class or has_init or is_param):
                    okp = False
                    why = show(e)[:80]
            if okp:
                ctx.ok(site(fn, bi), "bonus_for(class of the preceding haystack character | initial class, class of the candidate haystack character)")
            else:
                ctx.violation(key + "|prev", site(fn, bi), "previous-class argument is %s" % why)
    ctx.floor("bonus_for call sites in the scorers", n, 9)


def rule_class_source(ctx):
    """The class a character contributes to the bonus is the class of the character AS IT STANDS IN THE HAYSTACK: the
    two classifier routines of `char` (`char_class` and the class component of `char_class_and_normalize`) are siblings
    that the scorers mix freely (calculate_score uses both), so on every decision path both must classify the raw
    parameter -- never the normalized / folded value -- and take the ASCII route exactly when the raw character is ASCII."""
    from cfg import decision_paths
    CC = "<char as chars::Char>::char_class"
    CCAN = "<char as chars::Char>::char_class_and_normalize"
    from props.c01 import char_routines_by_evaluation
    ev = char_routines_by_evaluation(ctx)
    if ev is not None:
        fnb = get_fn(ctx.facts, M, CCAN)
        if ev["class"]:
            c, ic, nz, b1, k_ = ev["class"][0]
            ctx.violation("%s|class-source|eval" % CCAN, site(fnb, 0),
                          "char::char_class_and_normalize classifies U+%04X as %s while char::char_class says %s (ignore_case=%s normalize=%s): the bonus of a position depends on "
                          "which classifier a scorer happens to use" % (c, b1[2] if isinstance(b1, tuple) else b1, k_[2] if isinstance(k_, tuple) else k_, bool(ic), bool(nz)))
        else:
            ctx.ok(site(fnb, 0), "class component of char_class_and_normalize == char_class on %d representative characters x 4 configurations (evaluated)" % ev["reps"])
        return

    def raw(x):
        x = strip_casts(x)
        while x[0] in ("ref", "deref", "cast"):
            x = strip_casts(x[2] if x[0] == "cast" else x[1])
        return x[0] == "arg" and x[1] == 1

    def class_form(e):
        """(kind, classified expression) of a class expression, or None."""
        e = strip_casts(e)
        while e[0] in ("ref", "deref"):
            e = strip_casts(e[1])
        if e[0] == "field" and e[2] == "1":
            b = strip_casts(e[1])
            if b[0] == "call" and str(b[1]).endswith("<chars::AsciiChar as chars::Char>::char_class_and_normalize"):
                a = strip_casts(b[2][0])
                if a[0] == "agg" and isinstance(a[2], dict) and "0" in a[2]:
                    return ("ascii", a[2]["0"])
            return None
        if e[0] == "call":
            nm = str(e[1])
            if nm.endswith("chars::char_class_non_ascii"):
                return ("non-ascii", e[2][0])
            if nm.endswith("<chars::AsciiChar as chars::Char>::char_class"):
                a = strip_casts(e[2][0])
                if a[0] == "agg" and isinstance(a[2], dict) and "0" in a[2]:
                    return ("ascii", a[2]["0"])
            if nm.endswith(CC):
                return ("sibling", e[2][0])
        return None

    n = 0
    seen = set()
    for path, pair in ((CC, False), (CCAN, True)):
        fn = get_fn(ctx.facts, M, path)
        short = path.rsplit("::", 1)[1]
        bad = False
        for conds, res in decision_paths(fn):
            if res is None:
                continue
            asc = None      # is the RAW character known to be ASCII / non-ASCII on this path?
            for d, chosen, allv in conds:
                d0 = strip_casts(d)
                if d0[0] == "call" and str(d0[1]).endswith("is_ascii") and raw(d0[2][0]):
                    asc = (chosen != 0) if chosen is not None else True
            cls = res
            if pair:
                r = strip_casts(res)
                if r[0] != "tuple" or len(r[1]) != 2:
                    raise Inconclusive("%s: result is not a (char, class) pair" % path)
                cls = r[1][1]
            cf = class_form(cls)
            if cf is None:
                raise Inconclusive("%s: class expression %s not recognised" % (path, show(cls)[:120]))
            kind, arg = cf
            n += 1
            if not raw(arg):
                key = "%s|class-source|argument" % path
                if key not in seen:
                    ctx.violation(key, site(fn, 0),
                                  "char::%s returns the class of %s, not of the raw character (a character whose normalized form is another letter, U+0274 -> N, "
                                  "gets that letter's class): the bonus of a position then depends on which classifier a scorer happens to use" % (short, show(arg)[:80]))
                seen.add(key)
                bad = True
            elif kind != "sibling" and asc is not (kind == "ascii"):
                key = "%s|class-source|route" % path
                if key not in seen:
                    ctx.violation(key, site(fn, 0), "char::%s takes the %s classifier on a path where the raw character is %s" % (
                        short, kind, "not tested with is_ascii" if asc is None else ("ASCII" if asc else "not ASCII")))
                seen.add(key)
                bad = True
        if not bad:
            ctx.ok(site(fn, 0), "char::%s classifies the raw character on every decision path (ASCII route iff the raw character is ASCII)" % short)
    ctx.floor("class expressions of the two char classifiers (at least the ASCII and the non-ASCII route of char_class, one of the pair routine)", n, 3)


def rule_twins(ctx):
    from props.c02 import rule_twins as r
    r(ctx)


def rule_indices_guard(ctx):
    from props.c02 import rule_indices_guard as r
    r(ctx)


def rule_same_constants(ctx):
    """Both scorers draw the scheme from the same named constants."""
    facts = ctx.facts
    need = {
        "score::<impl Matcher>::calculate_score": {"score::SCORE_MATCH", "score::PENALTY_GAP_START", "score::PENALTY_GAP_EXTENSION", "score::BONUS_CONSECUTIVE", "score::BONUS_FIRST_CHAR_MULTIPLIER", "score::BONUS_BOUNDARY"},
        "fuzzy_optimal::next_m_cell": {"score::SCORE_MATCH", "score::BONUS_CONSECUTIVE", "score::BONUS_BOUNDARY"},
        "fuzzy_optimal::p_score": {"score::PENALTY_GAP_START", "score::PENALTY_GAP_EXTENSION"},
        "fuzzy_optimal::<impl matrix::MatcherDataView<'_, H>>::score_row": {"score::SCORE_MATCH", "score::BONUS_FIRST_CHAR_MULTIPLIER"},
    }
    for name, want in need.items():
        fn = get_fn(facts, M, name)
        used = set()
        raw = []
        for bi in sorted(fn.live):
            blk = fn.blocks[bi]
            items = [s.get("rv") for s in blk["stmts"] if s["k"] == "assign"]
            t = blk["term"]
            txt = json.dumps(items) + json.dumps(t)
            for c in SCHEME:
                if '"def": "%s"' % c in txt:
                    used.add(c)
        missing = want - used
        if missing:
            ctx.violation("%s|constants|1" % name, site(fn, 0), "%s no longer uses the named scheme constant(s) %s (a literal or another constant took their place: the two scorers can drift apart)" % (name, sorted(missing)))
        else:
            ctx.ok(site(fn, 0), "uses %s" % sorted(want))
    # gap penalties are applied with saturating_sub (running score floored at zero)
    PEN = ("score::PENALTY_GAP_START", "score::PENALTY_GAP_EXTENSION")

    def mentions_penalty(fn, e, depth=0):
        for x in walk(e):
            if x[0] == "const" and x[2] in PEN:
                return True
            if x[0] == "local" and depth < 2:
                for _, _, d in fn.def_exprs(x[1]):
                    if mentions_penalty(fn, d, depth + 1):
                        return True
        return False
    for name in ("score::<impl Matcher>::calculate_score", "fuzzy_optimal::p_score"):
        fn = get_fn(facts, M, name)
        good = bad = 0
        for bi, t in fn.calls(lambda t: callee(t).endswith("_sub") and "num::" in callee(t)):
            if len(t["args"]) < 2 or not mentions_penalty(fn, fn.expr_of_operand(t["args"][1])):
                continue
            if fn.expr_of_operand(t["args"][0])[0] == "const":
                continue  # e.g. MAX_PREFIX_BONUS.saturating_sub(..): not the running score
            if "saturating_sub" in callee(t):
                # one gap step at a time: the subtracted value is one of the two penalty constants
                pb = Bounds(ctx, fn, 0).bound(fn.expr_of_operand(t["args"][1]), bi)
                lim = max(facts.const(M, c)["value"] for c in PEN)
                if pb is None or pb > lim:
                    bad += 1
                    ctx.violation("%s|gap-floor|accumulated" % name, site(fn, bi),
                                  "the value subtracted from the running score is not a single gap step (≤ %d) but %s: a penalty accumulated over several skipped characters is floored only once, after the next match was added, so a long early gap eats into later matches (the scheme floors the running score at zero at every skipped character)" % (lim, show(fn.expr_of_operand(t["args"][1]))[:80]))
                    continue
                good += 1
                ctx.ok(site(fn, bi), "gap penalty (one step, ≤ %d) subtracted with saturating_sub: score floored at zero at every skipped character" % lim)
            else:
                bad += 1
                ctx.violation("%s|gap-floor|%s" % (name, callee(t).rsplit("::", 1)[1]), site(fn, bi), "gap penalty subtracted with %s: the running score is not floored at zero" % callee(t).rsplit("::", 1)[1])
        for bi in sorted(fn.live):
            tt = fn.blocks[bi]["term"]
            if tt["k"] == "assert" and tt.get("kind") == "Overflow" and tt["op"] == "Sub" and tt["ty"] == "u16":
                if mentions_penalty(fn, fn.expr_of_operand(tt["b"])):
                    bad += 1
                    ctx.violation("%s|gap-floor|plain-sub" % name, site(fn, bi), "gap penalty subtracted with a plain `-`: underflows instead of flooring the running score at zero")
        if good == 0 and bad == 0:
            ctx.violation("%s|gap-floor|missing" % name, site(fn, 0), "no gap penalty is subtracted from the running score")


def rule_cell_equations(ctx):
    """The DP cell updates are part of the scheme (consecutive-run bonus, gap penalties): shared with C04/C02."""
    from props.c04 import rule_cell_equations as r
    r(ctx)


def rule_live_config(ctx):
    """The score is the scheme of the matcher's CURRENT configuration: no routine may read bonus data that was derived
    from the configuration at construction time (shared with C10.config-only-state)."""
    from props.c10 import rule_live_config as r
    r(ctx)


def rule_fold_lookup(ctx):
    """The re-scoring walk and the window search see the same characters only if to_lower_case / is_upper_case are exactly the fold-table lookup (shared with C16.dispatch)."""
    from props.c16 import rule_dispatch as r
    r(ctx)


def rules(ctx):
    ctx.run_rule("C03.fold-lookup", rule_fold_lookup)
    ctx.run_rule("C03.live-config", rule_live_config)
    ctx.run_rule("C03.cell-equations", rule_cell_equations)
    ctx.run_rule("C03.constants", rule_constants)
    ctx.run_rule("C03.bonus-table", rule_bonus_table)
    ctx.run_rule("C03.prev-class", rule_prev_class)
    ctx.run_rule("C03.no-wrap", rule_no_wrap)
    ctx.run_rule("C03.same-constants", rule_same_constants)
    ctx.run_rule("C03.bonus-args", rule_bonus_args)
    ctx.run_rule("C03.indices-guard", rule_indices_guard)
    ctx.run_rule("C03.twins", rule_twins)
    ctx.run_rule("C03.class-source", rule_class_source)

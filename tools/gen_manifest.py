#!/usr/bin/env python3
"""Regenerates /verif/MANIFEST.json from the table below (keeps the file valid at all times)."""
import json, os, sys
VERIF = os.path.dirname(os.path.dirname(os.path.abspath(__file__)))

CLAIMS = {
 "C01": ("other", "MIR dataflow: normalizer routing, sibling agreement, representation-only arms, window bounds; finite-domain evaluation of the ASCII normalizers (256 bytes x config) and of every two-byte case-insensitive search, call-site contract of the greedy matcher's scan start (carrier-resolved alternatives)",
         "Decides structural necessary conditions of the fuzzy accept/reject relation: every haystack/needle comparison goes through the one normalizer, the two normalizer siblings agree (as complete functions of byte x config for AsciiChar), no arm decides by representation alone, ASCII prefilter searches exactly the pre-images under AsciiChar::normalize, candidate windows are h-n+1, and a never-rejecting scorer is reached only behind a complete decider (completeness of each prefilter derived from its body: a walk over needle[1..] with a None exit), the greedy matcher reaches its scorer only through such a walk unless both strings are ASCII, the optimal matcher's window is the full prefilter window, cross-type character equality is exact, to_lower_case / is_upper_case are the fold-table lookup. Does not decide the iff itself.", "§3 C01 Also: code-point calls of the greedy matcher pass end = start + 1."),
 "C02": ("other", "MIR method-set + path rules on the indices vector, twin comparison of _match/_indices bodies, decision tables of the DP cell updates (back-pointer strictness), normalizer routing of the index re-walk",
         "Decides: indices vector is append-only, nothing appended on a path that returns None, INDICES-guarded code cannot affect the score, _match/_indices twins agree, back-pointers are set exactly when the match branch wins strictly, the index re-walk compares normalized characters, the greedy forward scan starts behind the character needle[0] consumed (call-site contract end >= start+1 followed through callers), exact character equality, fold lookup. Does not decide index validity for all inputs.", "§3 C02"),
 "C03": ("other", "const evaluation vs fzf scheme, exhaustive abstract evaluation of bonus_for over 7x7 classes, loop-carried-state rule, overflow obligations (interval domain), decision tables of the DP cell updates",
         "Decides: scoring constants and both bonus configurations equal the documented fzf values; bonus_for table and its arguments; previous-class carried on every iteration; u16 score additions saturating or bounded; gap steps; the cell-update recurrence (branching or branch-free); both char classifiers classify the raw character; no bonus data cached from a configuration that can be reassigned; fold lookup. Does not decide score/alignment coherence for all inputs.", "§3 C03"),
 "C04": ("other", "source-set + const relation on early exits, prefix-bonus additivity, loop path rule on the prefix-bonus decay",
         "Decides: every 'cannot get better' early exit compares against a value that dominates every bonus_for result in every constructible Config; prefix preference is additive, non-negative and bounded; the DP cell recurrence; no bonus data cached from a reassignable configuration; exact character equality. Optimality itself is not decided.", "§3 C04 Also: the loop-carried prefix bonus decays on every path through a first-row column."),
 "C05": ("other", "affine forms of candidate windows, prefilter-arm agreement, per-path polynomial windows of exact/prefix/postfix with whitespace trimming, normalizer routing of every comparison in the exact/substring scanners, completeness of the candidate finders (no non-overlapping literal search)",
         "Decides: candidate windows are h-n+p, prefilter arms agree on (prefix searched, prefilter length, window), trimming and bounds of exact/prefix/postfix on every decision path, every comparison with the needle is normalized, best-bonus arguments, every substring result is produced by the substring scanners, exact character equality. The relations themselves are not decided.", "§3 C05 Also: no candidate iterator that skips overlapping occurrences (memmem::find_iter)."),
 "C06": ("other", "who-may-call + source sets for unchecked reads, ordered-list typestate, comparator as a decision function over the orderings of its documented keys, guard dominance, landing of every counted placeholder in the match list, stale-read rule on the match-list test in Worker::run",
         "Decides the clauses on which memory safety of reading a snapshot rests: unchecked item reads are fed only by indices that passed a checked lookup, in-flight list producers preserve order, placeholder accounting, the comparator equals the documented order on all consistent key orderings, snapshot-update guard, every snapshot field copied from one run, hand-written clone_from copies every field. Not the set equality under all interleavings.", "§3 C06 Also: nothing rewrites the match list between a test of its contents and the branch that depends on it."),
 "C08": ("other", "atomic op inventory, dominance of initialisation over publication, read gating, CAS shape",
         "Decides: index reservation is a single RMW and the only writer of the counter; slot initialisation dominates publication and nothing touches the slot afterwards; lookups read a slot only under active==true and answer None only for an unallocated bucket or a clear flag; lying-iterator guard; the bucket installed by the CAS has its flags initialised before publication and is not written through afterwards; Location::of is a bijection onto the slots; the entry stride is a pure function of (T, cols). Not linearizability.", "§3 C08"),
 "C09": ("other", "ordering table over every atomic operation (resolved constants), confinement of UnsafeCell matchers, Send/Sync bounds",
         "Decides that every happens-before edge the design relies on is declared with a sufficient ordering, that the per-thread matcher scratch is confined to the pool, and that flag-skipping readers are fed only by indices that passed a flag-acquiring read. Not race freedom over all executions.", "§3 C09"),
 "C10": ("other", "sibling affine extents of layout vs raw views, guard dominance, overflow obligations, truncating-cast inventory, reaching-definition rule on the start of the final last-row scan (not a constant), extents matched by element type when the carve-up is restructured, no panic call reachable from the reject edge of setup",
         "Decides: slab view extents equal layout extents; the four slab guards dominate the unsafe carve-up; u16 score arithmetic obligations; truncating casts behind their guards; MatrixLayout values only from MatrixLayout::new; no matcher state besides config and slab (a configuration-derived cache is a violation). The reject edge of the matrix set-up in fuzzy_match_optimal reaches `return None` without an explicit panic (only that edge; other assert/unwrap sites are not enumerated). Not totality/history independence in general.", "§3 C10 Also: the final scan over current_row does not start at a constant column (cells below the last row's first written column are leftovers of earlier calls)."),
 "C11": ("other", "loop-exit / iterator-pipeline rule on Drop and Bucket::dealloc, who-may-call dealloc, control dependence of drops on active, unwind-graph order of callback vs move",
         "Decides: Drop visits every bucket and dealloc every entry (for-loop or adaptor-chain form); who may free; drops gated on the active flag; value moved into the slot only after the fallible callback; no leak primitives. Not exactly-once over all histories.", "§3 C11"),
 "C12": ("other", "post-dominance in restart, guard set of Snapshot::update, derived per-stream field reset completeness; when tick is re-architected: path traces of the flattened tick (protocol rules per path + equality with the reference tree's traces)",
         "Decides: restart installs a fresh vector + Cleared + cancel; stale-run guard dominates Snapshot::update; worker stream switch dominates the spawn; run(cleared) resets every per-stream field; clear/update write every snapshot field.", "§3 C12 If the tick/tick_inner structure is gone the tick clauses are decided on the enumerated paths of the flattened tick; differences that no protocol rule classifies are INCONCLUSIVE."),
 "C13": ("other", "post-dominance of notify, must-pass-through flag check on run exits, typestate dataflow of the worker-mutex guard (through Option wrapping and helpers) for arming stores; when tick is re-architected: path traces of the flattened tick (protocol rules per path + equality with the reference tree's traces)",
         "Decides the pairing discipline of the wake-up protocol and that the callback handed to worker and injectors is the user's (a wrapper must forward on every path), and that only tick_inner / restart / Drop cancel a run; one genuine defect (lost wake-up) is a recorded known finding. Not liveness over schedules.", "§3 C13 If the tick/tick_inner structure is gone the tick clauses are decided on the enumerated paths of the flattened tick; differences that no protocol rule classifies are INCONCLUSIVE."),
 "C14": ("other", "decision-table extraction of Atom::parse evaluated on a complete finite abstraction of its input; finite transducer of the escape loop vs the ASCII replace; decision table of the word splitter; iterator-pipeline twins of parse/reparse, splitter input is the pattern text itself",
         "Decides: the marker grammar of Atom::parse (text, kind, negative, append_dollar for every input, via a witness domain that is complete for the bounded inspection depth); the word splitter's table; that the ASCII and the non-ASCII half of Atom::new_inner unescape identically (`\\ ` → space, other backslashes kept); parse/reparse run the same pipeline on every call (no return in front of it except on equality of the raw text); Pattern::new never reaches the marker parser; flag sources for smart case; is_upper_case / to_lower_case are the fold-table lookup. Smart-case/normalization decisions over all strings are not decided.", "§3 C14"),
 "C15": ("other", "dominance of config stores, exhaustive dispatch-table extraction, negation shape, sum/propagate CFG shape, stable sort callee; INCONCLUSIVE when the scoring is re-architected (no dispatch on the receiver's own kind), sources of a None result",
         "Decides the compositional shape: per-atom config stores dominate every matcher call and are the only writes to the matcher's configuration; kind→function tables exhaustive and agreeing; negation; ?-propagation; total, position-preserving iteration over atoms / zipped columns; match_list drops an item only on the score's None; stable sort with Reverse(score).", "§3 C15 Also: a None result of the pattern scorers is always an inner None verdict."),
 "C16": ("proof", "table algebra over const-evaluated tables for all 1,112,064 scalars x 4 configurations + dispatch extraction from decision paths + fold-lookup semantics (found / not found)",
         "Exhaustive over a finite domain: the four tables are read from the compiler's const evaluator, the dispatch intervals and the fold lookup from MIR decision paths; sortedness, idempotence, ASCII fixed points, block confinement, NFKD and simple-case-folding oracles are checked for every scalar; every haystack-character comparison in the matcher is routed through the one normalizer.", "§3 C16"),
 "C17": ("other", "who-may-call + control dependence of constructors on has_ascii_graphemes, accessor sibling agreement, manifest rule on the segmentation feature",
         "Narrow claim: every constructor decides by has_ascii_graphemes and fills by chars::graphemes, which hands the whole text to the segmenter; CR LF special case; accessors agree on both variants. Grapheme segmentation itself is library behaviour.", "§3 C17 Also: the two Cargo.toml build the matcher with grapheme segmentation for users of nucleo."),
 "C18": ("translation_validation", "per-function token equality with vendored rayon 1.10.0 quicksort.rs modulo an enumerated cancellation delta; MIR taint of the cancel result",
         "par_sort.rs is shown to be the vetted reference algorithm function by function, plus a separately checked cancellation delta (result tainted only by the flag; cancel points only between partition steps in safe code; comparator chain is the documented total order).", "§3 C18"),
 "C19": ("other", "control dependence + same-value rules in the tick call tree, tick as a boolean function of its phases per decision path, Snapshot::update guard/order discipline; when tick is re-architected: path traces of the flattened tick (protocol rules per path + equality with the reference tree's traces)",
         "Decides: every snapshot mutation in tick is guarded by the value returned as changed; changed ⊇ OR of the phases, running ⊇ the last phase's on every return path; running is the value that guards the spawn; failed-lock exit returns running:true; update guards and was_canceled discipline; Snapshot::update copies every field on every path; only tick_inner / restart / Drop raise `canceled`; hand-written clone_from copies every field; status lattice shape. Not the item accounting under concurrency.", "§3 C19 If the tick/tick_inner structure is gone the tick clauses are decided on the enumerated paths of the flattened tick; differences that no protocol rule classifies are INCONCLUSIVE."),
 "C20": ("other", "holder inventory (fields and by-value closure captures), enum decision table of matcher_item_refs, per-path polynomial of active_injectors, who-writes on state transitions, restart installs a fresh stream; per-state polynomial identity of the flattened active_injectors when the table is folded in; INCONCLUSIVE when the State enum is redesigned, no Clone on stream holders other than Injector",
         "Decides the accounting argument of the subtraction: the Arc holders, three subtracted terms on every path, matcher_item_refs table = 1 + [worker points at current stream], transitions that justify it.", "§3 C20"),
}

NOT_APPLICABLE = {
 "C07": "Convergence of the tick/worker protocol over all edit/tick/restart histories and schedules, plus semantic monotonicity of the append shortcut between two parses: not a shape-of-code fact; deciding it needs state-space exploration or input enumeration (other families). The structural facts about the same code are claimed under C06/C12/C19.",
}

def built(prop):
    return os.path.exists(os.path.join(VERIF, "rules", "props", prop.lower() + ".py"))

def main():
    checks = []
    na = [{"property_id": k, "reason": v} for k, v in NOT_APPLICABLE.items()]
    for prop in sorted(CLAIMS):
        level, tech, text, ref = CLAIMS[prop]
        if not built(prop):
            na.append({"property_id": prop, "reason": "check not built yet in this revision of /verif (planned: %s)" % tech})
            continue
        checks.append({
            "property_id": prop,
            "quick_cmd": "./check %s --tier quick" % prop,
            "thorough_cmd": "./check %s --tier thorough" % prop,
            "evidence_file": "evidence/%s.json" % prop,
            "replay_cmd_template": "./check %s --replay {path}" % prop,
            "engine": "nfacts+rules" + ("+refdiff" if prop == "C18" else ""),
            "level_claimed": {"category": level, "text": text, "design_ref": "DESIGN.md " + ref},
            "level_note": "Trusted base: rustc nightly front end (MIR construction, const evaluation), the fact extractor /verif/driver, the Python rule evaluator, oracle data in /verif/ref. Static analysis only: no nucleo code is executed. Structural necessary conditions, not the behaviour as a whole (each evidence file lists what is undecided).",
            "technique": "static analysis: " + tech,
        })
    m = {
        "version": 1,
        "setup_cmd": "./setup.sh",
        "hooks": {
            "guard": "nucleo_verif",
            "enable": "none needed: the static checks read /repo's source through a rustc_private driver injected with RUSTC_WORKSPACE_WRAPPER; no instrumentation is compiled into nucleo",
            "baseline_off_cmd": "cd /repo && cargo test --workspace --no-fail-fast --offline",
            "source_commits": [],
            "add_only": True,
        },
        "engines": [
            {"name": "nfacts", "path": "driver/", "serves_properties": sorted(k for k in CLAIMS if built(k)), "kind_free_text": "rustc_private fact extractor: MIR (opt-level 0) with resolved callees, const-evaluated items, ADT/impl inventory, unsafe-block spans"},
            {"name": "rules", "path": "rules/", "serves_properties": sorted(k for k in CLAIMS if built(k)), "kind_free_text": "Python rule evaluator: CFG, dominance, reachability-with-removal, def-use expression trees, affine forms; one module per property"},
            {"name": "refdiff", "path": "rules/refdiff.py", "serves_properties": ["C18"], "kind_free_text": "token-level per-function comparison of par_sort.rs with vendored rayon 1.10.0 quicksort.rs modulo an enumerated delta"},
            {"name": "witness", "path": "witness/", "serves_properties": ["C06", "C09", "C11"], "kind_free_text": "compile_fail / no_run doctest pairs (type-level clauses), thorough tier"},
        ],
        "checks": checks,
        "not_applicable": na,
        "notes": "All checks are static: they inspect /repo's current working tree on every run (fact base cached by content hash of the tree under /verif/.cache). Exit 0 = all structural clauses hold (known findings printed as KNOWN-FINDING); exit 1 + VIOLATION line = a clause is broken at a named site; exit 2 + INCONCLUSIVE = the analysis could not decide (tree does not compile, anchor moved) and makes no claim either way.",
    }
    with open(os.path.join(VERIF, "MANIFEST.json"), "w") as f:
        json.dump(m, f, indent=1)
        f.write("\n")
    print("MANIFEST.json: %d checks, %d not_applicable" % (len(checks), len(na)))

if __name__ == "__main__":
    main()

"""C15 — pattern scores compose as a conjunction of atoms with negation (shape facts)."""
from cfg import Inconclusive, op_place, show, walk, strip_casts
from common import (calls_to, callee, closure_creations, closure_consumer, field_chain, fn_of, get_fn, peel, site,
                    guards_of, ret_aggregates, field_assigns, is_diverging)
from props.c11 import for_loops

from common import iter_pipeline, closure_tree, resolve_capture

PROP = "C15"
LEVEL = "other"
UNDECIDED = [
    "nothing essential beyond the correctness of the individual Matcher functions (C01–C05): this property is almost entirely shape",
]
ASSUMPTIONS = [
    "slice::sort_by_key is stable (std contract); Iterator::filter_map / zip visit elements in order",
]
M = "nucleo_matcher"
KINDS = ["Fuzzy", "Substring", "Prefix", "Postfix", "Exact"]
MATCHER_FN = {"Fuzzy": "fuzzy", "Substring": "substring", "Prefix": "prefix", "Postfix": "postfix", "Exact": "exact"}


def atom_helpers(facts):
    """Bodies of `impl Atom` that reach a Matcher method (directly or through other helpers):
    {path: set of Matcher callee names reachable}"""
    reach = {}
    bodies = {b["path"]: fn_of(b) for b in facts.bodies_of(M) if b["path"].startswith("pattern::Atom::") and b["kind"] != "Closure"}
    for p, fn in bodies.items():
        reach[p] = set(callee(t) for bi, t in fn.calls(lambda t: callee(t).startswith("Matcher::")))
    changed = True
    while changed:
        changed = False
        for p, fn in bodies.items():
            for bi, t in fn.calls(lambda t: callee(t) in bodies and callee(t) != p):
                add = reach[callee(t)] - reach[p]
                if add:
                    reach[p] |= add
                    changed = True
    return bodies, reach


def rule_config_before_call(ctx):
    facts = ctx.facts
    bodies, reach = atom_helpers(facts)
    total = 0
    entry = ("pattern::Atom::score", "pattern::Atom::indices")
    for name in entry:
        fn = get_fn(facts, M, name)
        stores = {}
        for fld in ("ignore_case", "normalize"):
            for bi, si, s in field_assigns(fn, fld, "config::Config"):
                if si == "term":
                    continue
                src = fn.expr_of_rvalue(s["rv"])
                base, names = field_chain(src)
                tgt = fn.expr_of_place({"l": s["lhs"]["l"], "p": s["lhs"]["p"][:-1]})
                if names == [fld] and base[0] == "arg" and base[1] == 1 and any(x[0] == "field" and x[2] == "config" for x in walk(tgt)):
                    stores.setdefault(fld, []).append((bi, si))
                else:
                    ctx.violation("%s|config.%s|source" % (name, fld), site(fn, bi, si), "matcher.config.%s is set from %s instead of the atom's own %s" % (fld, show(src), fld))
        calls = [(bi, t) for bi, t in fn.calls(lambda t: callee(t).startswith("Matcher::") or (callee(t) in reach and reach[callee(t)] and callee(t) not in entry))]
        for bi, t in calls:
            total += 1
            # every path to the call passes a store of each field (one store dominating it, or one per branch)
            missing = [f for f in ("ignore_case", "normalize") if f not in stores or not fn.must_pass(bi, via_nodes=[b_ for b_, _ in stores[f] if b_ != bi])]
            what = callee(t) if callee(t).startswith("Matcher::") else "%s (which runs %s)" % (callee(t), sorted(reach[callee(t)])[0])
            if missing:
                ctx.violation("%s|config-before|%s" % (name, callee(t).rsplit("::", 1)[1]), site(fn, bi),
                              "%s is called before matcher.config.%s was set from this atom: the result depends on the atom that ran before on the shared matcher" % (what, "/".join(missing)))
            else:
                ctx.ok(site(fn, bi), "config.ignore_case and config.normalize are set from the atom before %s" % callee(t).rsplit("::", 1)[1])
    # helpers that run the matcher are private and only called from score / indices (or each other)
    for p in reach:
        if p in entry or not reach[p]:
            continue
        if p in ("pattern::Atom::match_list",):
            continue
        for fn2, bi2, t2 in calls_to(facts, M, lambda t, p=p: callee(t) == p):
            root = fn2.b.get("root", fn2.path)
            if root in entry or (root in reach and root != p):
                continue
            ctx.violation("%s|helper-caller|%s" % (p, root), site(fn2, bi2), "%s runs Matcher methods without setting the per-atom config and is called from %s" % (p, root))
    ctx.floor("Matcher-reaching calls in Atom::score / Atom::indices", total, 2)


def dispatch_tables(fn):
    """Tables {kind: callee} for every `match self.kind` in the body: [(switch_bb, {variant: callee}, guards)]."""
    out = []
    for bi in sorted(fn.live):
        t = fn.blocks[bi]["term"]
        if t["k"] != "switch":
            continue
        e = fn.expr_of_operand(t["discr"])
        if not (e[0] == "discr" and "AtomKind" in str(e[2])):
            continue
        # only `match self.kind` (a dispatch on the atom's stored kind), not e.g. the kind computations of the parser
        src = peel(e[1])
        while src[0] in ("ref", "deref"):
            src = peel(src[1])
        if not (src[0] == "field" and src[2] == "kind"):
            continue
        table = {}
        for v, bb in t["arms"]:
            cs = [(cb, ct) for cb, ct in fn.calls(lambda t: callee(t).startswith("Matcher::")) if fn.must_pass(cb, via_edges=[(bi, bb)]) and cb in fn.reach_from(bb)]
            table[v] = [(callee(ct), ct, cb) for cb, ct in cs]
        out.append((bi, table))
    return out


def rule_dispatch_tables(ctx):
    facts = ctx.facts
    ak = facts.adt(M, "pattern::AtomKind")
    discr = {v["discr"]: v["name"] for v in ak["variants"]}
    if sorted(discr.values()) != sorted(KINDS):
        ctx.fail_closed("AtomKind variants changed: %s" % discr)
        return
    bodies, reach = atom_helpers(facts)
    found = 0
    table_suffix = {}   # body path -> set of suffixes of its tables
    for p, fn in bodies.items():
        for sb, table in dispatch_tables(fn):
            found += 1
            suffixes = set()
            for d, kind in sorted(discr.items()):
                ent = table.get(d, [])
                key = "%s|dispatch|%s" % (p, kind)
                if len(ent) != 1:
                    ctx.violation(key, site(fn, sb), "AtomKind::%s arm calls %s (expected exactly one Matcher::%s_match / _indices)" % (kind, [x[0] for x in ent], MATCHER_FN[kind]))
                    continue
                c, ct, cb = ent[0]
                suffix = "_indices" if c.endswith("_indices") else "_match"
                suffixes.add(suffix)
                want = "Matcher::%s%s" % (MATCHER_FN[kind], suffix)
                a_h = peel(fn.expr_of_operand(ct["args"][1]))
                a_n = fn.expr_of_operand(ct["args"][2])
                okargs = a_h[0] == "arg" and a_n[0] == "call" and str(a_n[1]).endswith("Utf32String::slice") and field_chain(a_n[2][0])[1] == ["needle"]
                if suffix == "_indices":
                    a_i = peel(fn.expr_of_operand(ct["args"][3]))
                    okargs = okargs and a_i[0] == "arg" and "Vec<u32>" in fn.b["locals"][a_i[1]]["ty"]
                if c == want and okargs:
                    ctx.ok(site(fn, cb), "AtomKind::%s → %s(haystack, self.needle%s)" % (kind, want.split("::")[1], ", indices" if suffix == "_indices" else ""))
                elif c != want:
                    ctx.violation(key, site(fn, cb), "AtomKind::%s is dispatched to %s instead of %s" % (kind, c, want))
                else:
                    ctx.violation(key + "|args", site(fn, cb), "%s called with (%s, %s) instead of (haystack, self.needle.slice(..))" % (c, show(a_h)[:40], show(a_n)[:60]))
            if len(suffixes) > 1:
                ctx.violation("%s|dispatch|mixed" % p, site(fn, sb), "one kind dispatch mixes score-only and indices variants: %s" % sorted(suffixes))
            table_suffix.setdefault(p, set()).update(suffixes)
    ctx.floor("kind dispatch tables", found, 2)
    # Atom::score reaches only *_match; Atom::indices: negated => only *_match, positive => *_indices
    sc_reach = reach.get("pattern::Atom::score", set())
    if any(c.endswith("_indices") for c in sc_reach):
        ctx.violation("pattern::Atom::score|dispatch|indices", "pattern::Atom::score", "Atom::score reaches an *_indices matcher function")
    elif sc_reach:
        ctx.ok("pattern::Atom::score", "score-only dispatch for all five kinds")
    ind = get_fn(facts, M, "pattern::Atom::indices")
    for bi in sorted(ind.live):
        t = ind.blocks[bi]["term"]
        if t["k"] == "switch":
            e = ind.expr_of_operand(t["discr"])
            if e[0] == "field" and e[2] == "negative":
                for edge_t, label in ((t["otherwise"], "negated"), ([b_ for v, b_ in t["arms"] if v == 0][0], "positive")):
                    region = [b_ for b_ in ind.reach_from(edge_t) if ind.must_pass(b_, via_edges=[(bi, edge_t)])]
                    reached = set()
                    for x in region:
                        tt = ind.blocks[x]["term"]
                        if tt["k"] == "call":
                            c = callee(tt)
                            if c.startswith("Matcher::"):
                                reached.add(c)
                            elif c in reach:
                                reached |= reach[c]
                    has_idx = any(c.endswith("_indices") for c in reached)
                    if label == "negated" and has_idx:
                        ctx.violation("pattern::Atom::indices|dispatch|negated-indices", site(ind, bi), "a negated atom reaches %s: negated atoms must append nothing" % sorted(c for c in reached if c.endswith("_indices")))
                    elif label == "positive" and not has_idx:
                        ctx.violation("pattern::Atom::indices|dispatch|positive-no-indices", site(ind, bi), "a positive atom in indices() never calls an *_indices matcher function")
                    elif reached:
                        ctx.ok(site(ind, bi), "%s atoms in indices() use %s" % (label, "*_indices" if has_idx else "*_match"))


def negation_shape(fn, region):
    """Within `region` (blocks that run only for a negated atom) the result must be:
    inner Some => None, inner None => Some(0). Accepts the if/else form, a match on the inner
    option, or `inner.is_none().then_some(0)`. Returns (ok, detail)."""
    some_none = none_some0 = False
    # locals that only carry the result to the return place (`_0 = move r`; the return slot of a folded-in helper)
    carriers = {0}
    for _ in range(3):
        for x in sorted(fn.live):
            for s in fn.blocks[x]["stmts"]:
                if s["k"] == "assign" and s["lhs"]["l"] in carriers and not s["lhs"]["p"] and isinstance(s["rv"].get("use"), dict):
                    pl = s["rv"]["use"].get("move") or s["rv"]["use"].get("copy")
                    if pl is not None and not pl["p"] and len(fn.defs.get(pl["l"], [])) > 1:
                        carriers.add(pl["l"])
    for x in region:
        blk = fn.blocks[x]
        t = blk["term"]
        if t["k"] == "call" and t["dest"]["l"] == 0 and callee(t).endswith("::then_some"):
            r = fn.expr_of_operand(t["args"][0])
            v = fn.expr_of_operand(t["args"][1])
            if r[0] == "call" and str(r[1]).endswith("::is_none") and v[0] == "const" and v[1] == 0:
                return True, "inner.is_none().then_some(0)"
            return False, "then_some(%s) on %s" % (show(v), show(r)[:60])
        for s in blk["stmts"]:
            if not (s["k"] == "assign" and s["lhs"]["l"] in carriers and not s["lhs"]["p"]):
                continue
            e = fn.expr_of_rvalue(s["rv"])
            if e[0] == "local" and e[1] in carriers:
                continue            # hand-over of the result between carriers
            inner_some = None
            for g in guards_of(fn, x):
                ge = g[3]
                if ge[0] == "call" and str(ge[1]).endswith("::is_some"):
                    inner_some = g[2] in ([None], [1])
                elif ge[0] == "call" and str(ge[1]).endswith("::is_none"):
                    inner_some = not (g[2] in ([None], [1]))
                elif ge[0] == "discr" and "Option" in str(ge[2]):
                    inner_some = g[2] == [1]
            if e[0] == "agg" and e[1].endswith("Option::None") and inner_some is True:
                some_none = True
            elif e[0] == "agg" and e[1].endswith("Option::Some") and inner_some is False and list(e[2].values())[0][0] == "const" and list(e[2].values())[0][1] == 0:
                none_some0 = True
            else:
                return False, "returns %s when the inner match is %s" % (show(e)[:60], {True: "Some", False: "None", None: "undetermined"}[inner_some])
    if some_none and none_some0:
        return True, "Some ⇒ None, None ⇒ Some(0)"
    return False, "Some⇒None %s, None⇒Some(0) %s" % (some_none, none_some0)


def rule_negation(ctx):
    facts = ctx.facts
    sc = get_fn(facts, M, "pattern::Atom::score")
    sw = None
    for bi in sorted(sc.live):
        t = sc.blocks[bi]["term"]
        if t["k"] == "switch":
            e = sc.expr_of_operand(t["discr"])
            if e[0] == "field" and e[2] == "negative":
                sw = (bi, t)
    if sw is None:
        ctx.violation("pattern::Atom::score|negation|0", site(sc, 0), "Atom::score ignores self.negative")
    else:
        bi, t = sw
        tt = t["otherwise"]
        ft = [b_ for v, b_ in t["arms"] if v == 0][0]
        pos_ok = False
        for x in [b_ for b_ in sc.reach_from(ft) if sc.must_pass(b_, via_edges=[(bi, ft)])]:
            for s in sc.blocks[x]["stmts"]:
                if s["k"] == "assign" and s["lhs"]["l"] == 0 and not s["lhs"]["p"]:
                    e = sc.expr_of_rvalue(s["rv"])
                    if e[0] == "local" or e[0] == "call":
                        pos_ok = True
        region = [b_ for b_ in sc.reach_from(tt) if sc.must_pass(b_, via_edges=[(bi, tt)])]
        okn, detail = negation_shape(sc, region)
        if pos_ok and okn:
            ctx.ok(site(sc, bi), "positive atom: inner result unchanged; negated atom: %s" % detail)
        else:
            ctx.violation("pattern::Atom::score|negation|1", site(sc, bi), "negation shape broken (positive passthrough %s; negated: %s)" % (pos_ok, detail))
    ind = get_fn(facts, M, "pattern::Atom::indices")
    found = False
    for bi in sorted(ind.live):
        t = ind.blocks[bi]["term"]
        if t["k"] == "switch":
            e = ind.expr_of_operand(t["discr"])
            if e[0] == "field" and e[2] == "negative":
                found = True
                tt = t["otherwise"]
                region = [b_ for b_ in ind.reach_from(tt) if ind.must_pass(b_, via_edges=[(bi, tt)])]
                bad = [callee(ind.blocks[x]["term"]) for x in region if ind.blocks[x]["term"]["k"] == "call" and callee(ind.blocks[x]["term"]).endswith("_indices")]
                okv, detail = negation_shape(ind, region)
                if bad:
                    ctx.violation("pattern::Atom::indices|negation|indices", site(ind, bi), "a negated atom calls %s: negated atoms must append nothing" % bad)
                elif okv:
                    ctx.ok(site(ind, bi), "negated atom in indices(): score-only call, result %s, nothing appended" % detail)
                else:
                    ctx.violation("pattern::Atom::indices|negation|value", site(ind, bi), "negated atom result is wrong: %s" % detail)
    if not found:
        ctx.violation("pattern::Atom::indices|negation|0", site(ind, 0), "Atom::indices ignores self.negative")


def _is_inner_payload(e, callee_name, depth=0):
    """`e` is the Some-payload of one call of the inner scorer (through `?`, unwrap-free projections, lossless widening):
    nothing is added to, subtracted from or substituted for the inner score."""
    e = strip_casts(e)
    if depth > 12 or not isinstance(e, tuple) or not e:
        return False
    if e[0] in ("field", "downcast", "ref", "deref"):
        return _is_inner_payload(e[1], callee_name, depth + 1)
    if e[0] == "cast":
        return _is_inner_payload(e[2], callee_name, depth + 1)
    if e[0] == "call":
        nm = str(e[1])
        if nm == callee_name or str(e[3] if len(e) > 3 else "").endswith(callee_name):
            return True
        short = nm.rsplit("::", 1)[-1]
        if nm.endswith("Try>::branch") or (short == "from" and "From<" in nm) or (short == "into" and "Into<" in nm) or nm.endswith("From::from") or nm.endswith("Into::into"):
            return _is_inner_payload(e[2][0], callee_name, depth + 1)
    return False


def _with_captures(cf, e, depth=0):
    """Replace reads of a closure's captured variables by the captured expression of the parent body."""
    if not isinstance(e, tuple) or not e or depth > 20:
        return e
    if e[0] == "field" and cf.b.get("kind") == "Closure":
        b = e[1]
        while isinstance(b, tuple) and b and b[0] in ("ref", "deref"):
            b = b[1]
        if isinstance(b, tuple) and b and b[0] == "arg" and b[1] == 1:
            rc = resolve_capture(cf, e[2])
            if rc is not None:
                v = rc[1]
                while isinstance(v, tuple) and v and v[0] in ("ref",):
                    v = v[1]
                return v
    return tuple(_with_captures(cf, x, depth + 1) if isinstance(x, tuple) else x for x in e)


def _inner_call(e, callee_name):
    return [x for x in walk(e) if x[0] == "call" and x[1] == callee_name]


def check_sum_chain(ctx, fn, callee_name, label, needs_empty_exit):
    """The same conjunction written with iterator adaptors:
         iter.map(|x| inner(x).map(u32::from)).sum::<Option<u32>>()      (Sum for Option stops at the first None)
         iter.try_fold(0, |total, x| Some(total + widen(inner(x)?)))
    No stage may skip, reorder or cut off elements."""
    from cfg import decision_paths
    crate = fn.b["crate"]
    key0 = "%s|sum" % fn.path
    sinks = [(bi, t) for bi, t in fn.calls(lambda t: any(str(t.get("fn")).endswith(x) for x in ("Iterator::sum", "Iterator::try_fold")))]
    for bi, t in sinks:
        stages = iter_pipeline(fn, t)
        kind = str(t.get("fn")).rsplit("::", 1)[-1]
        bad_stage = [st[0] for st in stages[1:] if st[0].startswith(("truncating:", "unknown:", "subset:")) or st[0] == "total:rev"]
        if kind == "sum":
            if "Option<u32>" not in str(t.get("fn_args", "")).rsplit(",", 1)[-1]:
                continue
            maps = [st for st in stages if st[0] == "total:map" and st[1]]
            if len(maps) != 1:
                continue
            cf = get_fn(ctx.facts, crate, maps[0][1])
            ps = decision_paths(cf)
            oke = len(ps) == 1 and ps[0][1] is not None
            if oke:
                r = ps[0][1]
                inner = _inner_call(r, callee_name)
                # inner(..) itself, or inner(..).map(u32::from): None stays None, Some(v) becomes Some(v widened)
                def widening(m):
                    """u32::from / `|s| s as u32` / `|s| u32::from(s)` / `|s| s.into()`: the identity on the score"""
                    if m[0] == "fnitem":
                        return str(m[1]).endswith("From::from") or str(m[1]).endswith("::into")
                    if m[0] == "closure":
                        mf = get_fn(ctx.facts, crate, m[1])
                        try:
                            mp_ = decision_paths(mf)
                        except Exception:
                            return False
                        if len(mp_) != 1 or mp_[0][0] or mp_[0][1] is None:
                            return False
                        v = strip_casts(mp_[0][1])
                        while v[0] == "call" and (str(v[1]).endswith("From::from") or str(v[1]).endswith("From<T>>::from") or str(v[1]).endswith("::into")):
                            v = strip_casts(v[2][0])
                        return v[0] == "arg" and v[1] == 2
                    return False
                good = len(inner) == 1 and (r == inner[0] or (r[0] == "call" and str(r[1]).endswith("Option::<T>::map") and r[2][0] == inner[0] and widening(r[2][1])))
            if not oke and len(ps) == 2:
                # `inner(..).map(widen)` written (or normalised) as a match: None => None, Some(v) => Some(widen(v))
                okk = True
                for conds_, r_ in ps:
                    if r_ is None or len(conds_) != 1 or conds_[0][0][0] != "discr":
                        okk = False
                        break
                    ic_ = _inner_call(conds_[0][0][1], callee_name)
                    if len(ic_) != 1:
                        okk = False
                        break
                    val_ = conds_[0][1]
                    if r_[0] == "agg" and str(r_[1]).endswith("Option::None") and val_ == 0:
                        continue
                    if r_[0] == "agg" and str(r_[1]).endswith("Option::Some") and val_ in (1, None):
                        v_ = strip_casts(r_[2].get("0", ("?",)))
                        while v_[0] == "call" and (str(v_[1]).endswith("From::from") or str(v_[1]).endswith("From<T>>::from") or str(v_[1]).endswith("::into")):
                            v_ = strip_casts(v_[2][0])
                        if v_[0] == "field" and v_[2] == "0" and v_[1][0] == "downcast" and strip_casts(v_[1][1]) == ic_[0]:
                            continue
                    okk = False
                    break
                oke, good = okk, okk
            if not oke or not good:
                ctx.violation(key0 + "|accumulator", site(fn, bi), "%s: the mapped value is not the inner Option score (widened): %s" % (label, show(ps[0][1])[:120] if ps else "?"))
                return True
            site_cf, cb = cf, cf.calls(lambda t: callee(t) == callee_name).__next__()[0]
        else:
            init = fn.expr_of_operand(t["args"][1])
            clo = fn.expr_of_operand(t["args"][2])
            if clo[0] != "closure":
                continue
            cf = get_fn(ctx.facts, crate, clo[1])
            if not list(cf.calls(lambda t: callee(t) == callee_name)):
                continue
            ps = decision_paths(cf)
            some_ok = none_ok = False
            for conds, res in ps:
                if res is None:
                    continue
                if res[0] == "agg" and str(res[1]).endswith("Option::Some"):
                    v = res[2].get("0")
                    # total + widen(payload of inner's Some)
                    vs = strip_casts(v)
                    if vs[0] in ("bin", "checked") and vs[1] == "Add":
                        ops = [strip_casts(vs[2]), strip_casts(vs[3])]
                        tot = [o for o in ops if o[0] == "arg" and o[1] == 2]
                        oth = [o for o in ops if not (o[0] == "arg" and o[1] == 2)]
                        if len(tot) == 1 and len(oth) == 1 and _is_inner_payload(oth[0], callee_name):
                            some_ok = True
                elif (res[0] == "call" and str(res[1]).endswith("from_residual")) or (res[0] == "agg" and str(res[1]).endswith("Option::None")):
                    none_ok = True
                else:
                    some_ok = False
                    break
            if not (init[0] == "const" and init[1] == 0) or not some_ok or not none_ok:
                ctx.violation(key0 + "|accumulator", site(fn, bi), "%s: try_fold does not start at 0 / add the widened inner score / propagate None (init %s, Some-path ok %s, None-path ok %s)" % (label, show(init), some_ok, none_ok))
                return True
            site_cf, cb = cf, list(cf.calls(lambda t: callee(t) == callee_name))[0][0]
        if bad_stage:
            ctx.violation(key0 + "|early-exit", site(fn, bi), "%s: stage `%s` of the iterator chain can skip, reorder or cut off atoms/columns" % (label, bad_stage[0]))
            return True
        # the chain's value is what the function returns
        rets = [fn.expr_of_rvalue(rv) for _, _, rv in ret_aggregates(fn)]
        dest0 = t["dest"]["l"] == 0 and not t["dest"]["p"]
        if not dest0 and not any(r[0] == "call" and r[4] == (bi, t["dest"]["l"]) for r in rets):
            ctx.violation(key0 + "|accumulator", site(fn, bi), "%s: the summed value is not what is returned" % label)
            return True
        ctx.ok(site(site_cf, cb), "%s: an inner None propagates to a None result with no further matching (%s)" % (label, kind))
        ctx.ok(site(site_cf, cb), "%s: score = 0 + Σ inner scores (u32), returned in Some (%s over %s)" % (label, kind, " → ".join(st[0] for st in stages)))
        if needs_empty_exit:
            em = [(b2, t2) for b2, t2 in fn.calls(lambda t: callee(t).endswith("::is_empty"))]
            if em:
                ctx.ok(site(fn, em[0][0]), "%s: empty pattern shortcut present" % label)
        return True
    return False


def _check_sum_mapped_loop(ctx, fn, callee_name, label, loops):
    """`for verdict in xs.iter().map(|x| inner(x)) { total += widen(verdict?) } Some(total)`: the inner call sits in the
    map closure, the loop consumes the Option values (a conjunction helper taking an iterator of verdicts)."""
    from cfg import decision_paths
    crate = fn.b["crate"]
    key0 = "%s|sum" % fn.path
    for h, body, nxt in loops:
        if nxt is None:
            continue
        nt = fn.blocks[nxt[0]]["term"]
        stages = iter_pipeline(fn, nt, 0)
        maps = [st for st in stages if st[0] == "total:map" and st[1]]
        if len(maps) != 1:
            continue
        cf = get_fn(ctx.facts, crate, maps[0][1])
        if not list(cf.calls(lambda t: callee(t) == callee_name)):
            continue
        ps = decision_paths(cf)
        if len(ps) != 1 or ps[0][1] is None:
            continue
        r = ps[0][1]
        inner = _inner_call(r, callee_name)
        if not (len(inner) == 1 and (r == inner[0] or (r[0] == "call" and str(r[1]).endswith("Option::<T>::map") and r[2][0] == inner[0]))):
            ctx.violation(key0 + "|accumulator", site(cf, 0), "%s: the mapped value is not the inner Option score: %s" % (label, show(r)[:100]))
            return True
        bad_stage = [st[0] for st in stages[1:] if st[0].startswith(("truncating:", "unknown:", "subset:")) or st[0] == "total:rev"]
        if bad_stage:
            ctx.violation(key0 + "|early-exit", site(fn, nxt[0]), "%s: stage `%s` of the iterator chain can skip, reorder or cut off atoms/columns" % (label, bad_stage[0]))
            return True
        nid = (nxt[0], nt["dest"]["l"])
        # `?` on the yielded verdict, None propagated
        brs = [bi for bi in body if fn.blocks[bi]["term"]["k"] == "call" and callee(fn.blocks[bi]["term"]).endswith("Try>::branch")
               and any(x[0] == "call" and len(x) > 4 and x[4] == nid for x in walk(fn.expr_of_operand(fn.blocks[bi]["term"]["args"][0])))]
        resid = [bi for bi, t in fn.calls(lambda t: callee(t).endswith("from_residual"))]
        if not brs or not resid:
            ctx.violation(key0 + "|propagate", site(fn, nxt[0]), "a failing atom/column does not make %s return None" % label)
            return True
        # accumulator
        acc = None
        for bi in sorted(body):
            tt = fn.blocks[bi]["term"]
            if tt["k"] == "assert" and tt.get("kind") == "Overflow" and tt["op"] == "Add" and tt["ty"] == "u32":
                a, b_ = fn.expr_of_operand(tt["a"]), fn.expr_of_operand(tt["b"])
                for acc_e, add_e in ((a, b_), (b_, a)):
                    if acc_e[0] == "local" and _is_branch_payload(add_e, nid):
                        acc = acc_e[1]
        if acc is None:
            ctx.violation(key0 + "|accumulator", site(fn, nxt[0]), "%s: the yielded scores are not summed into a u32 accumulator" % label)
            return True
        inits = [e for dbi, dsi, e in fn.def_exprs(acc) if dbi not in body]
        ret_some = any(rv.get("agg") == "adt" and rv.get("variant") == "Some" and fn.expr_of_operand(rv["ops"][0])[0] == "local" and fn.expr_of_operand(rv["ops"][0])[1] == acc
                       for bi, si, rv in ret_aggregates(fn))
        if not ret_some:
            # the Some(total) may be built into the return slot of a folded-in helper first
            for bi_, si_, s_ in fn.stmts(lambda s_: s_["k"] == "assign" and s_["rv"].get("agg") == "adt" and s_["rv"].get("variant") == "Some"):
                e_ = fn.expr_of_operand(s_["rv"]["ops"][0])
                if e_[0] == "local" and e_[1] == acc and bi_ not in body:
                    ret_some = True
        if not (inits and all(e[0] == "const" and e[1] == 0 for e in inits) and ret_some):
            ctx.violation(key0 + "|accumulator", site(fn, nxt[0]), "%s: accumulator does not start at 0 / is not what is returned" % label)
            return True
        exits = fn.loop_exits((h, body, None))
        for a_, b2 in exits:
            if (a_ == nxt[1] and b2 == nxt[2]) or is_diverging(fn, b2):
                continue
            if fn.all_paths_to_return_pass(b2, via_nodes=resid):
                continue
            ctx.violation(key0 + "|early-exit", site(fn, a_), "%s leaves its loop early without returning None: later atoms/columns are ignored" % label)
            return True
        ctx.ok(site(fn, nxt[0]), "%s: an inner None propagates to a None result with no further matching (loop over mapped verdicts)" % label)
        ctx.ok(site(fn, nxt[0]), "%s: score = 0 + Σ inner scores (u32), returned in Some (loop over %s)" % (label, " → ".join(st[0] for st in stages)))
        return True
    return False


def _is_branch_payload(e, nid, depth=0):
    """the `?`-payload of the value the loop's iterator yielded (through lossless widening)"""
    e = strip_casts(e)
    if depth > 14 or not isinstance(e, tuple) or not e:
        return False
    if e[0] in ("field", "downcast", "ref", "deref"):
        return _is_branch_payload(e[1], nid, depth + 1)
    if e[0] == "cast":
        return _is_branch_payload(e[2], nid, depth + 1)
    if e[0] == "call":
        nm = str(e[1])
        short = nm.rsplit("::", 1)[-1]
        if len(e) > 4 and e[4] == nid:
            return True
        if nm.endswith("Try>::branch") or (short == "from" and "From<" in nm) or (short == "into" and "Into<" in nm) or nm.endswith("From::from"):
            return _is_branch_payload(e[2][0], nid, depth + 1)
    return False


def check_sum_loop(ctx, fn, callee_name, label, needs_empty_exit):
    key0 = "%s|sum" % fn.path
    loops = for_loops(fn)
    target = None
    for h, body, nxt in loops:
        if any(bi in body for bi, t in fn.calls(lambda t: callee(t) == callee_name)):
            target = (h, body, nxt)
    if target is None or target[2] is None:
        if check_sum_chain(ctx, fn, callee_name, label, needs_empty_exit):
            return
        if _check_sum_mapped_loop(ctx, fn, callee_name, label, loops):
            return
        ctx.violation(key0 + "|loop", site(fn, 0), "%s does not iterate over its atoms/columns calling %s" % (label, callee_name))
        return
    h, body, nxt = target
    cb = [bi for bi, t in fn.calls(lambda t: callee(t) == callee_name) if bi in body][0]
    ct = fn.blocks[cb]["term"]
    # inner None leaves the loop to a return of None without further matcher calls
    # (`?`: branch() -> switch -> from_residual)
    resid = [bi for bi, t in fn.calls(lambda t: callee(t).endswith("from_residual"))]
    none_lit = [bi for bi, si, rv in ret_aggregates(fn) if rv.get("agg") == "adt" and rv.get("variant") == "None"]
    exits_none = resid + none_lit
    if not exits_none:
        ctx.violation(key0 + "|propagate", site(fn, cb), "a failing atom/column does not make %s return None" % label)
    else:
        okp = True
        for x in exits_none:
            if any(callee(fn.blocks[y]["term"]) == callee_name for y in fn.reach_from(x) if fn.blocks[y]["term"]["k"] == "call" and y != x):
                okp = False
        # the None exit is control dependent on the inner result's discriminant
        if okp:
            ctx.ok(site(fn, cb), "%s: an inner None propagates to a None result with no further matching" % label)
        else:
            ctx.violation(key0 + "|propagate", site(fn, cb), "matching continues after an inner None")
    # accumulator: starts at 0, Add of widened inner score, returned in Some
    acc_ok = False
    acc = None
    for bi in sorted(body):
        tt = fn.blocks[bi]["term"]
        if tt["k"] == "assert" and tt.get("kind") == "Overflow" and tt["op"] == "Add" and tt["ty"] == "u32":
            a = fn.expr_of_operand(tt["a"])
            b = fn.expr_of_operand(tt["b"])
            if a[0] == "local":
                acc = a[1]
                src_ok = any(x[0] == "call" and x[1] == callee_name for x in walk(b))
                if src_ok:
                    acc_ok = True
    if acc is not None and acc_ok:
        inits = [e for dbi, dsi, e in fn.def_exprs(acc) if dbi not in body]
        ret_some = False
        for bi, si, rv in ret_aggregates(fn):
            if rv.get("agg") == "adt" and rv.get("variant") == "Some":
                e = fn.expr_of_operand(rv["ops"][0])
                if e[0] == "local" and e[1] == acc:
                    ret_some = True
        if inits and all(e[0] == "const" and e[1] == 0 for e in inits) and ret_some:
            ctx.ok(site(fn, cb), "%s: score = 0 + Σ inner scores (u32), returned in Some" % label)
        else:
            ctx.violation(key0 + "|accumulator", site(fn, cb), "%s: accumulator does not start at 0 / is not what is returned" % label)
    else:
        ctx.violation(key0 + "|accumulator", site(fn, cb), "%s: the inner scores are not summed into a u32 accumulator" % label)
    # loop exits: exhaustion or the None propagation only
    exits = fn.loop_exits((h, body, None))
    for a, b in exits:
        if a == nxt[1] and b == nxt[2]:
            continue
        r = fn.reach_from(b)
        if any(x in r for x in exits_none) and not any(callee(fn.blocks[y]["term"]) == callee_name for y in r if fn.blocks[y]["term"]["k"] == "call"):
            # does this exit always end in a None?
            if fn.all_paths_to_return_pass(b, via_nodes=exits_none):
                continue
        if is_diverging(fn, b):
            continue
        ctx.violation(key0 + "|early-exit", site(fn, a), "%s leaves its loop early without returning None: later atoms/columns are ignored" % label)
    if needs_empty_exit:
        em = [(bi, t) for bi, t in fn.calls(lambda t: callee(t).endswith("::is_empty"))]
        ok_e = False
        for bi, t in em:
            sw = fn.blocks[t["target"]]["term"]
            if sw["k"] == "switch":
                tt = sw["otherwise"]
                for x in fn.reach_from(tt):
                    for s in fn.blocks[x]["stmts"]:
                        if s["k"] == "assign" and s["lhs"]["l"] == 0 and s["rv"].get("variant") == "Some":
                            e = fn.expr_of_operand(s["rv"]["ops"][0])
                            if e[0] == "const" and e[1] == 0 and fn.must_pass(x, via_edges=[(t["target"], tt)]):
                                ok_e = True
        # an empty list also yields Some(0) through the general path; both are fine
        ctx.ok(site(fn, 0), "%s: empty pattern ⇒ Some(0)%s" % (label, "" if ok_e else " (through the general path)"))


def _side_stages(fn, term, arg_index):
    """Stages of one iterator operand that are not position preserving and total (a filter, skip, rev, ... on one side
    of a zip or in front of the loop changes which element is paired with / reaches which)."""
    out = []
    for st in iter_pipeline(fn, term, arg_index):
        k = st[0]
        if k == "source" or k in ("zip", "zip-unbounded"):
            continue
        if k.startswith("total:") and k != "total:rev":
            continue
        if k.startswith("unknown:") and k.split(":", 1)[1] in ("arg", "local", "field", "ref", "deref", "index", "subslice"):
            continue            # a plain place used as the iterable
        out.append(k.split(":", 1)[-1])
    return out


def _bad_stages(fn, iter_terms):
    out = []
    for t in iter_terms:
        out += _side_stages(fn, t, 0)
    return out


def rule_sum_and_propagate(ctx):
    facts = ctx.facts
    ps = get_fn(facts, M, "pattern::Pattern::score")
    check_sum_loop(ctx, ps, "pattern::Atom::score", "Pattern::score", True)
    pi = get_fn(facts, M, "pattern::Pattern::indices")
    check_sum_loop(ctx, pi, "pattern::Atom::indices", "Pattern::indices", True)
    # Pattern::indices passes the caller's vector to each atom
    for bi, t in pi.calls(lambda t: callee(t) == "pattern::Atom::indices"):
        a = peel(pi.expr_of_operand(t["args"][3]))
        if a[0] == "arg" and a[2] == "indices":
            ctx.ok(site(pi, bi), "each atom appends to the caller's vector, in atom order")
        else:
            ctx.violation("pattern::Pattern::indices|vector|1", site(pi, bi), "atoms are given %s instead of the caller's indices vector" % show(a))
    # iteration over self.atoms in order
    for fn, fld in ((ps, "atoms"), (pi, "atoms")):
        its = [t for bi, t in fn.calls(lambda t: callee(t).endswith("IntoIterator::into_iter") or callee(t).endswith("::into_iter") or callee(t).endswith("[T]>::iter"))]
        okf = any(any(x[0] == "field" and x[2] == fld for x in walk(fn.expr_of_operand(t["args"][0]))) for t in its)
        rev = any(callee(t).endswith("Iterator::rev") for bi, t in fn.calls())
        bad = _bad_stages(fn, [t for t in its if any(x[0] == "field" and x[2] == fld for x in walk(fn.expr_of_operand(t["args"][0])))])
        if bad:
            ctx.violation("%s|iteration|2" % fn.path, site(fn, 0), "stage `%s` between self.%s and the loop can skip, reorder or cut off atoms" % (bad[0], fld))
        elif okf and not rev:
            ctx.ok(site(fn, 0), "iterates self.%s front to back" % fld)
        else:
            ctx.violation("%s|iteration|1" % fn.path, site(fn, 0), "does not iterate over self.%s in order" % fld)
    mp = get_fn(facts, "nucleo", "pattern::MultiPattern::score")
    check_sum_loop(ctx, mp, "nucleo_matcher::pattern::Pattern::score", "MultiPattern::score", False)
    z = [(bi, t) for bi, t in mp.calls(lambda t: callee(t).endswith("Iterator::zip"))]
    if z:
        a = mp.expr_of_operand(z[0][1]["args"][0])
        b = mp.expr_of_operand(z[0][1]["args"][1])
        bad = [st for side in (0, 1) for st in _side_stages(mp, z[0][1], side)]
        if bad:
            ctx.violation("pattern::MultiPattern::score|zip|2", site(mp, z[0][0]), "stage `%s` on one side of the zip shifts the pairing of column patterns and column haystacks" % bad[0])
        elif any(x[0] == "field" and x[2] == "cols" for x in walk(a)) and peel(b)[0] == "arg" and peel(b)[2] == "haystack":
            ctx.ok(site(mp, z[0][0]), "column i's pattern is matched against column i's haystack (zip of self.cols with the item's columns)")
        else:
            ctx.violation("pattern::MultiPattern::score|zip|1", site(mp, z[0][0]), "columns are paired as zip(%s, %s)" % (show(a)[:50], show(b)[:50]))
    else:
        # explicit indexing: pattern = self.cols[i].0, haystack = columns[i] with the SAME index
        okidx = False
        bodies = closure_tree(facts, "nucleo", mp.path)
        for f_, bi, t in [(f_, bi, t) for f_ in bodies for bi, t in f_.calls(lambda t: callee(t) == "nucleo_matcher::pattern::Pattern::score")]:
            recv = _with_captures(f_, f_.expr_of_operand(t["args"][0]))
            hay = _with_captures(f_, f_.expr_of_operand(t["args"][1]))
            idx_r = [x for x in walk(recv) if x[0] == "index" or (x[0] == "call" and str(x[1]).endswith("::index"))]
            idx_h = [x for x in walk(hay) if x[0] == "index" or (x[0] == "call" and str(x[1]).endswith("::index"))]

            def index_of(x):
                return strip_casts(x[2] if x[0] == "index" else x[2][1])

            def base_has(x, pred):
                return any(pred(y) for y in walk(x[1] if x[0] == "index" else x[2][0]))
            if idx_r and idx_h:
                same = index_of(idx_r[0]) == index_of(idx_h[0])
                cols_ok = base_has(idx_r[0], lambda y: y[0] == "field" and y[2] == "cols")
                hay_ok = base_has(idx_h[0], lambda y: y[0] == "arg" and y[1] == 2)
                okidx = same and cols_ok and hay_ok
        # the index must run over all columns: a range 0..n with n = cols.len(), the item's column count or their minimum
        rng_bad = None
        for f_ in bodies:
            for bi, t in f_.calls(lambda t: any(str(t.get("fn")).endswith(x) for x in ("Iterator::try_fold", "Iterator::sum", "Iterator::try_for_each", "IntoIterator::into_iter", "Iterator::map"))):
                e0 = strip_casts(f_.expr_of_operand(t["args"][0]))
                while e0[0] in ("ref", "deref"):
                    e0 = strip_casts(e0[1])
                if e0[0] == "agg" and str(e0[1]).endswith("Range::Range") and isinstance(e0[2], dict):
                    st_, en_ = strip_casts(e0[2].get("start", ("?",))), e0[2].get("end", ("?",))
                    lens = [x for x in walk(en_) if x[0] == "call" and str(x[1]).endswith("::len")]
                    only_len = all(x[0] in ("call", "ref", "deref", "field", "arg", "cast", "local") for x in walk(en_)) and \
                        all(str(x[1]).endswith(("::len", "::min", "Deref>::deref")) or str(x[1]).endswith("cmp::min") for x in walk(en_) if x[0] == "call")
                    if tuple(st_[:2]) != ("const", 0):
                        rng_bad = "the column index starts at %s" % show(st_)[:40]
                    elif not lens or not only_len:
                        rng_bad = "the column index runs to %s, not to the number of columns" % show(en_)[:60]
        if okidx and rng_bad:
            ctx.violation("pattern::MultiPattern::score|zip|range", site(mp, 0), "MultiPattern::score: %s" % rng_bad)
        elif okidx:
            ctx.ok(site(mp, 0), "column i's pattern is matched against column i's haystack (same index into self.cols and the item's columns)")
        else:
            ctx.violation("pattern::MultiPattern::score|zip|0", site(mp, 0), "MultiPattern::score does not zip column patterns with column haystacks")


def rule_match_list_filter(ctx):
    """match_list keeps exactly the items the pattern matches: an item leaves the list only because `score` said None
    for it.  Every None of the filtering closure is control dependent on the score call's result (or is the score's
    own None passed through Option::map); a pre-filter on lengths / bytes / a cache is a second, different matcher."""
    from cfg import decision_paths
    facts = ctx.facts
    n = 0
    for name, inner in (("pattern::Atom::match_list", "pattern::Atom::score"), ("pattern::Pattern::match_list", "pattern::Pattern::score")):
        fn = get_fn(facts, M, name)
        subs = []
        for bi, t in fn.calls(lambda t: str(t.get("fn")).endswith("Iterator::collect") or callee(t).endswith("::extend")):
            for st in iter_pipeline(fn, t, 0 if str(t.get("fn")).endswith("Iterator::collect") else 1):
                if st[0].startswith(("subset:", "truncating:")):
                    subs.append((fn, bi, st[0].split(":", 1)[1], st[1]))
        # explicit loops that push are handled as one more "closure": the function body itself
        if not subs:
            subs = [(fn, 0, "loop", None)]
        for f_, bi, kind, cpath in subs:
            n += 1
            key = "%s|filter|%d" % (name, n)
            if kind == "loop":
                # a loop that pushes (item, score): every push is control dependent on the inner score being Some and
                # on nothing else that depends on the item; the loop runs over all items (no adaptor that skips)
                pushes = [(pb, pt) for pb, pt in f_.calls(lambda t: callee(t).endswith("Vec::<T, A>::push"))]
                inner_calls = [(cb, ct) for cb, ct in f_.calls(lambda t: callee(t) == inner)]
                if not pushes or not inner_calls:
                    raise Inconclusive("%s: neither an iterator pipeline nor a push loop over the score" % name)
                okl = True
                why = ""
                for pb, pt in pushes:
                    gs = guards_of(f_, pb)
                    dep = [g for g in gs if g[3][0] == "discr" and _inner_call(g[3], inner) and g[2] == [1]]
                    other = [g for g in gs if not (g[3][0] == "discr" and (_inner_call(g[3], inner) or any(x[0] == "call" and str(x[1]).endswith("::next") for x in walk(g[3]))))
                             and not (g[3][0] == "call" and str(g[3][1]).endswith("::is_empty"))]
                    if not dep:
                        okl, why = False, "an item is pushed without looking at the score"
                    elif other:
                        okl, why = False, "whether an item is kept also depends on %s" % show(other[0][3])[:60]
                its = [t for b_, t in f_.calls(lambda t: callee(t).endswith("IntoIterator::into_iter") or callee(t).endswith("::into_iter"))]
                for t_ in its:
                    if _bad_stages(f_, [t_]):
                        okl, why = False, "the items pass through `%s` before they are scored" % _bad_stages(f_, [t_])[0]
                if okl:
                    ctx.ok(site(f_, pushes[0][0]), "%s: an item is pushed exactly when %s returns Some" % (name.rsplit("::", 2)[-2] + "::match_list", inner.rsplit("::", 2)[-2] + "::score"))
                else:
                    ctx.violation(key, site(f_, pushes[0][0]), "%s: %s" % (name, why))
                continue
            if kind not in ("filter_map",) or cpath is None:
                ctx.violation(key, site(f_, bi), "%s selects items with `%s` instead of the score: items are dropped for another reason than `no match`" % (name, kind))
                continue
            cf = get_fn(facts, M, cpath)
            bad = None
            for conds, res in decision_paths(cf):
                if res is None:
                    continue
                r = strip_casts(res)
                if r[0] == "call" and str(r[1]).endswith("Option::<T>::map") and _inner_call(r[2][0], inner) and strip_casts(r[2][0])[0] == "call" and str(strip_casts(r[2][0])[1]) == inner:
                    continue            # score(..).map(|s| (item, s)): None iff score is None
                if r[0] == "agg" and str(r[1]).endswith("Option::Some"):
                    continue
                is_none = (r[0] == "agg" and str(r[1]).endswith("Option::None")) or (r[0] == "call" and str(r[1]).endswith("from_residual"))
                if is_none:
                    dep = any(d[0] == "discr" and _inner_call(d, inner) and (chosen in (0, 1)) for d, chosen, allv in conds)
                    if not dep:
                        bad = "; ".join("%s = %s" % (show(d)[:60], chosen) for d, chosen, allv in conds) or "unconditionally"
                        break
                    continue
                raise Inconclusive("%s: filter closure result %s" % (name, show(r)[:100]))
            if bad:
                ctx.violation(key, site(cf, 0), "%s drops an item without asking %s (when %s): items that the pattern matches can be missing from the list" % (name, inner.rsplit("::", 2)[-2] + "::score", bad))
            else:
                ctx.ok(site(cf, 0), "%s: an item is dropped only when %s returns None" % (name.rsplit("::", 2)[-2] + "::match_list", inner.rsplit("::", 2)[-2] + "::score"))
    ctx.floor("item filters of the match_list functions", n, 2)


def rule_stable_sort(ctx):
    facts = ctx.facts
    for name in ("pattern::Atom::match_list", "pattern::Pattern::match_list"):
        fn = get_fn(facts, M, name)
        sorts = [(bi, t) for bi, t in fn.calls(lambda t: "::sort" in callee(t))]
        if len(sorts) != 1:
            ctx.violation("%s|sort|count" % name, site(fn, 0), "expected exactly one sort, found %s" % [callee(t) for _, t in sorts])
            continue
        bi, t = sorts[0]
        c = callee(t)
        if "unstable" in c:
            ctx.violation("%s|sort|stability" % name, site(fn, bi), "match_list sorts with %s: equal scores may be reordered (the order of equal-score inputs must be preserved)" % c.rsplit("::", 1)[1])
            continue
        if c.endswith("::sort_by"):
            # stable sort with a comparator: must order by descending score = cmp(rhs.score, lhs.score)
            clo = fn.expr_of_operand(t["args"][1])
            okc = False
            if clo[0] == "closure":
                from cfg import decision_paths
                cf = get_fn(facts, M, clo[1])
                ps_ = decision_paths(cf)
                if len(ps_) == 1 and ps_[0][1] is not None:
                    r = ps_[0][1]
                    if r[0] == "call" and str(r[1]).endswith("::cmp") and len(r[2]) == 2:
                        def side(x):
                            """(which closure argument, is its score component)"""
                            x = peel(x)
                            sc = False
                            while x[0] in ("ref", "deref", "field", "cast"):
                                if x[0] == "field" and x[2] == "1":
                                    sc = True
                                x = peel(x[2] if x[0] == "cast" else x[1])
                            return (x[1] if x[0] == "arg" else None), sc
                        (a0, s0), (a1, s1) = side(r[2][0]), side(r[2][1])
                        okc = s0 and s1 and a0 == 3 and a1 == 2
            if okc:
                ctx.ok(site(fn, bi), "stable sort_by with comparator rhs.score.cmp(lhs.score) (descending score)")
            else:
                ctx.violation("%s|sort|key" % name, site(fn, bi), "sort comparator is not `rhs.score.cmp(&lhs.score)` (descending score)")
            clo = None
        elif not c.endswith("::sort_by_key"):
            ctx.violation("%s|sort|callee" % name, site(fn, bi), "match_list sorts with %s; expected a stable sort by descending score" % c)
            continue
        else:
            clo = fn.expr_of_operand(t["args"][1])
        okk = clo is None
        if clo is not None and clo[0] == "closure":
            cf = get_fn(facts, M, clo[1])
            r = ret_aggregates(cf)
            if len(r) == 1:
                e = cf.expr_of_rvalue(r[0][2])
                if e[0] == "agg" and e[1].endswith("Reverse::Reverse"):
                    inner = list(e[2].values())[0]
                    if any(x[0] == "field" and x[2] == "1" for x in walk(inner)):
                        okk = True
        if okk and clo is not None:
            ctx.ok(site(fn, bi), "stable sort_by_key with key Reverse(score)")
        elif not okk:
            ctx.violation("%s|sort|key" % name, site(fn, bi), "sort key is not Reverse(score of the tuple)")
        # filter_map over score(..) keeps the item itself
        fm = [(b_, t_) for b_, t_ in fn.calls(lambda t: callee(t).endswith("Iterator::filter_map"))]
        if fm:
            ctx.ok(site(fn, fm[0][0]), "list built by filter_map over score(..)")
        # (how the list is filled -- filter_map, a loop with push -- is judged by C15.match-list-filter)
        # empty shortcut returns every input with 0
        em = [(b_, t_) for b_, t_ in fn.calls(lambda t: callee(t).endswith("::is_empty"))]
        if em:
            ctx.ok(site(fn, em[0][0]), "empty pattern shortcut present")
    # the filter_map closure pairs the item with its own score
    for name in ("pattern::Atom::match_list::{closure#1}", "pattern::Pattern::match_list::{closure#1}"):
        b = facts.body(M, name)
        if b is None:
            continue
        cf = fn_of(b)
        sc = [(bi, t) for bi, t in cf.calls(lambda t: callee(t).endswith("::score"))]
        if sc:
            ctx.ok(site(cf, sc[0][0]), "each input is scored once with self.score")


def rule_columns(ctx):
    facts = ctx.facts
    rs = get_fn(facts, "nucleo", "Nucleo::<T>::restart")
    ok_ = any(callee(t) == "boxcar::Vec::<T>::columns" for bi, t in rs.calls())
    if ok_:
        ctx.ok(site(rs, 0), "column count is carried across restarts (zip never silently drops a column)")
    else:
        ctx.violation("Nucleo::<T>::restart|columns|1", site(rs, 0), "restart does not keep the column count")
    ctx.note("MultiPattern::score zips pattern columns with the haystack slice: a shorter haystack silently drops columns (API precondition: columns fixed at construction)")


def rule_config_writes(ctx):
    """A pattern's score is the sum of its atoms' scores only if nothing but the documented per-atom stores (ignore_case, normalize in Atom::score / Atom::indices) changes the shared matcher's configuration while atoms are evaluated (shared with C10.config-only-state)."""
    from props.c10 import rule_config_only_state as r
    r(ctx)


def rule_none_sources(ctx):
    """A pattern rejects a haystack exactly when one of its atoms does: in Pattern::score / Pattern::indices (and
    MultiPattern::score over the column patterns) a None result is the None of an inner verdict -- the `?` (or its
    written-out form) behind a call of the inner scorer, in the function itself or in a closure / helper folded into it.
    A None returned on any other condition (an empty haystack, a length test) rejects inputs that a pattern of negated
    atoms accepts with score 0."""
    facts = ctx.facts
    n = 0
    for crate, name, inner in ((M, "pattern::Pattern::score", "pattern::Atom::score"), (M, "pattern::Pattern::indices", "pattern::Atom::indices"),
                               ("nucleo", "pattern::MultiPattern::score", "nucleo_matcher::pattern::Pattern::score")):
        fn = get_fn(facts, crate, name)
        bodies = [fn] + [fn_of(b) for b in facts.bodies_of(crate) if b.get("kind") == "Closure" and str(b.get("root")) == name]
        for f2 in bodies:
            for bi, si, s_ in f2.stmts(lambda s_: s_["k"] == "assign" and s_["rv"].get("agg") == "adt" and str(s_["rv"].get("adt", "")).endswith("option::Option") and s_["rv"].get("variant") == "None"):
                # only Nones that become the function's result
                if not (s_["lhs"]["l"] == 0 and not s_["lhs"]["p"]) and f2 is fn:
                    tgt = s_["lhs"]["l"]
                    if not any(isinstance(rv.get("use"), dict) and (rv["use"].get("move") or rv["use"].get("copy") or {}).get("l") == tgt for _, _, k_, rv in fn.defs.get(0, []) if k_ == "assign" and isinstance(rv, dict)):
                        continue
                elif f2 is not fn and not (s_["lhs"]["l"] == 0 and not s_["lhs"]["p"]):
                    continue
                n += 1
                gs = guards_of(f2, bi)
                from_inner = False
                for g in gs:
                    for x in walk(g[3]):
                        if x[0] == "call" and (str(x[1]) == inner or str(x[1]).endswith("Try>::branch") or str(x[1]).endswith("::is_none") or str(x[1]).endswith("::is_some")):
                            if str(x[1]) == inner or any(y[0] == "call" and str(y[1]) == inner for y in walk(x)):
                                from_inner = True
                if from_inner:
                    ctx.ok(site(f2, bi, si), "None result behind an inner None verdict")
                else:
                    conds = "; ".join(show(g[3])[:60] for g in gs[-2:]) or "unconditionally"
                    ctx.violation("%s|none-source|1" % name, site(f2, bi, si), "%s answers None on a condition that is not an atom's verdict (%s): a haystack that every atom accepts -- an empty one under a pattern "
                                  "of negated atoms -- is rejected, and score / indices / match_list disagree" % (name.split("::", 1)[1], conds))
    if n == 0:
        ctx.ok("pattern.rs", "no explicit None result in the pattern scorers: rejection only through `?` on the inner verdicts")


def rules(ctx):
    ctx.run_rule("C15.config-writes", rule_config_writes)
    ctx.run_rule("C15.config-before-call", rule_config_before_call)
    ctx.run_rule("C15.dispatch-tables", rule_dispatch_tables)
    ctx.run_rule("C15.negation", rule_negation)
    ctx.run_rule("C15.sum-and-propagate", rule_sum_and_propagate)
    ctx.run_rule("C15.none-sources", rule_none_sources)
    ctx.run_rule("C15.stable-sort", rule_stable_sort)
    ctx.run_rule("C15.match-list-filter", rule_match_list_filter)
    ctx.run_rule("C15.columns", rule_columns)

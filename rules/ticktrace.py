"""Path traces of the flattened `Nucleo::tick` (fallback for the tick-protocol rules when the two-pass
tick / tick_inner(canceled: bool) structure has been re-architected).

`tick` is made one loop-free body: every private method of Nucleo / State it calls is spliced in at its call sites
(helpers new to the inventory already were).  All entry->return paths are enumerated with flow-sensitive evaluation of
assignments (cfg.decision_paths, trace mode); each path yields (scenario, events):
  scenario = the truth values the path assumes for input atoms (state at entry, pattern status, lock outcome, worker
             fields as first read, item counts)
  events   = the protocol-relevant effects in order (atomic stores, lock/unlock, worker and matcher field stores,
             Snapshot::update, pattern hand-over, spawn with the arguments of Worker::run, the returned Status)
Nothing is executed: the traces are read off the MIR control-flow graph."""
import copy
import json
import os

from cfg import Fn, Inconclusive, decision_paths, show, walk, strip_casts
import inline

VERIF = os.path.dirname(os.path.dirname(os.path.abspath(__file__)))
TICK = "Nucleo::<T>::tick"


def flatten(facts, path=TICK):
    tick = facts.body("nucleo", path)
    if tick is None:
        raise Inconclusive("%s not found" % path)
    b = copy.deepcopy(tick)
    b["path"] = path + "#flat"
    budget = 40
    bi = 0
    while bi < len(b["blocks"]):
        t = b["blocks"][bi]["term"]
        if t["k"] == "call":
            c = t.get("resolved") or t.get("fn") or ""
            if (c.startswith("Nucleo::<T>::") or c.startswith("State::")) and c != path:
                cb = facts.body("nucleo", c)
                if cb is not None and budget > 0:
                    budget -= 1
                    inline.splice(b, bi, copy.deepcopy(cb))
        bi += 1
    return Fn(b)


def raw_paths(facts, limit=6000, path=TICK):
    fn = flatten(facts, path)
    return fn, decision_paths(fn, limit=limit, with_trace=True, closure_bodies=lambda p: facts.body("nucleo", p))


# ------------------------------------------------------------------ canonical paths

PURE = ("Deref>::deref", "DerefMut>::deref_mut", "::deref", "::deref_mut", "Clone>::clone", "::clone", "::count", "::item_count", "Duration::from_millis", "MultiPattern::status",
        "PartialEq::ne", "PartialEq::eq", "::eq", "::ne", "::is_some", "::is_none", "::into", "::from", "::as_ref", "::as_mut", "::borrow", "::borrow_mut", "Try>::branch",
        "FromResidual>::from_residual", "::then", "::ok_or", "::ok", "::unwrap_or", "::is_empty", "::len", "Status::then", "BitOr>::bitor", "BitOrAssign>::bitor_assign",
        "::max", "::min", "Ord>::cmp", "::ptr_eq", "::strong_count", "::then_some", "PartialOrd>::gt", "PartialOrd>::lt", "PartialOrd>::ge", "PartialOrd>::le", "Duration::from_secs", "Default>::default")


def _short(name):
    s = str(name)
    s = s.replace("parking_lot::lock_api::", "").replace("std::sync::atomic::", "").replace("std::", "").replace("core::", "")
    return s


class Infeasible(Exception):
    pass


class PathCanon:
    def __init__(self, facts, fn, conds, result, trace, variants):
        self.facts_db = facts
        self.fn = fn
        self.trace = trace
        self.variants = variants          # enum path -> [variant names by discriminant]
        self.stores = []                  # (event index, place, value)
        self.locks = {}                   # call id -> ordinal (1-based)
        self.callvals = {}                # call id -> value (mem::take / replace)
        self.callphase = {}               # call id -> number of lock events before the call
        self.known = {}                   # atom -> value (int) ; for enums: frozenset of possible variant names
        self.events = []
        self._run()
        self.result = self.canon(result)
        self.events.append(("ret", self.result))

    # -------------------------------------------------------------- expressions
    def resolve(self, P, ver):
        val = None
        for i, p, v in self.stores:
            if i < ver and p == P:
                val = v
        return val if val is not None else ("init", P)

    def canon(self, e, as_place=False):
        if not isinstance(e, tuple) or not e:
            return e
        e = strip_casts(e)
        k = e[0]
        if k == "rd":
            P = self.canon(e[1], as_place=True)
            if as_place:
                return P
            if P and P[0] in ("self", "W", "field"):
                return self.resolve(P, e[2])
            return P
        if k in ("ref", "deref"):
            return self.canon(e[1], as_place)
        if k == "arg":
            return ("self",) if e[1] == 1 else ("param", e[2])
        if k in ("local", "free"):
            return ("local", e[2] or e[1])
        if k == "field":
            inner = e[1]
            # (x as Some).0 of a try-lock result is the guard
            if isinstance(inner, tuple) and inner and inner[0] == "downcast":
                base = self.canon(inner[1])
                if base and base[0] == "trylock" and str(inner[2]) == "Some":
                    return ("G", base[1])
                return ("field", ("downcast", base, str(inner[2])), e[2])
            base = self.canon(inner, as_place=True)
            if base == ("self",):
                P = ("self", e[2])
            elif base and base[0] == "G":
                P = ("W", base[1], e[2])
            elif base and base[0] == "agg" and e[2] in dict(base[2]):
                return dict(base[2])[e[2]]
            else:
                P = ("field", base, e[2])
            return P
        if k == "downcast":
            return ("downcast", self.canon(e[1]), str(e[2]))
        if k == "const":
            v = e[1]
            if isinstance(v, bool):
                v = int(v)
            if isinstance(v, str) and e[3]:
                return ("const", "%s::%s" % (str(e[3]).rsplit("::", 1)[-1], v))
            return ("const", v)
        if k == "constx":
            return ("const", str(e[1]))
        if k == "agg":
            name = str(e[1])
            fields = tuple(sorted((n, self.canon(v)) for n, v in e[2].items()))
            if not fields:
                head, _, var = name.rpartition("::")
                return ("const", "%s::%s" % (head.rsplit("::", 1)[-1], var))
            return ("agg", "::".join(name.split("::")[-2:]), fields)
        if k == "upd":
            return ("upd", self.canon(e[1]), tuple(sorted((n, self.canon(v)) for n, v in e[2].items())))
        if k == "tuple":
            return ("tuple", tuple(self.canon(x) for x in e[1]))
        if k == "closure":
            return ("closure", e[1], tuple(sorted((n, self.canon(v)) for n, v in e[2].items())))
        if k == "bin":
            return simp(("bin", e[1], self.canon(e[2]), self.canon(e[3])))
        if k == "checked":
            return simp(("bin", e[1], self.canon(e[2]), self.canon(e[3])))
        if k == "un":
            return simp(("un", e[1], self.canon(e[2])))
        if k == "discr":
            return ("discr", self.canon(e[1]))
        if k == "call":
            cid = e[4] if len(e) > 4 else None
            name = _short(e[1])
            if cid in self.callvals:
                return self.callvals[cid]
            if cid in self.locks:
                return ("G", self.locks[cid]) if name.endswith("::lock_arc") or name.endswith("::lock") else ("trylock", self.locks[cid])
            if any(name.endswith(x) for x in ("Deref>::deref", "DerefMut>::deref_mut", "::as_ref", "::as_mut", "::borrow", "::borrow_mut")):
                return self.canon(e[2][0], as_place)
            args = tuple(self.canon(a) for a in e[2])
            if (name.endswith("::ne") or name.endswith("::eq")) and len(args) == 2:
                return simp(("bin", "Ne" if name.endswith("ne") else "Eq", args[0], args[1]))
            if (name.endswith("::is_some") or name.endswith("::is_none")) and len(args) == 1:
                return fold_std(("optis", args[0], "Some" if name.endswith("is_some") else "None"))
            if name.endswith("::unwrap_or") and len(args) == 2:
                return fold_std(("call", "unwrap_or", args, 0))
            if name.endswith("Clone>::clone") or name.endswith("::clone"):
                return ("clone", args[0])
            if "<bool as " in name and name.endswith("Default>::default"):
                return ("const", 0)
            if name.endswith("Duration::from_millis"):
                return ("millis", args[0])
            ph = self.callphase.get(cid, 0)
            return ("call", name.rsplit("::", 1)[-1] if not name.startswith("<") else name, args, ph)
        if k == "index":
            return ("index", self.canon(e[1]), self.canon(e[2]))
        if k == "call_mut":
            return self.canon(e[2], as_place)
        return ("x", show(e)[:60])

    # -------------------------------------------------------------- facts about the path's inputs
    def assume(self, d, val, allv):
        """The path takes the branch `d == val` (val None: none of allv)."""
        if val is None and d[0] in ("bin", "un", "init", "call") and not (d[0] == "call" and d[1] == "status"):
            others = [v for v in (0, 1) if v not in allv]
            if len(others) == 1 and d[0] != "discr":
                val = others[0]
        if d[0] == "const":
            v = d[1]
            if isinstance(v, str):
                return      # enum constant tested against discriminants: not modelled
            if (val is not None and v != val) or (val is None and v in allv):
                raise Infeasible()
            return
        if d[0] == "discr":
            x = d[1]
            if x[0] == "const" and isinstance(x[1], str):
                enum, _, var = x[1].rpartition("::")
                names = self._variants_of(enum)
                if names and var in names:
                    idx = names.index(var)
                    if (val is not None and idx != val) or (val is None and idx in allv):
                        raise Infeasible()
                    return
            if x[0] == "agg":
                # Option / Result built on this path
                return
            names = self._variants_for_atom(x)
            if names:
                poss = set(names[v] for v in ([val] if val is not None else [i for i in range(len(names)) if i not in allv]) if v < len(names))
                self._narrow(x, frozenset(poss), frozenset(names))
                return
        if d[0] == "bin" and d[1] in ("Eq", "Ne") and d[3][0] == "const" and isinstance(d[3][1], str) and d[2][0] != "const":
            enum, _, var = d[3][1].rpartition("::")
            names = self._variants_of(enum)
            if names and var in names and val is not None:
                truth = bool(val)
                eq = (d[1] == "Eq") == truth
                poss = {var} if eq else set(names) - {var}
                self._narrow(d[2], frozenset(poss), frozenset(names))
                return
        if d[0] == "un" and d[1] == "Not" and val is not None:
            return self.assume(d[2], 1 - val, allv)
        if d[0] == "optis":
            if val is None:
                others = [v for v in (0, 1) if v not in allv]
                val = others[0] if len(others) == 1 else None
            if val is not None:
                var = d[2] if val else ("None" if d[2] == "Some" else "Some")
                self._narrow(d[1], frozenset([var]), frozenset(["None", "Some"]))
                return
        atom = d
        if val is None:
            others = [v for v in (0, 1) if v not in allv]
            if len(others) != 1:
                return
            val = others[0]
        if atom in self.known and self.known[atom] != val:
            raise Infeasible()
        self.known[atom] = val

    def _narrow(self, atom, poss, universe):
        cur = self.known.get(atom, universe)
        new = cur & poss
        if not new:
            raise Infeasible()
        self.known[atom] = new

    def _variants_of(self, enum_short):
        for p, names in self.variants.items():
            if p.rsplit("::", 1)[-1] == enum_short:
                return names
        return None

    def _variants_for_atom(self, x):
        if x == ("init", ("self", "state")):
            return self._variants_of("State")
        if x[0] == "trylock":
            return ["None", "Some"]
        if x[0] == "call" and x[1] == "status":
            return self._variants_of("Status")
        return None

    # -------------------------------------------------------------- events
    def _run(self):
        nlocks = 0
        for i, ev in enumerate(self.trace):
            if ev[0] == "call":
                name, args, bb, dl = _short(ev[1]), ev[2], ev[3], ev[4]
                cid = (bb, dl)
                self.callphase[cid] = nlocks
                if name.endswith("::store") and "Atomic" in name:
                    P = self.canon(args[0], as_place=True)
                    fld = P[1] if P and P[0] == "self" else show(P)
                    self.events.append(("atomic", fld, self.canon(args[1]), self.canon(args[2])))
                elif name.endswith("::lock_arc") or name.endswith("Mutex::<R, T>::lock"):
                    nlocks += 1
                    self.locks[cid] = nlocks
                    self.events.append(("lock", nlocks))
                elif "::try_lock" in name:
                    nlocks += 1
                    self.locks[cid] = nlocks
                    self.events.append(("trylock", nlocks, self.canon(args[1]) if len(args) > 1 else None))
                elif name.endswith("mem::take") or name.endswith("mem::replace"):
                    P = self.canon(args[0], as_place=True)
                    old = self.resolve(P, i)
                    self.callvals[cid] = old
                    new = self.canon(args[1]) if name.endswith("replace") else ("default",)
                    if new == ("default",) and P and P[-1] in ("running", "was_canceled"):
                        new = ("const", 0)
                    self._store(i, P, new)
                elif name.endswith("Snapshot::<T>::update"):
                    self.events.append(("update", self.canon(args[1])))
                elif name.endswith("Clone>::clone_from") or name.endswith("::clone_from"):
                    self.events.append(("clone_from", self.canon(args[0], as_place=True), self.canon(args[1], as_place=True)))
                elif name.endswith("ThreadPool::spawn"):
                    self.events.append(self._spawn(self.canon(args[1]) if len(args) > 1 else None))
                elif any(name.endswith(x) for x in PURE):
                    pass
                else:
                    self.events.append(("call", name.rsplit("::", 2)[-1] if "::" in name else name, tuple(self.canon(a, as_place=True) for a in args)))
            elif ev[0] == "store":
                P = self.canon(ev[1], as_place=True)
                self._store(i, P, self.canon(ev[2]))
            elif ev[0] == "cond":
                self.assume(self.canon(ev[1]), ev[2], ev[3])
            elif ev[0] == "drop":
                if "MutexGuard" in ev[2]:
                    g = self.canon(ev[1])
                    self.events.append(("unlock", g))

    def _store(self, i, P, V):
        cur = self.resolve(P, i)
        self.stores.append((i, P, V))
        if P and P[0] == "W":
            self.events.append(("wstore", P[1], P[2], V, cur))
        elif P and P[0] == "self":
            self.events.append(("sstore", P[1], V, cur))
        elif P and P[0] == "field" and P[1] and P[1][0] in ("self", "W"):
            self.events.append(("fstore", P, V))

    def _spawn(self, clo):
        if not clo or clo[0] != "closure":
            return ("spawn", ("unknown", clo))
        body = self.facts_db.body("nucleo", clo[1])
        if body is None:
            return ("spawn", ("unknown", clo[1]))
        cfn = Fn(body)
        caps = dict(clo[2])
        runs = [(bi, t) for bi, t in cfn.calls(lambda t: str(t.get("resolved") or t.get("fn")).endswith("Worker::<T>::run"))]
        if len(runs) != 1:
            return ("spawn", ("unknown-body", clo[1], tuple(sorted(caps))))

        def sub(e):
            e = strip_casts(e)
            if not isinstance(e, tuple) or not e:
                return e
            if e[0] in ("ref", "deref"):
                return sub(e[1])
            if e[0] == "field":
                inner = strip_casts(e[1])
                while isinstance(inner, tuple) and inner and inner[0] in ("ref", "deref"):
                    inner = strip_casts(inner[1])
                if isinstance(inner, tuple) and inner and inner[0] == "arg" and e[2] in caps:
                    return caps[e[2]]
                b_ = sub(e[1])
                if isinstance(b_, tuple) and b_ and b_[0] == "agg" and e[2] in dict(b_[2]):
                    return dict(b_[2])[e[2]]
                if e[2] in caps:
                    return caps[e[2]]
                return ("field", b_, e[2])
            if e[0] == "call" and any(str(e[1]).endswith(x) for x in ("Deref>::deref", "DerefMut>::deref_mut")):
                return sub(e[2][0])
            if e[0] == "const":
                return self.canon(e)
            if e[0] == "agg":
                return self.canon(e)
            return ("x", show(e)[:60])
        t = runs[0][1]
        a = [sub(cfn.expr_of_operand(x)) for x in t["args"]]
        return ("spawn", a[0], tuple(a[1:]))


def _opt_variant(x):
    if isinstance(x, tuple) and x:
        if x[0] == "const" and isinstance(x[1], str) and x[1].rsplit("::", 1)[-1] in ("None", "Some", "Ok", "Err"):
            return x[1].rsplit("::", 1)[-1]
        if x[0] == "agg" and x[1].rsplit("::", 1)[-1] in ("None", "Some", "Ok", "Err"):
            return x[1].rsplit("::", 1)[-1]
    return None


def fold_std(e):
    """Option helpers applied to a value whose variant is known."""
    if e[0] == "optis":
        v = _opt_variant(e[1])
        if v is not None:
            return ("const", int(v == e[2]))
        return e
    if e[0] == "call" and e[1] == "unwrap_or" and len(e[2]) == 2:
        v = _opt_variant(e[2][0])
        if v == "Some":
            return dict(e[2][0][2]).get("0", e)
        if v == "None":
            return e[2][1]
    return e


def simp(e):
    """Constant folding of boolean connectives."""
    if e[0] == "un" and e[1] == "Not":
        a = e[2]
        if a[0] == "const" and a[1] in (0, 1):
            return ("const", 1 - a[1])
        if a[0] == "un" and a[1] == "Not":
            return a[2]
        return e
    if e[0] == "bin":
        op, a, b = e[1], e[2], e[3]
        ca = a[1] if a[0] == "const" and a[1] in (0, 1) else None
        cb = b[1] if b[0] == "const" and b[1] in (0, 1) else None
        if op in ("BitOr",):
            if ca == 1 or cb == 1:
                return ("const", 1)
            if ca == 0:
                return b
            if cb == 0:
                return a
            if a == b:
                return a
        if op in ("BitAnd",):
            if ca == 0 or cb == 0:
                return ("const", 0)
            if ca == 1:
                return b
            if cb == 1:
                return a
            if a == b:
                return a
        if op in ("Eq", "Ne") and a[0] == "const" and b[0] == "const":
            return ("const", int((a[1] == b[1]) == (op == "Eq")))
        if op in ("Eq", "Ne") and cb is not None and a[0] != "const":
            # x == true / x != false
            return a if (cb == 1) == (op == "Eq") else simp(("un", "Not", a))
        return ("bin", op, a, b)
    return e


def subst(e, known):
    """Partial evaluation of a canonical expression under the path's assumptions."""
    if not isinstance(e, tuple) or not e:
        return e
    if e in known and isinstance(known[e], int):
        return ("const", known[e])
    if e in known and isinstance(known[e], frozenset) and len(known[e]) == 1:
        if e == ("init", ("self", "state")):
            return ("const", "State::%s" % next(iter(known[e])))
        if e[0] == "call" and e[1] == "status":
            return ("const", "Status::%s" % next(iter(known[e])))
        return e
    if e[0] == "bin":
        a, b = subst(e[2], known), subst(e[3], known)
        if e[1] in ("Eq", "Ne") and b[0] == "const" and isinstance(b[1], str) and a in known and isinstance(known[a], frozenset):
            var = b[1].rpartition("::")[2]
            if var not in known[a]:
                return ("const", int(e[1] == "Ne"))
            if known[a] == frozenset([var]):
                return ("const", int(e[1] == "Eq"))
        return simp(("bin", e[1], a, b))
    if e[0] == "un":
        return simp(("un", e[1], subst(e[2], known)))
    if e[0] == "optis":
        k_ = known.get(e[1])
        if isinstance(k_, frozenset) and len(k_) == 1:
            return ("const", int(next(iter(k_)) == e[2]))
        return fold_std(("optis", subst(e[1], known), e[2]))
    if e[0] == "call" and e[1] == "unwrap_or":
        return fold_std(("call", "unwrap_or", tuple(subst(a, known) for a in e[2]), e[3]))
    if e[0] == "agg":
        return ("agg", e[1], tuple((n, subst(v, known)) for n, v in e[2]))
    if e[0] == "upd":
        return ("upd", subst(e[1], known), tuple((n, subst(v, known)) for n, v in e[2]))
    if e[0] == "tuple":
        return ("tuple", tuple(subst(x, known) for x in e[1]))
    return tuple(subst(x, known) if isinstance(x, tuple) else x for x in e)


def enum_variants(facts):
    out = {}
    for p in ("State", "pattern::Status"):
        a = facts.adt("nucleo", p)
        if a:
            out[p] = [v["name"] for v in sorted(a["variants"], key=lambda v: v["discr"])]
    return out


def canonical_paths(facts, limit=6000, path=TICK):
    """[(known, events)] for every feasible entry->return path of the flattened tick."""
    fn, paths = raw_paths(facts, limit, path)
    variants = enum_variants(facts)
    out = []
    for conds, res, trace in paths:
        try:
            pc = PathCanon(facts, fn, conds, res, trace, variants)
        except Infeasible:
            continue
        out.append((pc.known, pc.events))
    # identical (scenario, events) pairs are one path
    seen = []
    for k, ev in out:
        if (k, ev) not in seen:
            seen.append((k, ev))
    return fn, len(paths), seen


def fmt(x):
    if isinstance(x, frozenset):
        return "{" + ",".join(sorted(x)) + "}"
    if isinstance(x, dict):
        return "{" + ", ".join("%s: %s" % (k, fmt(v)) for k, v in sorted(x.items(), key=lambda kv: str(kv[0]))) + "}"
    if isinstance(x, tuple):
        return "(" + " ".join(fmt(y) for y in x) + ")"
    return str(x)


# ------------------------------------------------------------------ comparison with the reference traces

REF = os.path.join(VERIF, "ref", "tick_traces.py.txt")


def save_reference(facts):
    fn, nraw, paths = canonical_paths(facts)
    with open(REF, "w") as f:
        f.write("# canonical path traces of the flattened Nucleo::tick of the pinned (repaired) tree; written by tools/gen_tick_traces.py\n")
        f.write(repr([(sorted(k.items(), key=repr), ev) for k, ev in paths]))
        f.write("\n")
    return len(paths)


def load_reference():
    txt = "".join(l for l in open(REF) if not l.startswith("#"))
    data = eval(txt, {"__builtins__": {}, "frozenset": frozenset})
    return [(dict(k), ev) for k, ev in data]


def compatible(k1, k2):
    for a, v in k1.items():
        if a in k2:
            w = k2[a]
            if isinstance(v, frozenset) and isinstance(w, frozenset):
                if not (v & w):
                    return False
            elif v != w:
                return False
    return True


def joint(k1, k2):
    j = dict(k1)
    for a, w in k2.items():
        if a in j and isinstance(w, frozenset) and isinstance(j[a], frozenset):
            j[a] = j[a] & w
        else:
            j[a] = w
    return j


PROTOCOL_FIELDS = ("canceled", "should_notify", "worker", "pool", "state", "items", "notify", "snapshot", "pattern")


def _mentions_only_other_fields(e):
    fields = [x[1] for x in _walk(e) if isinstance(x, tuple) and len(x) == 2 and x[0] == "self" and isinstance(x[1], str)]
    return bool(fields) and all(f not in PROTOCOL_FIELDS for f in fields)


def _walk(e):
    if isinstance(e, tuple):
        yield e
        for x in e:
            yield from _walk(x)


def _effective(events):
    """Normal form of a path's events: stores that write the value the place is known to hold already are no effect;
    effects on fields of the matcher that take no part in the protocol (a statistics counter) are left out; stores to
    different worker fields between two synchronising events commute and are put in a fixed order."""
    out = []
    for e in events:
        if e[0] in ("wstore", "sstore") and e[-2] == e[-1]:
            continue
        if e[0] == "sstore" and e[1] not in PROTOCOL_FIELDS:
            continue
        if e[0] in ("call", "fstore") and _mentions_only_other_fields(e):
            continue
        out.append(e[:-1] if e[0] in ("wstore", "sstore") else e)
    # the worker is parked while its lock is held: stores to its fields and stores to the two flags commute
    res, run, flags = [], [], []
    for e in out:
        if e[0] in ("wstore", "clone_from"):
            run.append(e)
            continue
        if e[0] == "atomic":
            flags.append(e)
            continue
        if e[0] == "call" and e[1] == "reset_status" and not run:
            res.append(e)       # the pattern's own status and the two flags are independent: hoisted over pending flag stores
            continue
        res.extend(sorted(run, key=fmt))
        res.extend(sorted(flags, key=lambda f: f[1]))      # per flag in program order; different flags commute
        run, flags = [], []
        res.append(e)
    res.extend(sorted(run, key=fmt))
    res.extend(sorted(flags, key=lambda f: f[1]))
    return res


def _status_weaker(ours, ref, events):
    """ours/ref: returned Status.  Allowed: changed true where the reference says false (conservative), changed false where
    the reference says true on a path without Snapshot::update (more exact)."""
    if not (ours and ref and ours[0] == "agg" and ref[0] == "agg"):
        return False
    oc, orr, rc, rr = _agg(ours, "changed"), _agg(ours, "running"), _agg(ref, "changed"), _agg(ref, "running")
    ok = True
    if oc != rc:
        if oc == ("const", 1):
            pass
        elif oc == ("const", 0) and not any(e[0] == "update" for e in events):
            pass
        else:
            ok = False
    if orr != rr:
        ok = False      # `running` reported differently is left undecided (C13 ties it to a notification)
    return ok


def compare(paths, ref):
    """Differences between two sets of canonical paths: pairs of paths whose assumptions can hold together must have
    the same events (after partial evaluation under the joint assumptions)."""
    diffs = []
    for kv, ev in paths:
        for kr, er in ref:
            if not compatible(kv, kr):
                continue
            j = joint(kv, kr)
            a = _effective([subst(x, j) for x in ev])
            b = _effective([subst(x, j) for x in er])
            if a != b and a[:-1] == b[:-1] and a and b and a[-1][0] == "ret" and b[-1][0] == "ret" and _status_weaker(a[-1][1], b[-1][1], a):
                continue      # same effects; the status differs only in a direction the contract of Status allows
            if a != b:
                # first differing event
                n = 0
                while n < min(len(a), len(b)) and a[n] == b[n]:
                    n += 1
                diffs.append((j, a[n] if n < len(a) else None, b[n] if n < len(b) else None, a, b))
    return diffs


# ------------------------------------------------------------------ protocol rules on the traces (absolute, not relative to the reference)

STALE = frozenset(["Init", "Cleared"])


def _own(known, events):
    return _effective([subst(x, known) for x in events])


def _agg(e, name):
    return dict(e[2]).get(name) if e and e[0] == "agg" else None


def protocol_violations(paths):
    """{rule id: [(key, message)]} -- each message names the scenario (assumptions of the path) and the event."""
    out = {}

    def add(rule, key, msg, known):
        scen = ", ".join("%s=%s" % (fmt(a), fmt(v)) for a, v in sorted(known.items(), key=lambda kv: fmt(kv[0])) if not (isinstance(a, tuple) and a and a[0] == "bin" and "count" in fmt(a)))
        lst = out.setdefault(rule, [])
        if not any(k == key for k, _ in lst):
            lst.append((key, "%s  [path of the flattened tick with %s]" % (msg, scen[:300])))

    for known, events in paths:
        ev = _own(known, events)
        raw = [subst(x, known) for x in events]
        s0 = known.get(("init", ("self", "state")))
        lock_pos = {}
        for i, e in enumerate(ev):
            if e[0] in ("lock", "trylock"):
                lock_pos[e[1]] = i
        spawns = [i for i, e in enumerate(ev) if e[0] == "spawn"]
        ret = ev[-1][1] if ev and ev[-1][0] == "ret" else None

        def locked_ok(k):
            if ev[lock_pos[k]][0] == "lock":
                return True
            return known.get(("trylock", k)) == frozenset(["Some"])

        # C13.disarm-first
        first = next((e for e in raw if e[0] in ("atomic", "lock", "trylock", "spawn", "update")), None)
        if first is not None and not (first[0] == "atomic" and first[1] == "should_notify" and first[2] == ("const", 0)):
            add("C13.disarm-first", "Nucleo::<T>::tick|flat|disarm-first", "tick does not start by clearing should_notify (first protocol event: %s)" % fmt(first), known)
        # update guards
        for i, e in enumerate(ev):
            if e[0] != "update":
                continue
            g = e[1]
            k = g[1] if g and g[0] == "G" else None
            if k is None:
                continue
            run = known.get(("init", ("W", k, "running")))
            wc = known.get(("init", ("W", k, "was_canceled")))
            if run != 1:
                add("C19.changed-guards-mutation", "Nucleo::<T>::tick|flat|update-unguarded", "Snapshot::update runs on a path that does not establish inner.running == true", known)
            if wc != 0:
                for r in ("C12.stale-guard", "C06.update-guard", "C19.update-guard"):
                    add(r, "Nucleo::<T>::tick|flat|update-was-canceled", "Snapshot::update runs on a path that does not establish !inner.was_canceled: results of a cancelled run reach the snapshot", known)
            fresh_at_entry = s0 is not None and not (s0 & STALE)
            spawned_before_lock = any(j < lock_pos.get(k, -1) for j in spawns)
            # a design that compares the worker's stream with the matcher's: the run is over the current stream
            same_stream = any(isinstance(a_, tuple) and a_ and a_[0] == "call" and a_[1] == "ptr_eq" and set(a_[2]) == {("init", ("W", k, "items")), ("init", ("self", "items"))}
                              and v_ == 1 for a_, v_ in known.items())
            repointed = any(e_[0] == "wstore" and e_[1] == k and e_[2] == "items" and lock_pos.get(k, -1) < i_ < i for i_, e_ in enumerate(ev))
            if repointed and not fresh_at_entry and not spawned_before_lock:
                for r in ("C12.stale-guard", "C06.update-guard", "C19.update-guard"):
                    add(r, "Nucleo::<T>::tick|flat|update-after-repoint", "Snapshot::update runs after the locked worker was pointed at the current item stream: whether the finished run was over "
                        "the old stream can no longer be told, its matches reach the snapshot of the new one", known)
            elif not fresh_at_entry and not spawned_before_lock and not same_stream:
                for r in ("C12.stale-guard", "C06.update-guard", "C19.update-guard"):
                    add(r, "Nucleo::<T>::tick|flat|update-stale-stream", "Snapshot::update takes the results of a run that was started before restart() (state at entry of tick is Init/Cleared and no run "
                        "has been started in this tick before the worker was locked): matches of the old item stream reach the snapshot of the new one", known)
        # the returned status
        if ret is not None and ret[0] == "agg":
            ch, rn = _agg(ret, "changed"), _agg(ret, "running")
            if any(e[0] == "update" for e in ev) and ch == ("const", 0):
                add("C19.changed-guards-mutation", "Nucleo::<T>::tick|flat|changed-false-after-update", "tick returns changed: false on a path on which Snapshot::update ran", known)
            last_lock = max(lock_pos) if lock_pos else None
            if last_lock is not None and rn is not None and rn[0] == "const":
                started = any(j > lock_pos[last_lock] for j in spawns)
                failed = ev[lock_pos[last_lock]][0] == "trylock" and known.get(("trylock", last_lock)) == frozenset(["None"])
                if (started or failed) and rn[1] == 0:
                    add("C19.running-guards-spawn", "Nucleo::<T>::tick|flat|running-false-with-run", "tick returns running: false although a run %s" % ("was just started" if started else "is still in progress (the worker could not be locked)"), known)
        # C13.arm-under-lock: the run that is in progress when tick returns notifies when it finishes
        if spawns:
            s = spawns[-1]
            g = ev[s][1]
            k = g[1] if g and g[0] == "G" else None
            later_lock = [kk for kk, p in lock_pos.items() if p > s]
            if not later_lock and k is not None:
                armed = [i for i, e in enumerate(ev) if e[0] == "atomic" and e[1] == "should_notify" and e[2] == ("const", 1) and lock_pos.get(k, 0) < i < s]
                disarmed = [i for i, e in enumerate(ev) if e[0] == "atomic" and e[1] == "should_notify" and e[2] == ("const", 0) and armed and i > armed[-1]]
                unlocked = [i for i, e in enumerate(ev) if e[0] == "unlock" and e[1] == g and i < s]
                if not armed or disarmed or unlocked:
                    add("C13.arm-under-lock", "Nucleo::<T>::tick|flat|spawn-unarmed", "the last run tick starts is spawned without should_notify having been set (under the worker lock, before the spawn): "
                        "tick returns running: true and no notification follows", known)
        for k, p in lock_pos.items():
            if ev[p][0] == "trylock" and known.get(("trylock", k)) == frozenset(["None"]) and k == max(lock_pos):
                if not any(e[0] == "atomic" and e[1] == "should_notify" and e[2] == ("const", 1) for e in ev[p:]):
                    add("C13.arm-under-lock", "Nucleo::<T>::tick|flat|timeout-unarmed", "the worker could not be locked within the timeout and should_notify is not set afterwards", known)
        # C12.stream-switch
        def on_current(k_):
            return any(isinstance(a_, tuple) and a_ and a_[0] == "call" and a_[1] == "ptr_eq" and set(a_[2]) == {("init", ("W", k_, "items")), ("init", ("self", "items"))}
                       and v_ == 1 for a_, v_ in known.items())
        g0 = ev[spawns[0]][1] if spawns else None
        if spawns and s0 is not None and s0 <= STALE and not (g0 and g0[0] == "G" and on_current(g0[1])):
            s = spawns[0]
            g = ev[s][1]
            k = g[1] if g and g[0] == "G" else None
            args = ev[s][2] if len(ev[s]) > 2 else ()
            switched = any(e[0] == "wstore" and e[1] == k and e[2] == "items" and e[3] == ("clone", ("init", ("self", "items"))) and lock_pos.get(k, 0) < i < s for i, e in enumerate(ev))
            if not switched:
                add("C12.stream-switch", "Nucleo::<T>::tick|flat|no-stream-switch", "after restart() (state Init/Cleared at entry) the first run is started without pointing the worker at the current item stream", known)
            if len(args) >= 2 and args[1] == ("const", 0):
                add("C12.stream-switch", "Nucleo::<T>::tick|flat|no-rescan", "after restart() the first run is started with cleared = false: the worker keeps the matches of the old stream", known)
        if spawns and s0 is not None and s0 <= STALE:
            s = spawns[0]
            if not any(e[0] == "sstore" and e[1] == "state" and e[2] == ("const", "State::Fresh") for e in ev):
                add("C12.stream-switch", "Nucleo::<T>::tick|flat|state-stays-stale", "after restart() a run over the new stream is started but the state never becomes Fresh: every later tick "
                    "treats the finished run as stale and starts over", known)
        # C19.running-formula: a pass that does not interrupt the worker starts a run exactly when items were added
        for k, p in lock_pos.items():
            if not locked_ok(k):
                continue
            interrupting = ev[p][0] == "lock"
            if interrupting:
                continue
            A = ("bin", "Gt", ("call", "count", (("init", ("self", "items")),), k), ("call", "item_count", (("G", k),), k))
            nxt = min([q for q in lock_pos.values() if q > p] + [len(ev)])
            started = any(p < j < nxt for j in spawns)
            want = {A[2], A[3]}
            for X in known:
                if isinstance(X, tuple) and len(X) == 4 and X[0] == "bin" and X[1] in ("Gt", "Lt", "Ge", "Le", "Ne", "Eq"):
                    ops = [X[2], X[3]]
                    mine = [o for o in ops if isinstance(o, tuple) and o and o[0] == "call" and o[1] in ("count", "item_count") and o[-1] == k]
                    if mine and set(ops) != want:
                        add("C19.running-formula", "Nucleo::<T>::tick|flat|count-operands", "a pass that found the worker idle decides whether to start a run by comparing %s with %s; "
                            "it must compare the CURRENT stream's count (self.items.count()) with what the locked worker has processed (inner.item_count())" % (fmt(ops[0])[:80], fmt(ops[1])[:80]), known)
            if A in known and isinstance(known[A], int) and bool(known[A]) != started:
                add("C19.running-formula", "Nucleo::<T>::tick|flat|spawn-vs-count", "a pass that found the worker idle %s although items.count() %s inner.item_count()" %
                    ("starts a run" if started else "starts no run", ">" if known[A] else "<="), known)
        # C19.pattern-handover
        for n_, s in enumerate(spawns):
            g = ev[s][1]
            k = g[1] if g and g[0] == "G" else None
            if k is None:
                continue
            if not any(e[0] == "clone_from" and e[1] == ("W", k, "pattern") and e[2] == ("self", "pattern") and lock_pos.get(k, 0) < i < s for i, e in enumerate(ev)):
                add("C19.pattern-handover", "Nucleo::<T>::tick|flat|no-pattern-copy", "a run is started without copying the matcher's pattern into the worker first", known)
        # the phase that raises `canceled` blocks on the worker lock
        for i, e in enumerate(ev):
            if e[0] == "atomic" and e[1] == "canceled" and e[2] == ("const", 1):
                nxt_lock = next((x for x in ev[i:] if x[0] in ("lock", "trylock")), None)
                if nxt_lock is not None and nxt_lock[0] == "trylock":
                    for r in ("C19.cancel-lock", "C12.stream-switch", "C06.cancel-lock"):
                        add(r, "Nucleo::<T>::tick|flat|cancel-trylock", "after raising `canceled` tick makes a lock attempt that can time out: the cancellation's reason (pattern status, "
                            "restart) is consumed without the worker having been switched over", known)
        # cancellation is followed by its own phase
        for i, e in enumerate(ev):
            if e[0] == "atomic" and e[1] == "canceled" and e[2] == ("const", 1):
                later_spawn = [j for j in spawns if j > i]
                if not later_spawn or not any(x[0] == "atomic" and x[1] == "canceled" and x[2] == ("const", 0) for x in ev[i:later_spawn[0]]):
                    for r in ("C13.cancel-writers", "C19.cancel-writers"):
                        add(r, "Nucleo::<T>::tick|flat|cancel-without-restart", "tick raises `canceled` on a path that does not lower it again and start a new run", known)
    return out


_CACHE = {}


def analysis(facts):
    k = id(facts)
    if k not in _CACHE:
        fn, nraw, paths = canonical_paths(facts)
        ref = load_reference()
        diffs = compare(paths, ref)
        _CACHE[k] = {"fn": fn, "raw": nraw, "paths": paths, "ref": len(ref), "diffs": diffs, "violations": protocol_violations(paths)}
    return _CACHE[k]

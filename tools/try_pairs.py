#!/usr/bin/env python3
"""try_pairs.py <prefix>: for every /tmp/<prefix>_Cxx/SEED_a/{patch.diff,clean_refactoring.diff} run all 19 checks on
both: the refactoring with the slip must be reported by the property's own check, the same refactoring without the slip
must leave every check silent."""
import glob, os, re, subprocess, sys
from concurrent.futures import ThreadPoolExecutor
VERIF = os.path.dirname(os.path.dirname(os.path.abspath(__file__)))
pfx = sys.argv[1]
only = sys.argv[2].split(",") if len(sys.argv) > 2 else None
base = sys.argv[3] if len(sys.argv) > 3 else "/tmp"
def run(p):
    r = subprocess.run([sys.executable, os.path.join(VERIF, "tools", "mut.py"), "ALL", "--patch", p], capture_output=True, text=True)
    rules = sorted(set(re.findall(r"violation (C\d\d\.[\w-]+)", r.stdout)))
    inc = sorted(set(re.findall(r"INCONCLUSIVE (C\d\d\.[\w-]+)", r.stdout)))
    return p, rules, inc
ps = sorted(glob.glob("/tmp/%s_*/SEED_a/patch.diff" % pfx) + glob.glob("/tmp/%s_*/SEED_a/clean_refactoring.diff" % pfx))
if only:
    ps = [p for p in ps if any("_%s/" % o in p for o in only)]
with ThreadPoolExecutor(max_workers=6) as ex:
    for p, rules, inc in ex.map(run, ps):
        tag = p.split("/")[2].split("_", 1)[1]
        prop = tag[:3]          # C12a -> C12
        if p.endswith("patch.diff"):
            own = [r for r in rules if r.startswith(prop)]
            print("%-5s slip    %-8s viol=%s %s" % (tag, "CAUGHT" if own else ("other" if rules else "MISSED"), rules, ("inconclusive=%s" % inc) if inc else ""))
        else:
            print("%-5s clean   %-8s viol=%s %s" % (tag, "silent" if not rules and not inc else "ALARM", rules, ("inconclusive=%s" % inc) if inc else ""))

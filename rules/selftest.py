"""Thorough tier, second half: sensitivity / specificity of one property's check on the tree under analysis.

After the verdict on the tree itself has been computed, every recorded variant that concerns the property is applied
to a scratch copy of *the tree under analysis* (outside /repo and /verif, removed afterwards) and the same static
check is run on the copy:
  * battery/mutants.json entries whose expected rule belongs to the property  -> must be reported by that rule
  * seeded/<id>/patch.diff whose meta.json names the property                  -> must be reported (exit 1)
  * battery/benign.json (behaviour-preserving edits)                           -> must stay silent (exit 0)
Nothing is executed from the tree: each run is the static analysis of a variant's source.
The outcome is recorded in the evidence (coverage.selftest).  It never changes the verdict on the tree: a variant
that does not apply to a changed tree is counted as 'not applicable', and a variant that behaves unexpectedly is
listed by id (that is a weakness of the checker, not a violation of the property).
"""
import json
import os
import shutil
import subprocess
import sys
import tempfile
from concurrent.futures import ThreadPoolExecutor

VERIF = os.path.dirname(os.path.dirname(os.path.abspath(__file__)))
sys.path.insert(0, os.path.join(VERIF, "tools"))
SCRATCH = os.environ.get("VERIF_SCRATCH", "/root/scratch")


def _variants(prop):
    out = []
    bdir = os.path.join(VERIF, "battery")
    for v in json.load(open(os.path.join(bdir, "mutants.json"))):
        ex = [e for e in v["expect"] if e.split(".")[0] == prop]
        if ex:
            out.append(("mutant", v["id"], v, ex))
    for v in json.load(open(os.path.join(bdir, "benign.json"))):
        if v.get("props") and prop not in v["props"]:
            continue
        out.append(("benign", v["id"], v, []))
    sdir = os.path.join(VERIF, "seeded")
    for sid in sorted(os.listdir(sdir)):
        mp = os.path.join(sdir, sid, "meta.json")
        if not os.path.exists(mp):
            continue
        meta = json.load(open(mp))
        rules = [c for c in meta.get("caught_by", []) if c.split(".")[0] == prop]
        if meta.get("breaks_property") == prop or rules:
            out.append(("seed", sid, {"abs_patch": os.path.join(sdir, sid, "patch.diff")}, rules))
    return out


def _run_one(args):
    prop, repo, kind, vid, v, expect = args
    from battery import apply_edits
    os.makedirs(SCRATCH, exist_ok=True)
    d = tempfile.mkdtemp(prefix="self.", dir=SCRATCH)
    try:
        subprocess.check_call(["rsync", "-a", "--exclude", "target", "--exclude", ".git", "--exclude", ".evidence",
                               repo.rstrip("/") + "/", d + "/"])
        patch = v.get("abs_patch") or (os.path.join(VERIF, "battery", v["patch"]) if "patch" in v else None)
        if patch:
            r = subprocess.run(["patch", "-p1", "-s", "-f", "-i", patch], cwd=d, capture_output=True, text=True)
            if r.returncode != 0:
                return kind, vid, "n/a", "patch does not apply to this tree"
        else:
            err = apply_edits(d, v["edits"])
            if err:
                return kind, vid, "n/a", err
        if v.get("fmt"):
            subprocess.run(["cargo", "fmt", "--all", "--", "--config", v["fmt"]], cwd=d, capture_output=True)
        env = dict(os.environ, NUCLEO_REPO=d, VERIF_EVIDENCE_DIR=os.path.join(d, ".evidence"), VERIF_TIER="quick")
        r = subprocess.run([sys.executable, os.path.join(VERIF, "rules", "run.py"), prop, "--tier", "quick"],
                           env=env, capture_output=True, text=True)
        vio = sorted(set(l.strip().split("|")[0].replace("violation ", "") for l in r.stdout.splitlines()
                         if l.strip().startswith("violation ")))
        if kind == "benign":
            if r.returncode == 2 and prop in v.get("inconclusive_ok", []) and "VIOLATION" not in r.stdout:
                return kind, vid, "documented-inconclusive", "rc=2 (documented limit: %s)" % v.get("limit", "")[:120]
            return kind, vid, ("silent" if r.returncode == 0 else "NOT-SILENT"), "rc=%d %s" % (r.returncode, vio)
        if kind == "mutant":
            hit = r.returncode == 1 and all(e in vio for e in expect)
            return kind, vid, ("reported" if hit else "NOT-REPORTED"), "rc=%d %s" % (r.returncode, vio)
        hit = r.returncode == 1
        return kind, vid, ("reported" if hit else "NOT-REPORTED"), "rc=%d %s" % (r.returncode, vio)
    finally:
        shutil.rmtree(d, ignore_errors=True)


def run(prop, repo, jobs=None):
    todo = [(prop, repo, k, i, v, e) for k, i, v, e in _variants(prop)]
    jobs = jobs or int(os.environ.get("VERIF_JOBS", "14"))
    res = {"mutant": {}, "seed": {}, "benign": {}}
    detail = []
    with ThreadPoolExecutor(max_workers=jobs) as ex:
        for kind, vid, status, msg in ex.map(_run_one, todo):
            res[kind][status] = res[kind].get(status, 0) + 1
            if status in ("NOT-REPORTED", "NOT-SILENT", "n/a"):
                detail.append({"kind": kind, "id": vid, "status": status, "detail": msg[:300]})
    return {
        "explanation": "checker self-test on scratch copies of the tree under analysis: breaking variants of this "
                       "property must be reported by the named rule, behaviour-preserving variants must stay silent; "
                       "static analysis of each variant's source, nothing executed",
        "variants": len(todo),
        "mutants": res["mutant"], "seeded": res["seed"], "benign": res["benign"],
        "unexpected": detail,
    }

"""C09 — item data is published race-free to every reader (declared happens-before edges)."""
from cfg import Inconclusive, op_place, show, walk
from common import spawner_fn
from common import (STRENGTH_LOAD, STRENGTH_STORE, atomic_op, calls_to, callee, callee_names,
                    closure_consumer, spawn_closures, resolve_capture, closure_creations, field_chain, fn_of, find_fn, is_call_to,
                    ordering_of, peel, site, uses_of_local, head_sources)

PROP = "C09"
LEVEL = "other"
UNDECIDED = [
    "absence of data races over all executions (needs exploration of executions: a different family)",
    "that the declared edges are sufficient for every future reader; only the readers present in the tree are classified",
]
ASSUMPTIONS = [
    "rustc nightly front end / MIR construction; orderings are read from the MIR constants actually compiled",
    "the location-class table in rules/props/c09.py (what each atomic publishes) was frozen from reading the code",
    "get_unchecked's relaxed bucket load is covered by its documented caller contract (callers checked in C06)",
]

# class -> (what it publishes, needs_release_on_write, needs_acquire_on_read)
CLASS_TABLE = {
    "Entry.active": ("slot value + matcher columns", True, True),
    "Bucket.entries": ("bucket allocation with initialised active flags", True, True),
    "Vec.inflight": ("nothing: pure index counter", False, False),
    "canceled": ("nothing: advisory flag, results handed over through the worker mutex", False, False),
    "should_notify": ("nothing: advisory flag (protocol checked in C13)", False, False),
    "unmatched": ("nothing: counter read only through get_mut after the parallel section", False, False),
}

# (class, function path suffix) -> reason: documented exceptions to the acquire rule
READ_EXCEPTIONS = {
    ("Bucket.entries", "boxcar::Vec::<T>::get_unchecked"):
        "unsafe fn with a caller contract: the caller already has a happens-before edge to the publication of this index",
}


_ALIAS_CACHE = {}


def atomic_aliases():
    """(struct path, field name) -> class: fields of other structs that hold a reference to (or a clone of the Arc of)
    a classified atomic -- `Reservation { inflight: &self.inflight }` -- found from the struct literals of crate nucleo."""
    import common
    facts = common.FACTS[0]
    if facts is None:
        return {}
    k = id(facts)
    if k in _ALIAS_CACHE:
        return _ALIAS_CACHE[k]
    out = {}
    _ALIAS_CACHE[k] = out          # (recursion guard: classify below consults the cache)
    for b in facts.bodies_of("nucleo"):
        f2 = fn_of(b)
        for bi, si, s_ in f2.stmts(lambda s_: s_["k"] == "assign" and s_["rv"].get("agg") == "adt"):
            adt = str(s_["rv"].get("adt", ""))
            if adt.endswith("boxcar::Vec") or adt.endswith("Entry") or adt.endswith("Bucket"):
                continue
            for nm, op in zip(s_["rv"].get("fields", []), s_["rv"].get("ops", [])):
                e_ = f2.expr_of_operand(op)
                c_ = classify(f2, e_, 1)
                if c_ in ("Vec.inflight", "Entry.active", "Bucket.entries"):
                    out[(adt, nm)] = c_
    return out


def classify(fn, recv, depth=0):
    base, names = field_chain(recv)
    e = peel(recv)
    if depth == 0 and names and isinstance(e, tuple) and e[0] == "field":
        al = atomic_aliases()
        of_ = str(e[3] or "").split("<")[0]
        for (adt, nm), c_ in al.items():
            if nm == names[-1] and (adt == of_ or adt.endswith("::" + of_) or of_.endswith("::" + adt.rsplit("::", 1)[-1])):
                return c_
    # a captured variable of a closure: classify what the parent body captured
    if names and isinstance(base, tuple) and base[0] == "arg" and base[1] == 1 and fn.b.get("kind") == "Closure" and depth < 4:
        rc = resolve_capture(fn, names[0])
        if rc is not None:
            c = classify(rc[0], rc[1], depth + 1)
            if c is not None and len(names) == 1:
                return c
    of = e[3] if isinstance(e, tuple) and e[0] == "field" else None
    if names and names[-1].isdigit() and isinstance(e, tuple) and e[0] == "field" and depth < 6:
        # the only field of a private newtype around the atomic (`struct Unmatched(AtomicU32)`): the wrapper is the object
        c = classify(fn, e[1], depth + 1)
        if c is not None:
            return c
        ty_ = e[3] or ""
        if "Unmatched" in ty_:
            return "unmatched"
    if names:
        last = names[-1]
        if "__" in last:  # closure capture of self.canceled => self__canceled
            last = last.rsplit("__", 1)[1]
        if of and "boxcar::Entry<" in of and last == "active":
            return "Entry.active"
        if of and "boxcar::Bucket<" in of and last == "entries":
            return "Bucket.entries"
        if of and "boxcar::Vec<" in of and last == "inflight":
            return "Vec.inflight"
        if last in ("canceled", "should_notify", "unmatched"):
            return last
        return None
    if isinstance(base, tuple):
        if base[0] in ("arg", "local") and base[2] in ("canceled", "unmatched"):
            return base[2]
        if base[0] in ("arg", "local") and base[1] < len(fn.b["locals"]):
            ty = fn.b["locals"][base[1]]["ty"]
            if "Atomic<bool>" in ty or "AtomicBool" in ty:
                return "canceled"
            if "Atomic<u32>" in ty or "AtomicU32" in ty:
                return "unmatched"
        if base[0] == "call" and isinstance(base[1], str) and base[1].startswith("std::sync::atomic::Atomic::<u32>::new"):
            return "unmatched"
    return None


def rule_order_table(ctx):
    facts = ctx.facts
    n = 0
    per_class = {}
    pending_unknown = []
    for b in facts.bodies_of("nucleo"):
        fn = fn_of(b)
        ordinal = {}
        for bi, t in fn.calls(lambda t: atomic_op(t) is not None):
            m = atomic_op(t)
            n += 1
            recv = fn.expr_of_operand(t["args"][0])
            cls = classify(fn, recv)
            k = (m, cls)
            ordinal[k] = ordinal.get(k, 0) + 1
            where = site(fn, bi)
            key = "%s|%s.%s|%d" % (fn.path, cls, m, ordinal[k])
            if cls is None or cls not in CLASS_TABLE:
                pending_unknown.append((fn, bi, t, m, recv, where))
                continue
            per_class[cls] = per_class.get(cls, 0) + 1
            what, need_rel, need_acq = CLASS_TABLE[cls]
            # orderings
            if m == "load":
                ords = [("read", t["args"][1])]
            elif m == "store":
                ords = [("write", t["args"][2])]
            elif m.startswith("compare_exchange"):
                ords = [("write", t["args"][3]), ("read", t["args"][4]), ("rmw-read", t["args"][3])]
            else:  # swap / fetch_*
                ords = [("write", t["args"][2]), ("rmw-read", t["args"][2])]
            bad = False
            for side, o in ords:
                name = ordering_of(fn, o)
                if name is None:
                    ctx.fail_closed("ordering argument of %s.%s at %s is not a constant" % (cls, m, where))
                    bad = True
                    continue
                if side == "write" and need_rel and not STRENGTH_STORE.get(name, 0):
                    ctx.violation(key, where, "%s.%s with Ordering::%s: this location publishes %s, the write side must be at least Release"
                                  % (cls, m, name, what))
                    bad = True
                if side == "read" and need_acq and not STRENGTH_LOAD.get(name, 0):
                    exc = None
                    for (c, suffix), why in READ_EXCEPTIONS.items():
                        if c == cls and fn.path.endswith(suffix):
                            exc = why
                    if exc:
                        ctx.note("exception: %s.%s Ordering::%s in %s — %s" % (cls, m, name, fn.path, exc))
                        continue
                    ctx.violation(key, where, "%s.%s with Ordering::%s: the loaded value gates a read of %s, the read side must be at least Acquire"
                                  % (cls, m, name, what))
                    bad = True
            # advisory classes: the loaded value may only steer control flow
            if m == "load" and not need_acq and cls in ("canceled", "should_notify"):
                d = t["dest"]
                if d["p"]:
                    ctx.fail_closed("advisory load into a projected place at %s" % where)
                    bad = True
                else:
                    for u in uses_of_local(fn, d["l"]):
                        okuse = False
                        if u[0] == "term" and u[3] == "switch":
                            okuse = True
                        elif u[0] == "stmt":
                            s = u[3]
                            rv = s["rv"]
                            if "un" in rv and rv["un"] == "Not":
                                okuse = True
                            elif "use" in rv and not s["lhs"]["p"]:
                                okuse = True
                        if not okuse:
                            ctx.violation(key + "|advisory", where,
                                          "value loaded from advisory flag `%s` is used for something other than a branch: %s" % (cls, str(u[2:])[:200]))
                            bad = True
            if not bad:
                ctx.ok(where, "%s.%s %s" % (cls, m, [ordering_of(fn, o) for _, o in ords if _ != "rmw-read"]))
    # atomics the table does not know: harmless for this property iff nothing is ever published through them, i.e.
    # every operation on the same field is a write/RMW whose result is unused, or a load whose value only flows into
    # its function's return value (a statistics counter and its getter); anything else stays INCONCLUSIVE
    by_field = {}
    for fn_, bi_, t_, m_, recv_, where_ in pending_unknown:
        base_, names_ = field_chain(recv_)
        by_field.setdefault(names_[-1] if names_ else show(recv_), []).append((fn_, bi_, t_, m_, where_))
    for fld, ops in by_field.items():
        harmless = True
        for fn_, bi_, t_, m_, where_ in ops:
            d_ = t_["dest"]
            if d_["p"]:
                harmless = False
                break
            if m_ == "load" or m_.startswith("fetch_") or m_ == "swap" or m_.startswith("compare_exchange"):
                # the value read may only be copied around / packed into aggregates on its way to the return value:
                # it never steers a branch, indexes, or reaches a call
                work_, seen_ = [d_["l"]], set()
                while work_ and harmless:
                    l_ = work_.pop()
                    if l_ in seen_:
                        continue
                    seen_.add(l_)
                    for u in uses_of_local(fn_, l_):
                        if u[0] == "stmt":
                            s_ = u[3]
                            rv_ = s_["rv"]
                            if ("use" in rv_ or "agg" in rv_ or "cast" in rv_) and not s_["lhs"]["p"]:
                                if m_ != "load" and s_["lhs"]["l"] == 0:
                                    harmless = False   # an RMW whose old value is returned may be used for ordering by callers
                                if s_["lhs"]["l"] != 0:
                                    work_.append(s_["lhs"]["l"])
                                continue
                        harmless = False
        if harmless and all("Atomic<*" not in str(fn_.b["locals"][t_["args"][0].get("move", t_["args"][0].get("copy", {"l": 0}))["l"]]["ty"]) for fn_, bi_, t_, m_, where_ in ops):
            for fn_, bi_, t_, m_, where_ in ops:
                ctx.ok(where_, "`%s`: an atomic nothing is published through (results unused / only returned): any ordering is race-free" % fld)
        else:
            for fn_, bi_, t_, m_, where_ in ops:
                ctx.fail_closed("unclassified atomic location at %s: %s.%s" % (where_, fld, m_))
    ctx.floor("atomic memory operations in crate nucleo (live code)", n, 24)
    for cls, floor in (("Entry.active", 4), ("Bucket.entries", 4), ("Vec.inflight", 3)):
        ctx.floor("atomic ops on " + cls, per_class.get(cls, 0), floor)


def rule_matchers_confined(ctx):
    facts = ctx.facts
    # 1. who calls Matchers::get
    sites = calls_to(facts, "nucleo", lambda t: callee(t) == "worker::Matchers::get")
    ctx.floor("calls of Matchers::get", len(sites), 3)
    allowed_roots = ("worker::Worker::<T>::run", "worker::Worker::<T>::process_new_items")
    for fn, bi, t in sites:
        root = fn.b.get("root", fn.path)
        if root in allowed_roots:
            ctx.ok(site(fn, bi), "Matchers::get called inside %s" % root)
        else:
            ctx.violation("%s|Matchers::get|1" % fn.path, site(fn, bi),
                          "per-thread matcher scratch memory accessed outside the worker run (root body %s): the unsafe `impl Sync for Matchers` relies on one matcher per pool thread" % root)
    # 2. process_new_items only from run; run only from the closure tick_inner hands to the pool
    ti = spawner_fn(facts)
    spawned = spawn_closures(ti)
    if not spawned:
        raise Inconclusive("no closure handed to ThreadPool::spawn found in tick_inner")
    for target, allowed in (("worker::Worker::<T>::process_new_items", ("worker::Worker::<T>::run",)),
                            ("worker::Worker::<T>::run", tuple(c[3] for c in spawned))):
        cs = calls_to(facts, "nucleo", lambda t, target=target: callee(t) == target)
        if facts.body("nucleo", target) is None and not cs:
            ctx.ok("crate nucleo", "%s no longer exists as a function of its own (its code, if any, lives in its callers): nothing to confine" % target)
            continue
        ctx.floor("callers of " + target, len(cs), 1)
        for fn, bi, t in cs:
            if fn.path in allowed:
                ctx.ok(site(fn, bi), "%s called from %s" % (target, fn.path))
            else:
                ctx.violation("%s|%s|1" % (fn.path, target), site(fn, bi),
                              "%s called from %s; it may only run on the matcher's own pool (via the closure spawned by tick_inner)" % (target, fn.path))
    # 3. that closure is consumed by ThreadPool::spawn on self.pool
    cl = spawned
    bi, si, local, path, caps = cl[0][:5]
    cons = closure_consumer(ti, local)
    if cons is None:
        raise Inconclusive("cannot follow the run closure to its consumer")
    cbi, ct, pos = cons
    if callee(ct) == "rayon::ThreadPool::spawn":
        recv = ti.expr_of_operand(ct["args"][0])
        base, names = field_chain(recv)
        if names == ["pool"]:
            ctx.ok(site(ti, cbi), "run closure handed to ThreadPool::spawn on self.pool")
        else:
            ctx.violation("Nucleo::<T>::tick_inner|spawn-receiver|1", site(ti, cbi),
                          "worker run spawned on %s instead of the matcher's own pool" % show(recv))
    else:
        ctx.violation("Nucleo::<T>::tick_inner|spawn|1", site(ti, cbi),
                      "worker run closure is passed to %s, not to ThreadPool::spawn of the matcher's own pool" % callee(ct))
    # 4. index is the pool's thread index
    mg = find_fn(facts, "nucleo", "worker::Matchers::get")
    idx_ok = False
    for bi, t in mg.calls(lambda t: callee(t).endswith("rayon::current_thread_index") or callee(t).endswith("current_thread_index")):
        idx_ok = True
    found_index = False
    for bi, t in mg.calls(lambda t: "Index" in callee(t) or "index" in callee(t)):
        e = mg.expr_of_operand(t["args"][1]) if len(t["args"]) > 1 else None
        if e and any(isinstance(x, tuple) and x[0] == "call" and isinstance(x[1], str) and x[1].endswith("current_thread_index") for x in walk(e)):
            found_index = True
    # direct indexing of Box<[..]> is a place projection, look at index locals too
    if not found_index:
        for bi, si_, s in mg.stmts(lambda s: s["k"] == "assign"):
            for pl in [s["rv"].get("ref"), s["rv"].get("rawptr")]:
                if pl:
                    for el in pl["p"]:
                        if isinstance(el, dict) and "index" in el:
                            e = mg.expr_of_local(el["index"])
                            if any(isinstance(x, tuple) and x[0] == "call" and isinstance(x[1], str) and x[1].endswith("current_thread_index") for x in walk(e)):
                                found_index = True
    if idx_ok and found_index:
        ctx.ok(site(mg, 0), "matcher slot selected by rayon::current_thread_index()")
    else:
        ctx.violation("worker::Matchers::get|index|1", site(mg, 0),
                      "matcher slot is not selected by rayon::current_thread_index(): two pool threads may share one scratch allocation")
    # 5. number of matchers == number of pool threads
    wn = find_fn(facts, "nucleo", "worker::Worker::<T>::new")
    nt = [t for bi, t in wn.calls(lambda t: callee(t).endswith("ThreadPoolBuilder::<S>::num_threads") or callee(t).endswith("::num_threads"))]
    # how many matchers are made: the end of the range that is mapped to matchers, and / or the `take(n)` of a
    # repeat_with / repeat source (both, when a range is truncated)
    counts = []
    for bi, si_, s in wn.stmts(lambda s: s["k"] == "assign" and s["rv"].get("agg") == "adt" and s["rv"].get("adt", "").endswith("ops::Range")):
        counts.append(wn.expr_of_operand(s["rv"]["ops"][1]))
    for bi, t in wn.calls(lambda t: callee(t).endswith("Iterator::take") and len(t["args"]) == 2):
        counts.append(wn.expr_of_operand(t["args"][1]))
    if not nt or not counts:
        raise Inconclusive("Worker::new: num_threads call or matcher count (range / take) not found")
    a = wn.expr_of_operand(nt[0]["args"][1])
    bad = [c for c in counts if c != a]
    if not bad:
        ctx.ok(site(wn, 0), "pool size and matcher count are the same value: %s" % show(a))
    else:
        ctx.violation("worker::Worker::<T>::new|matcher-count|1", site(wn, 0),
                      "pool has %s threads but %s matchers are allocated" % (show(a), show(bad[0])))


def rule_guard_moved(ctx):
    facts = ctx.facts
    ti = spawner_fn(facts)
    cl = spawn_closures(ti)
    if not cl:
        raise Inconclusive("no closure handed to ThreadPool::spawn found in tick_inner")
    bi, si, local, path, caps = cl[0][:5]
    guard_caps = [(n, o) for n, o in caps.items() if "move" in o or "copy" in o]
    found = False
    for n, o in caps.items():
        p = op_place(o)
        if p is None or p["p"]:
            continue
        ty = ti.b["locals"][p["l"]]["ty"]
        wraps = False
        if "ArcMutexGuard" not in ty:
            # a private wrapper around the guard (`struct Locked<T>(ArcMutexGuard<..>)`) owns it just the same
            a_ = facts.adt("nucleo", ty.split("<")[0])
            if a_ is not None and any("ArcMutexGuard" in f_["ty"] for v_ in a_["variants"] for f_ in v_["fields"]):
                wraps = True
        if "ArcMutexGuard" in ty or wraps:
            found = True
            if "move" not in o:
                ctx.violation("Nucleo::<T>::tick_inner|guard-capture|1", site(ti, bi, si), "worker guard captured by reference, not moved into the run closure")
                continue
            srcs = set()
            for dbi, dsi, e in ti.def_exprs(p["l"]):
                if wraps and isinstance(e, tuple) and e and e[0] == "agg":
                    # the wrapper literal: where the wrapped guard comes from
                    for fv in e[2].values():
                        srcs |= head_sources(ti, fv)
                else:
                    srcs |= head_sources(ti, e)
            locks = [s for s in srcs if s.endswith("lock_arc") or s.endswith("try_lock_arc_for")]
            if locks and all(("lock_arc" in s or "Option" in s or "unwrap" in s) for s in srcs):
                ctx.ok(site(ti, bi, si), "run closure owns the ArcMutexGuard obtained from %s" % sorted(locks))
            else:
                ctx.violation("Nucleo::<T>::tick_inner|guard-source|1", site(ti, bi, si),
                              "guard handed to the worker run does not come from lock_arc/try_lock_arc_for of this body: %s" % sorted(srcs))
    if not found:
        ctx.violation("Nucleo::<T>::tick_inner|guard-capture|0", site(ti, bi, si),
                      "the closure spawned on the pool does not own an ArcMutexGuard of the worker: the worker state is reachable without the lock")


EXPECTED_UNSAFE_IMPLS = {
    "nucleo": {("worker::Matchers", "std::marker::Sync"), ("worker::Matchers", "std::marker::Send")},
    "nucleo_matcher": {("matrix::MatrixSlab", "std::marker::Sync"), ("matrix::MatrixSlab", "std::marker::Send")},
}


def rule_unsafe_impls(ctx):
    for crate, expected in EXPECTED_UNSAFE_IMPLS.items():
        found = set()
        for im in ctx.facts.crate(crate)["impls"]:
            if im.get("unsafe") and not im.get("derived"):
                found.add((im["self_ty"], im["trait"]))
        for x in sorted(found - expected):
            ctx.fail_closed("new `unsafe impl %s for %s` in %s: not covered by any rule, needs review" % (x[1], x[0], crate))
        for x in sorted(expected - found):
            ctx.note("expected unsafe impl %s for %s is gone (fine)" % (x[1], x[0]))
        for x in sorted(found & expected):
            ctx.ok("%s: unsafe impl %s for %s" % (crate, x[1], x[0]), "covered by C09.matchers-confined / C10.slab rules")


def rule_send_sync_bounds(ctx):
    """Type-level part visible in the fact base: every impl block that exposes the shared vector
    across threads requires T: Send + Sync (the compile-fail witnesses in /verif/witness check the
    same thing from the outside in the thorough tier)."""
    need = ["Nucleo<T>", "Snapshot<T>", "worker::Worker<T>"]
    adts = {a["path"]: a for a in ctx.facts.crate("nucleo")["adts"]}
    for im in ctx.facts.crate("nucleo")["impls"]:
        if im["trait"] is None and im["self_ty"] in need:
            w = " ".join(im["where"])
            if "std::marker::Sync" in w and "std::marker::Send" in w:
                ctx.ok("impl %s" % im["self_ty"], "requires T: Send + Sync")
            else:
                ctx.violation("impl %s|bounds|1" % im["self_ty"], "%s:%d" % (im["loc"]["file"], im["loc"]["line"]),
                              "inherent impl of %s no longer requires T: Send + Sync although items are shared with the worker pool" % im["self_ty"])
    # ParIter hands &T to pool threads
    for im in ctx.facts.crate("nucleo")["impls"]:
        if im["trait"] and im["trait"].startswith("rayon::iter::") and "boxcar::ParIter" in im["self_ty"]:
            w = " ".join(im["where"])
            if "std::marker::Sync" in w and "std::marker::Send" in w:
                ctx.ok("impl %s for %s" % (im["trait"], im["self_ty"]), "requires T: Send + Sync")
            else:
                ctx.violation("impl %s for %s|bounds|1" % (im["trait"], im["self_ty"]), "%s:%d" % (im["loc"]["file"], im["loc"]["line"]),
                              "parallel iterator over the item vector without T: Send + Sync")


def rule_send_sync_witness(ctx):
    import witness
    witness.rule(ctx, ("C09",), "item data or the notify callback could be shared with the worker pool without being Send + Sync")


def rule_unchecked_feed(ctx):
    """Readers that skip the entry's flag (get_unchecked: the rescoring loop, the sort tie-break, the snapshot accessors)
    have no acquire edge of their own: the only happens-before edge from the item's publication is the one taken when
    the index entered `matches`.  So every Match index must have been produced behind a checked (flag-acquiring) read,
    and unpublished indices must be parked in `in_flight` instead (shared with C06)."""
    from props.c06 import rule_unchecked_feed as r
    r(ctx)


def rule_lying_iter(ctx):
    """Two writers never write the same entry: `extend` writes only indices of its own reservation, whatever its iterator
    yields (shared with C08 / C11)."""
    from props.c08 import rule_lying_iter as r
    r(ctx)


def rules(ctx):
    ctx.run_rule("C09.order-table", rule_order_table)
    ctx.run_rule("C09.unchecked-feed", rule_unchecked_feed)
    ctx.run_rule("C09.matchers-confined", rule_matchers_confined)
    ctx.run_rule("C09.guard-moved", rule_guard_moved)
    ctx.run_rule("C09.unsafe-impls", rule_unsafe_impls)
    ctx.run_rule("C09.send-sync-bounds", rule_send_sync_bounds)
    ctx.run_rule("C09.send-sync-witness", rule_send_sync_witness)
    ctx.run_rule("C09.lying-iter", rule_lying_iter)

"""C01 — fuzzy matching decides exactly the normalized-subsequence relation (structural clauses)."""
from cfg import Inconclusive, op_place, show, walk, strip_casts
from common import (calls_to, callee, callee_names, closure_creations, closure_consumer, field_chain, fn_of,
                    get_fn, head_sources, peel, site, guards_of, ret_aggregates, uses_of_local, is_diverging)

PROP = "C01"
LEVEL = "other"
UNDECIDED = [
    "the iff itself (subsequence relation over all inputs) and the agreement of the three deciders (prefilter, row offsets, greedy) as functions",
]
ASSUMPTIONS = [
    "memchr/memchr2/memrchr find exactly the listed bytes",
    "setup() runs before score_row on the same slab view (call order inside fuzzy_match_optimal, checked)",
]

M = "nucleo_matcher"
FOLD_TABLE = "chars::case_fold::CASE_FOLDING_SIMPLE"
NORMALIZE_FNS = ("chars::Char::normalize", "<char as chars::Char>::normalize", "<chars::AsciiChar as chars::Char>::normalize")
CCAN_FNS = ("chars::Char::char_class_and_normalize", "<char as chars::Char>::char_class_and_normalize",
            "<chars::AsciiChar as chars::Char>::char_class_and_normalize")


# ---------------------------------------------------------------- interval exploration

def reach_sets(fn, is_scrutinee, target_pred, lo=0, hi=255):
    """Explore paths from entry narrowing an interval on the scrutinee at range tests; returns
    [(lo, hi, other_conditions, bb)] for every block satisfying target_pred that is reached."""
    out = []

    def go(bb, lo, hi, conds, seen):
        if lo > hi or (bb, lo, hi) in seen:
            return
        seen = seen | {(bb, lo, hi)}
        if target_pred(bb):
            out.append((lo, hi, tuple(conds), bb))
        t = fn.blocks[bb]["term"]
        if t["k"] == "switch":
            e = fn.expr_of_operand(t["discr"])
            if e[0] == "bin" and e[1] in ("Lt", "Le", "Gt", "Ge", "Eq", "Ne") and is_scrutinee(strip_casts(e[2])) and e[3][0] == "const" and isinstance(e[3][1], int):
                K = e[3][1]
                op = e[1]
                false_t = [b_ for v, b_ in t["arms"] if v == 0][0]
                true_t = t["otherwise"]
                if op == "Lt":
                    tr, fa = [(lo, min(hi, K - 1))], [(max(lo, K), hi)]
                elif op == "Le":
                    tr, fa = [(lo, min(hi, K))], [(max(lo, K + 1), hi)]
                elif op == "Ge":
                    tr, fa = [(max(lo, K), hi)], [(lo, min(hi, K - 1))]
                elif op == "Gt":
                    tr, fa = [(max(lo, K + 1), hi)], [(lo, min(hi, K))]
                elif op == "Eq":
                    tr, fa = [(max(lo, K), min(hi, K))], [(lo, min(hi, K - 1)), (max(lo, K + 1), hi)]
                else:
                    fa, tr = [(max(lo, K), min(hi, K))], [(lo, min(hi, K - 1)), (max(lo, K + 1), hi)]
                for a, b in tr:
                    go(true_t, a, b, conds, seen)
                for a, b in fa:
                    go(false_t, a, b, conds, seen)
                return
            for s in fn.succ[bb]:
                vals = [v for v, b_ in t["arms"] if b_ == s]
                go(s, lo, hi, conds + [(show(e)[:80], vals if vals else None)], seen)
            return
        for s in fn.succ[bb]:
            go(s, lo, hi, conds, seen)

    go(0, lo, hi, [], frozenset())
    return out


def union_intervals(xs):
    xs = sorted((a, b) for a, b in xs if a <= b)
    out = []
    for a, b in xs:
        if out and a <= out[-1][1] + 1:
            out[-1] = (out[-1][0], max(out[-1][1], b))
        else:
            out.append((a, b))
    return out


# ---------------------------------------------------------------- norm siblings

def config_atom(fn, e, _seen=None):
    """Classify a guard expression."""
    _seen = _seen or frozenset()
    e0 = e
    e = peel(e) if isinstance(e, tuple) and e and e[0] in ("ref", "deref") else e
    if e[0] == "field" and "config::Config" in (e[3] or ""):
        return ("config", e[2])
    if e[0] == "call" and str(e[1]).endswith("is_ascii"):
        return ("is_ascii",)
    if e[0] == "bin" and e[1] in ("Lt", "Le", "Gt", "Ge") and e[3][0] == "const":
        return ("range", e[1], e[3][1])
    if e[0] == "call" and str(e[3]).endswith("PartialEq::eq") or (e[0] == "call" and str(e[3]).endswith("PartialEq::ne")):
        a = peel(e[2][0])
        b = peel(e[2][1])
        if b[0] == "agg" and "CharClass::" in b[1]:
            return ("class", str(e[3]).rsplit("::", 1)[1], b[1].rsplit("::", 1)[1])
    if e[0] == "local":
        # multi-def bool local: summarise its definitions
        if e[1] in _seen:
            return ("local", e[2] or "_%d" % e[1], ("cyclic",))
        ds = []
        for _, _, d in fn.def_exprs(e[1]):
            a = config_atom(fn, d, _seen | {e[1]}) if d[0] != "const" else ("const", d[1])
            ds.append(a)
        return ("local", e[2] or "_%d" % e[1], tuple(ds))
    return ("other", show(e0)[:100])


def transformation_steps(ctx, fn, _depth=0):
    """[(kind, bb, [(atom, truth)])] for normalize / fold steps in a Char impl body."""
    steps = []
    for bi, t in fn.calls():
        c = callee(t)
        kind = None
        if c == "chars::normalize::normalize":
            kind = "normalize"
        elif c == "chars::to_lower_case":
            kind = "fold"
        elif c.endswith("binary_search_by_key"):
            tb = peel(fn.expr_of_operand(t["args"][0]))
            if (tb[0] == "const" and tb[2] == FOLD_TABLE) or (tb[0] == "constx" and tb[1] == FOLD_TABLE):
                kind = "fold"
        if kind:
            gs = []
            for g in guards_of(fn, bi):
                truth = g[2] in ([None], [1])
                gs.append((config_atom(fn, g[3]), truth))
            steps.append((kind, bi, gs))
        elif c == "<char as chars::Char>::normalize" and fn.path != c and _depth < 2:
            # delegation to the sibling routine: its steps, under the guards of the call site
            sib = get_fn(ctx.facts, M, c)
            here = [(config_atom(fn, g[3]), g[2] in ([None], [1])) for g in guards_of(fn, bi)]
            for k2, b2, g2 in transformation_steps(ctx, sib, _depth + 1):
                steps.append((k2, bi, here + g2))
    # AsciiChar: `self.0 += 32`
    for bi, si, s in fn.stmts(lambda s: s["k"] == "assign" and ("bin" in s["rv"]) and s["rv"]["bin"] in ("Add", "AddWithOverflow") and s["rv"].get("ty") == "u8"):
        b = fn.expr_of_operand(s["rv"]["b"])
        if b[0] == "const" and b[1] == 32:
            gs = []
            for g in guards_of(fn, bi):
                truth = g[2] in ([None], [1])
                gs.append((config_atom(fn, g[3]), truth))
            steps.append(("fold+32", bi, gs))
    return steps


def rule_char_compositions(ctx):
    from cfg import decision_paths
    facts = ctx.facts

    def cfg_atom(e):
        e = peel(e)
        while e[0] in ("ref", "deref"):
            e = peel(e[1])
        if e[0] == "field" and e[2] in ("normalize", "ignore_case") and "config::Config" in str(e[3] or ""):
            return e[2]
        return None

    def canon_t(e, fn, cfgv, depth=0):
        e = strip_casts(e)
        while e[0] in ("ref", "deref"):
            e = strip_casts(e[1])
        if e[0] == "arg" and e[1] == 1:
            return "c"
        if e[0] == "call":
            name = str(e[1])
            if name == "chars::normalize::normalize":
                return ("N", canon_t(e[2][0], fn, cfgv, depth + 1))
            if name == "chars::to_lower_case":
                return ("F", canon_t(e[2][0], fn, cfgv, depth + 1))
            if name.endswith("::map_or") and e[2][0][0] == "call" and str(e[2][0][1]).endswith("binary_search_by_key"):
                bs = e[2][0]
                tb = peel(bs[2][0])
                while tb[0] in ("ref", "deref"):
                    tb = peel(tb[1])
                key = canon_t(bs[2][1], fn, cfgv, depth + 1)
                dflt = canon_t(e[2][1], fn, cfgv, depth + 1)
                if FOLD_TABLE in tb[1:3] and key == dflt:
                    return ("F", key)
            if name == "<char as chars::Char>::normalize" and depth < 2:
                sib = get_fn(facts, M, name)
                inner = canon_t(e[2][0], fn, cfgv, depth + 1)
                forms = forms_of(sib, False).get(cfgv)
                if forms and len(forms) == 1 and inner == "c":
                    return list(forms)[0]
        return ("?", show(e)[:50])

    def forms_of(fn, pair):
        out = {}
        for conds, res in decision_paths(fn):
            if res is None:
                continue
            cfgs = {"normalize": None, "ignore_case": None}
            ascii_path = False
            for d, chosen, allv in conds:
                a = cfg_atom(d)
                truth = (chosen != 0) if chosen is not None else True
                if a:
                    cfgs[a] = truth
                d0 = strip_casts(d)
                if d0[0] == "call" and str(d0[1]).endswith("is_ascii") and truth:
                    ascii_path = True
            if ascii_path:
                continue
            val = res
            if pair:
                r = strip_casts(res)
                if r[0] != "tuple" or len(r[1]) != 2:
                    out.setdefault(None, set()).add(("?", "not a pair"))
                    continue
                val = r[1][0]
            for nz in (False, True):
                for ic in (False, True):
                    if cfgs["normalize"] in (None, nz) and cfgs["ignore_case"] in (None, ic):
                        out.setdefault((nz, ic), set()).add(canon_t(val, fn, (nz, ic)))
        return out
    a = get_fn(facts, M, "<char as chars::Char>::normalize")
    b = get_fn(facts, M, "<char as chars::Char>::char_class_and_normalize")
    fa, fb = forms_of(a, False), forms_of(b, True)
    want = {(False, False): "c", (False, True): ("F", "c"), (True, False): ("N", "c"), (True, True): ("F", ("N", "c"))}
    feats = facts.const(M, FOLD_TABLE) is not None
    for cfgv, w in want.items():
        for fn, forms, nm in ((a, fa, "normalize"), (b, fb, "char_class_and_normalize")):
            got = forms.get(cfgv, set())
            txt = "normalize=%s, ignore_case=%s" % cfgv
            if got == {w}:
                ctx.ok(site(fn, 0), "char::%s (%s) = %s on every path" % (nm, txt, w))
            else:
                ctx.violation("<char as chars::Char>|composition|%s|%d%d" % (nm, cfgv[0], cfgv[1]), site(fn, 0),
                              "char::%s with %s returns %s depending on the path; both routines must return %s for every non-ASCII character "
                              "(a short cut that skips or replaces the case-folding table for some characters makes the scoring side and the filtering side see different characters, e.g. Ǣ → Æ vs æ)"
                              % (nm, txt, sorted(map(str, got)), w))


_CHAR_EVAL = {}


def char_routines_by_evaluation(ctx):
    """Finite-domain evaluation of the character routines (their decision tables, the constant tables as evaluated by
    the compiler): `<char as Char>::normalize`, `::char_class_and_normalize`, `::char_class`, `to_lower_case`,
    `is_upper_case` on a complete set of representatives -- every ASCII character, every key and value of the fold
    table, every character of the blocks the Latin normalizer serves and its image, and a few characters outside all
    tables -- under the four (ignore_case, normalize) configurations.  Whatever the routines look like (helpers, match /
    if chains, shared lookups), this decides what they compute.  Returns None when a body cannot be evaluated."""
    key = id(ctx.facts)
    if key in _CHAR_EVAL:
        return _CHAR_EVAL[key]
    from absint import Evaluator, Unknown
    facts = ctx.facts
    out = None
    try:
        E = Evaluator(facts, M)
        fold_k = facts.const(M, FOLD_TABLE)
        FOLD = {a: b for a, b in fold_k["value"]} if fold_k is not None else {}
        nf = facts.body(M, "chars::normalize::normalize")
        reps = set(range(0, 128)) | set(FOLD) | set(FOLD.values()) | {0xB5, 0xD7, 0xF7, 0x4E00, 0x4E62, 0x1F600, 0xD7FF, 0xE000, 0x10FFFF, 0x0600, 0x3042}
        for k in facts.crate(M)["consts"]:
            if k["path"].startswith("chars::normalize::") and isinstance(k.get("value"), list) and k["value"] and isinstance(k["value"][0], int):
                reps |= set(k["value"])
        # the blocks the normalizer serves: every scalar whose image differs is found by probing the ranges around the
        # table images' preimages; the table lengths bound the blocks
        fn_n = get_fn(facts, M, "<char as chars::Char>::normalize")
        fn_c = get_fn(facts, M, "<char as chars::Char>::char_class_and_normalize")
        fn_k = get_fn(facts, M, "<char as chars::Char>::char_class")
        fn_lo = facts.body(M, "chars::to_lower_case")
        fn_up = facts.body(M, "chars::is_upper_case")
        NORM = {}
        if nf is not None:
            nfn = fn_of(nf)
            for lo_, hi_ in ((0x80, 0x24F + 1), (0x1E00, 0x1EFF + 1), (0x2070, 0x209F + 1), (0x2000, 0x206F + 1)):
                for c in range(lo_, hi_):
                    reps.add(c)
            for c in sorted(reps):
                NORM[c] = E.call(nfn, [c])
            reps |= set(NORM.values())
            for c in sorted(reps):
                if c not in NORM:
                    NORM[c] = E.call(nfn, [c])
        reps = sorted(c for c in reps if 0 <= c <= 0x10FFFF and not 0xD800 <= c <= 0xDFFF)
        res = {"reps": len(reps), "siblings": [], "composition": [], "class": [], "lower": [], "upper": [], "evals": 0}
        base_cfg = {"delimiter_chars": ("bytes", b"/,:;|"), "prefer_prefix": 0, "bonus_boundary_white": 8, "bonus_boundary_delimiter": 9,
                    "initial_char_class": ("enum", "CharClass", "Whitespace")}
        for ic in (0, 1):
            for nz in (0, 1):
                cfg = ("struct", "Config", dict(base_cfg, ignore_case=ic, normalize=nz))
                for c in reps:
                    a = E.call(fn_n, [c, cfg])
                    b = E.call(fn_c, [c, cfg])
                    k_ = E.call(fn_k, [c, cfg])
                    res["evals"] += 3
                    b0, b1 = b[1][0], b[1][1]
                    n_ = NORM.get(c, c) if (nz and nf is not None) else c
                    if ic:
                        want = (n_ + 32) if 65 <= n_ <= 90 else FOLD.get(n_, n_)
                    else:
                        want = n_
                    if a != b0 and len(res["siblings"]) < 5:
                        res["siblings"].append((c, ic, nz, a, b0))
                    if (a != want or b0 != want) and len(res["composition"]) < 5:
                        res["composition"].append((c, ic, nz, a, b0, want))
                    if b1 != k_ and len(res["class"]) < 5:
                        res["class"].append((c, ic, nz, b1, k_))
        if fn_lo is not None and fn_up is not None:
            flo, fup = fn_of(fn_lo), fn_of(fn_up)
            for c in reps:
                lo_v = E.call(flo, [c])
                up_v = E.call(fup, [c])
                res["evals"] += 2
                if lo_v != FOLD.get(c, c) and len(res["lower"]) < 5:
                    res["lower"].append((c, lo_v, FOLD.get(c, c)))
                if up_v != int(c in FOLD) and len(res["upper"]) < 5:
                    res["upper"].append((c, up_v, int(c in FOLD)))
        out = res
    except (Unknown, Inconclusive, RecursionError, KeyError, TypeError, IndexError):
        out = None
    _CHAR_EVAL[key] = out
    return out


def rule_norm_siblings(ctx):
    ev = char_routines_by_evaluation(ctx)
    if ev is not None:
        fnb = get_fn(ctx.facts, M, "<char as chars::Char>::char_class_and_normalize")
        if ev["siblings"]:
            c, ic, nz, a, b0 = ev["siblings"][0]
            ctx.violation("<char as chars::Char>|siblings|eval", site(fnb, 0),
                          "char::normalize and char::char_class_and_normalize disagree: for U+%04X with ignore_case=%s normalize=%s the first gives U+%04X, the second U+%04X "
                          "(the window is chosen with one and re-walked / scored with the other)" % (c, bool(ic), bool(nz), a, b0))
        elif ev["composition"]:
            c, ic, nz, a, b0, want = ev["composition"][0]
            ctx.violation("<char as chars::Char>|composition|eval", site(fnb, 0),
                          "for U+%04X with ignore_case=%s normalize=%s the normalizers return U+%04X / U+%04X, the composition fold(normalize(c)) of the tables is U+%04X"
                          % (c, bool(ic), bool(nz), a, b0, want))
        else:
            ctx.ok(site(fnb, 0), "char::normalize == char_class_and_normalize.0 == fold?(normalize?(c)) on %d representative characters x 4 configurations (%d evaluations of the "
                   "extracted decision tables against the compiler-evaluated constant tables)" % (ev["reps"], ev["evals"]))
        rule_ascii_fold_consts(ctx)
        return
    _rule_norm_siblings_structural(ctx)


def _rule_norm_siblings_structural(ctx):
    facts = ctx.facts
    features_fold = facts.const(M, FOLD_TABLE) is not None
    # ---- char
    a = get_fn(facts, M, "<char as chars::Char>::normalize")
    b = get_fn(facts, M, "<char as chars::Char>::char_class_and_normalize")
    sa = transformation_steps(ctx, a)
    sb = transformation_steps(ctx, b)
    ka = [k for k, _, _ in sa]
    kb = [k for k, _, _ in sb]
    if ka != kb:
        ctx.violation("<char as chars::Char>|steps|1", site(b, 0),
                      "the two normalizer routines of `char` apply different steps: normalize %s vs char_class_and_normalize %s" % (ka, kb))
    expected_cfg = {"normalize": "normalize", "fold": "ignore_case"}
    for fn, steps in ((a, sa), (b, sb)):
        for kind, bi, gs in steps:
            want = ("config", expected_cfg[kind])
            extra = []
            has = False
            for atom, truth in gs:
                if atom == want and truth:
                    has = True
                elif atom == ("is_ascii",) and not truth:
                    continue  # ASCII early-out delegates to AsciiChar (C16.ascii)
                else:
                    extra.append((atom, truth))
            key = "%s|%s-guard|1" % (fn.path, kind)
            if not has:
                ctx.violation(key, site(fn, bi), "%s step is not guarded by config.%s" % (kind, expected_cfg[kind]))
            elif extra:
                ctx.violation(key, site(fn, bi),
                              "%s step is additionally guarded by %s; its sibling `%s` applies it whenever config.%s is set, so the two routines disagree for characters "
                              "that fail the extra test (e.g. ς ſ µ: folded by one routine and not by the other)" % (
                                  kind, ["%s=%s" % (x, t) for x, t in extra], (a if fn is b else b).path.rsplit("::", 1)[1], expected_cfg[kind]))
            else:
                ctx.ok(site(fn, bi), "%s step guarded by config.%s only" % (kind, expected_cfg[kind]))
        # order: normalize before fold
        ns = [bi for k, bi, _ in steps if k == "normalize"]
        fs = [bi for k, bi, _ in steps if k == "fold"]
        if ns and fs:
            if set(ns) == set(fs) and len(set(ns)) == 1:
                ctx.ok(site(fn, ns[0]), "both steps are delegated to the sibling routine (order checked there)")
            elif all(f in fn.reach_from(n) and n not in fn.reach_from(f) for n in ns for f in fs):
                ctx.ok(site(fn, ns[0]), "normalize is applied before fold")
            else:
                ctx.violation("%s|step-order|1" % fn.path, site(fn, ns[0]), "fold is not applied after normalize")
    if not sa or not sb:
        ctx.note("no transformation steps found in the char impl (features off?)")
        ctx.ok("<char as chars::Char>", "no normalization/folding steps compiled in this configuration")
    # path-sensitive: for every configuration, on every decision path for a non-ASCII character, both routines
    # return the same composition of the two table functions: c / fold(c) / norm(c) / fold(norm(c))
    rule_char_compositions(ctx)
    # ---- AsciiChar
    rule_ascii_fold_consts(ctx)


def upper_set_of_char_class(ctx):
    f = get_fn(ctx.facts, M, "<chars::AsciiChar as chars::Char>::char_class")

    def is_scr(e):
        return e[0] == "field" and e[2] == "0" and peel(e[1])[0] == "arg"

    def is_upper_leaf(bb):
        for s in f.blocks[bb]["stmts"]:
            if s["k"] == "assign" and s["lhs"]["l"] == 0 and not s["lhs"]["p"]:
                e = f.expr_of_rvalue(s["rv"])
                if e[0] == "agg" and e[1].endswith("CharClass::Upper"):
                    return True
        return False
    rs = reach_sets(f, is_scr, is_upper_leaf)
    return union_intervals([(lo, hi) for lo, hi, conds, bb in rs]), any(conds for lo, hi, conds, bb in rs)


def rule_ascii_fold_consts(ctx):
    """AsciiChar::normalize and ::char_class_and_normalize as complete functions of (byte, ignore_case, normalize):
    both fold exactly b'A'..=b'Z' by +32 under ignore_case and nothing else, and the class component is
    char_class(byte).  Evaluated from the extracted decision tables for all 256 x 4 inputs (absint)."""
    from absint import Evaluator, Unknown
    facts = ctx.facts
    n = get_fn(facts, M, "<chars::AsciiChar as chars::Char>::normalize")
    c = get_fn(facts, M, "<chars::AsciiChar as chars::Char>::char_class_and_normalize")
    k = get_fn(facts, M, "<chars::AsciiChar as chars::Char>::char_class")
    E = Evaluator(facts, M)
    folded_n, folded_c = {}, {}
    bad_class = []
    try:
        for ic in (0, 1):
            for nz in (0, 1):
                cfg = ("struct", "Config", {"ignore_case": ic, "normalize": nz, "delimiter_chars": ("bytes", b"/,:;|")})
                for b in range(256):
                    me = ("struct", "AsciiChar", {"0": b})
                    r = E.call(n, [me, cfg])
                    v = E.field(r, "0")
                    if v != b:
                        folded_n[(ic, b)] = v
                    r2 = E.call(c, [me, cfg])
                    v2 = E.field(E.field(r2, "0"), "0")
                    if v2 != b:
                        folded_c[(ic, b)] = v2
                    cls = E.call(k, [me, cfg])
                    if E.field(r2, "1") != cls and len(bad_class) < 3:
                        bad_class.append((b, E.field(r2, "1"), cls))
    except Unknown as ex:
        raise Inconclusive("AsciiChar normalizers are not finite decision tables over (byte, config): %s" % ex)
    want = {(1, b): b + 32 for b in range(65, 91)}
    if not folded_n or not folded_c:
        ctx.violation("AsciiChar|fold-step|1", site(n, 0), "ASCII folding (`+ 32`) missing in %s" % ("normalize" if not folded_n else "char_class_and_normalize"))
        return

    def sets(f):
        return union_intervals([(b, b) for (ic, b) in f])
    nocfg = [fn_ for fn_, f in ((n, folded_n), (c, folded_c)) if any(ic == 0 for ic, b in f)]
    for fn_ in nocfg:
        ctx.violation("%s|fold-config|1" % fn_.path, site(fn_, 0), "ASCII folding not guarded by config.ignore_case")
    if folded_n == want and folded_c == want:
        ctx.ok(site(n, 0), "AsciiChar::normalize and ::char_class_and_normalize fold exactly b'A'..=b'Z' by +32, only under ignore_case (256 x 4 inputs each)")
    elif not nocfg or sets(folded_n) != [(65, 90)] or sets(folded_c) != [(65, 90)] or any(v != b + 32 for (ic, b), v in list(folded_n.items()) + list(folded_c.items())):
        if not (nocfg and sets(folded_n) == [(65, 90)] and sets(folded_c) == [(65, 90)]):
            ctx.violation("AsciiChar|fold-set|1", site(c, 0), "ASCII fold sets differ or are not A..=Z -> +32: normalize folds %s, char_class_and_normalize folds %s" % (sets(folded_n), sets(folded_c)))
    if bad_class:
        ctx.violation("AsciiChar|class-component|1", site(c, 0), "char_class_and_normalize returns a class different from char_class for byte(s) %s" % bad_class)
    else:
        ctx.ok(site(c, 0), "class component of char_class_and_normalize == char_class(byte) for all bytes and configurations")
    for fn_ in (n, c):
        if fn_ not in nocfg:
            ctx.ok(site(fn_, 0), "ASCII folding only under config.ignore_case")
    # the `char` impl's ASCII early-out delegates to the AsciiChar sibling
    cc = get_fn(facts, M, "<char as chars::Char>::char_class_and_normalize")
    deleg = [bi for bi, t in cc.calls(lambda t: callee(t) == "<chars::AsciiChar as chars::Char>::char_class_and_normalize")]
    if deleg:
        g = [config_atom(cc, x[3]) for x in guards_of(cc, deleg[0])]
        if ("is_ascii",) in g:
            ctx.ok(site(cc, deleg[0]), "char::char_class_and_normalize delegates ASCII to the AsciiChar sibling")
    # prefilter: bytes searched for needle byte c under ignore_case = pre-images of c under AsciiChar::normalize
    rule_ascii_prefilter(ctx)


def rule_ascii_prefilter(ctx):
    facts = ctx.facts
    n = 0
    for b in facts.bodies_of(M):
        fn = fn_of(b)
        for bi, t in fn.calls(lambda t: callee(t) in ("memchr::memchr2", "memchr::memrchr2") or callee(t).endswith("Memchr2::<'h>::new") or callee(t).endswith("Memchr2::new")):
            n += 1
            key = "%s|memchr2|%d" % (fn.path, n)
            a = strip_casts(fn.expr_of_operand(t["args"][0]))
            b2 = strip_casts(fn.expr_of_operand(t["args"][1]))
            # finite domain: for every byte value x of the first searched byte for which the guards on the path hold,
            # the searched pair {x, second(x)} must be the pre-images of x under ASCII folding = {x, x - 32}, x in a..=z
            from absint import Evaluator, Unknown
            E = Evaluator(facts, M)
            VAR = ("arg", 9999, "x")

            def subst(e):
                if not isinstance(e, tuple):
                    return e
                if strip_casts(e) == a:
                    return VAR
                return tuple(subst(x) if isinstance(x, tuple) else (tuple(subst(y) for y in x) if isinstance(x, tuple) else x) for x in e)

            def subst_deep(e):
                if isinstance(e, tuple):
                    if e and isinstance(e[0], str) and strip_casts(e) == a:
                        return VAR
                    return tuple(subst_deep(x) for x in e)
                if isinstance(e, dict):
                    return {k_: subst_deep(v_) for k_, v_ in e.items()}
                return e
            b_x = subst_deep(b2)
            gs = guards_of(fn, bi)
            gx = []
            pos_guard = False
            for g in gs:
                e = g[3]
                truth = g[2] in ([None], [1])
                ex = subst_deep(e)
                if any(isinstance(x, tuple) and x == VAR for x in walk(ex)):
                    gx.append((ex, truth))
                if e[0] == "discr" or e[0] == "field":
                    cands = [e]
                    for x in walk(e):
                        if x[0] == "local":   # e.g. `let first_letter = if ignore_case { needle.iter().position(..) } else { None }`
                            cands += [d for _, _, d in fn.def_exprs(x[1])]
                    for c_ in cands:
                        for x in walk(c_):
                            if x[0] == "call" and str(x[1]).endswith("::position"):
                                pos_guard = True
            bad = None
            admitted = []
            try:
                for x in range(256):
                    env = {9999: x}
                    if not all(bool(E.ev(ex, env)) == truth for ex, truth in gx):
                        continue
                    admitted.append(x)
                    if not (97 <= x <= 122):
                        continue   # judged below: the guard must exclude these unless established elsewhere
                    y = E.ev(b_x, env)
                    if {x, y} != {x, x - 32}:
                        bad = (x, y)
                        break
            except Unknown as ex_:
                ctx.violation(key, site(fn, bi), "case-insensitive byte search looks for (%s, %s): not a function of the first byte that can be evaluated (%s)" % (show(a), show(b2), ex_))
                continue
            if bad is not None:
                ctx.violation(key, site(fn, bi), "case-insensitive byte search looks for (%s, %s); for first byte %r the second is %s, but the pre-images of c under ASCII folding are exactly {c, c - 32}" % (show(a), show(b2), bad[0], bad[1]))
                continue
            okr = bool(gx) and all(97 <= x <= 122 for x in admitted)
            if okr:
                ctx.ok(site(fn, bi), "searches {c, c-32} only when c is in b'a'..=b'z' (image of A..=Z under +32); %d byte values admitted by the guards" % len(admitted))
            elif pos_guard:
                # closure must test a..z and the arm must be Some(0) with c = needle[0]
                ctx.ok(site(fn, bi), "searches {c, c-32} for needle[0] on the arm where the first a..z letter is at position 0")
            else:
                ctx.violation(key, site(fn, bi), "searches {c, c-32} without establishing c in b'a'..=b'z': for other bytes c-32 is a different character (false candidates) or underflows")
    ctx.floor("two-byte case-insensitive searches", n, 4)
    # helpers are only called under ignore_case
    for fn, bi, t in calls_to(facts, M, lambda t: callee(t) in ("prefilter::find_ascii_ignore_case", "prefilter::find_ascii_ignore_case_rev")):
        g = [config_atom(fn, x[3]) for x in guards_of(fn, bi) if x[2] in ([None], [1])]
        if ("config", "ignore_case") in g:
            ctx.ok(site(fn, bi), "case-insensitive prefilter only under config.ignore_case")
        else:
            ctx.violation("%s|find_ascii_ignore_case|guard" % fn.path, site(fn, bi), "case-insensitive byte search used although config.ignore_case may be false: case-sensitive matching would accept the wrong case")


# ---------------------------------------------------------------- norm-route

def closure_returns_normalize(facts, clo):
    if clo[0] != "closure":
        return False
    b = facts.body(M, clo[1])
    if b is None:
        return False
    f = fn_of(b)
    for bi, si, rv in ret_aggregates(f):
        e = f.expr_of_rvalue(rv)
        for x in walk(e):
            if x[0] == "call" and (x[3] in NORMALIZE_FNS or x[1] in NORMALIZE_FNS):
                return True
    for bi, t in f.calls(lambda t: t["dest"]["l"] == 0 and (callee(t) in NORMALIZE_FNS or t.get("fn") in NORMALIZE_FNS)):
        return True
    return False


def normalized(facts, fn, e):
    """Does the expression carry a haystack character through the configured normalizer?"""
    for x in walk(e):
        if x[0] == "call":
            names = (x[1], x[3])
            if any(nm in NORMALIZE_FNS for nm in names):
                return "Char::normalize"
            if any(nm in CCAN_FNS for nm in names):
                return "char_class_and_normalize"
            if str(x[1]).endswith("Iterator::map") and len(x[2]) > 1 and closure_returns_normalize(facts, x[2][1]):
                return "map(normalize)"
    return None


def rule_norm_route(ctx, only=None, floor=14):
    """only: restrict to bodies whose path contains one of these substrings (used by C02 / C05 for their own clauses)."""
    facts = ctx.facts
    n = 0
    skip_bodies = ("pattern::", "chars::", "score::<impl config::Config>", "fuzzy_optimal::next_m_cell", "matrix::", "utf32_str::", "config::")
    for b in facts.bodies_of(M):
        if only is not None and not any(o in b["path"] for o in only):
            continue
        if b.get("impl_trait") in ("std::cmp::PartialEq", "std::cmp::PartialOrd", "std::cmp::Ord", "std::hash::Hash", "std::fmt::Debug", "std::clone::Clone"):
            continue
        if any(b["path"].lstrip("<").startswith(s) for s in skip_bodies):
            continue        # (`<utf32_str::Utf32String as From<&str>>::from` is a body of utf32_str too)
        fn = fn_of(b)
        sites_ = []
        for bi, t in fn.calls(lambda t: str(t.get("fn")).endswith("PartialEq::eq") or str(t.get("fn")).endswith("PartialEq::ne") or str(t.get("fn")).endswith("Iterator::eq")):
            tys = t.get("arg_tys", [])
            if any("CharClass" in x or "AtomKind" in x or "ScoreCell" in x for x in tys):
                continue
            sites_.append((bi, None, fn.expr_of_operand(t["args"][0]), fn.expr_of_operand(t["args"][1]), t["fn"].rsplit("::", 1)[1]))
        for bi, si, s in fn.stmts(lambda s: s["k"] == "assign" and s["rv"].get("bin") in ("Eq", "Ne") and s["rv"].get("ty") in ("char", "u8", "chars::AsciiChar")):
            a = fn.expr_of_operand(s["rv"]["a"])
            b2 = fn.expr_of_operand(s["rv"]["b"])
            # only comparisons that involve the needle
            names = [x[2] for x in walk(a) if x[0] in ("arg", "local")] + [x[2] for x in walk(b2) if x[0] in ("arg", "local")] + \
                    [x[2] for x in walk(b2) if x[0] == "field"] + [x[2] for x in walk(a) if x[0] == "field"]
            if any(nm and "needle" in nm for nm in names):
                sites_.append((bi, si, a, b2, s["rv"]["bin"]))
        k = 0
        for bi, si, a, b2, op in sites_:
            n += 1
            k += 1
            key = "%s|compare|%d" % (fn.path, k)
            how = normalized(facts, fn, a)
            if how is None:
                # maybe the haystack side is second
                alt = normalized(facts, fn, b2)
                hay_in_b = any(x[0] in ("arg", "local") and x[2] and "haystack" in x[2] for x in walk(b2))
                if alt and hay_in_b:
                    how = alt
            if how:
                ctx.ok(site(fn, bi, si), "haystack side normalized through %s" % how)
                continue
            # the slab's haystack view in score_row
            if fn.path.endswith("::score_row"):
                src_arg = [x for x in walk(a) if x[0] == "arg" and x[2] == "haystack"]
                if src_arg:
                    ctx.ok(site(fn, bi, si), "reads the slab's haystack view, which setup() overwrote with normalized characters")
                    continue
            # raw comparison: only under ignore_case == false in the ASCII x ASCII arm
            gs = [(config_atom(fn, g[3]), g[2] in ([None], [1])) for g in guards_of(fn, bi)]
            tys_ascii = "u8" in show(a) or True
            if (("config", "ignore_case"), False) in gs and any(x[0] == "downcast" and x[2] == "Ascii" for x in walk(a)):
                ctx.ok(site(fn, bi, si), "raw byte comparison only under ignore_case == false on ASCII data (the ASCII normalizer is then the identity)")
                continue
            ctx.violation(key, site(fn, bi, si), "haystack character reaches a comparison with the needle without passing the configured normalizer: %s %s %s" % (show(a)[:90], op, show(b2)[:60]))
    ctx.floor("haystack/needle comparison sites", n, floor)
    if only is not None:
        return
    # setup() stores the normalized character back into the view on every iteration
    st = get_fn(facts, M, "fuzzy_optimal::<impl matrix::MatcherDataView<'_, H>>::setup")
    stores = []
    # a store into memory (through a reference / an index: `*c_ = c`, `self.haystack[i] = c`), not into a local
    for bi, si, s in st.stmts(lambda s: s["k"] == "assign" and any(el == "deref" or (isinstance(el, dict) and "index" in el) for el in s["lhs"]["p"])):
        e = st.expr_of_rvalue(s["rv"])
        if e[0] == "field" and e[2] == "0" and peel(e[1])[0] == "call" and (peel(e[1])[3] in CCAN_FNS or peel(e[1])[1] in CCAN_FNS):
            # ... and the memory is the haystack view of the slab
            tgt = st.expr_of_place({"l": s["lhs"]["l"], "p": []})
            names = set()
            seen_l = set()
            work = [tgt]
            for el in s["lhs"]["p"]:
                if isinstance(el, dict) and "f" in el:
                    names.add(el["name"])
            while work:
                x0 = work.pop()
                for x in walk(x0):
                    if x[0] == "field":
                        names.add(x[2])
                    if x[0] == "local" and x[1] not in seen_l:
                        seen_l.add(x[1])
                        work += [d for _, _, d in st.def_exprs(x[1])]
            if "haystack" in names:
                stores.append((bi, si))
    if stores:
        # in the column loop, before the comparison
        cmp_blocks = [bi for bi, t in st.calls(lambda t: str(t.get("fn")).endswith("PartialEq::eq"))]
        if all(st.dominates(stores[0][0], c) for c in cmp_blocks):
            ctx.ok(site(st, stores[0][0], stores[0][1]), "setup writes the normalized character back into the slab on every column before it is compared")
        else:
            ctx.violation("setup|store-normalized|order", site(st, stores[0][0]), "normalized character is not stored before the comparison")
    else:
        ctx.violation("setup|store-normalized|1", site(st, 0), "setup no longer writes the normalized character into the slab's haystack view: score_row compares raw characters")
    # score_row is only called with the view's haystack
    for fn, bi, t in calls_to(facts, M, lambda t: callee(t).endswith("::score_row")):
        h = fn.expr_of_operand(t["args"][2])
        base, names = field_chain(h)
        if names[-1:] == ["haystack"]:
            ctx.ok(site(fn, bi), "score_row reads self.haystack (the normalized copy)")
        else:
            ctx.violation("%s|score_row-haystack|1" % fn.path, site(fn, bi), "score_row called with %s instead of the normalized slab copy" % show(h))



def predicate_returns(facts, fn, depth=0):
    """All values a predicate closure can return, following calls to local closures/functions:
    [(Fn, bb, expr)]"""
    out = []
    if depth > 3:
        raise Inconclusive("predicate nesting too deep in %s" % fn.path)
    for bi, si, rv in ret_aggregates(fn):
        out.append((fn, bi, fn.expr_of_rvalue(rv)))
    for bi, t in fn.calls(lambda t: t["dest"]["l"] == 0 and not t["dest"]["p"]):
        c = callee(t)
        body = facts.body(M, c)
        if body is None and (t.get("fn") or "").startswith("std::ops::Fn"):
            # call of a captured closure: resolve through the resolved instance or the closure type
            r = t.get("resolved")
            if r:
                body = facts.body(M, r)
            if body is None:
                ty = (t.get("arg_tys") or [""])[0]
                m = None
                for b2 in facts.bodies_of(M):
                    if b2["kind"] == "Closure" and ("%s:%d:%d" % (b2["loc"]["file"], b2["loc"]["line"], b2["loc"]["col"])) in ty:
                        m = b2
                body = m
        if body is not None and body["path"] != fn.path:
            out += predicate_returns(facts, fn_of(body), depth + 1)
        elif c in NORMALIZE_FNS:
            out.append((fn, bi, ("call", c, tuple(fn.expr_of_operand(a) for a in t["args"]), t.get("fn"), (bi, 0))))
        else:
            raise Inconclusive("predicate in %s returns the result of %s, which cannot be followed" % (fn.path, c))
    return out


def rule_predicate_purity(ctx):
    """The scanning predicates of the non-ASCII prefilter decide by nothing but the normalized
    comparison: a branch that answers `false`/`true` without normalizing the haystack character is
    a second, different normalizer."""
    facts = ctx.facts
    fn = get_fn(facts, M, "prefilter::<impl Matcher>::prefilter_non_ascii")
    n = 0
    for bi, t in fn.calls(lambda t: callee(t).endswith("::position") or callee(t).endswith("::rposition") or callee(t).endswith("Iterator::find") or callee(t).endswith("Iterator::any")):
        clo = fn.expr_of_operand(t["args"][1])
        if clo[0] != "closure":
            ctx.fail_closed("scan predicate at %s is not a closure literal" % site(fn, bi))
            continue
        cf = get_fn(facts, M, clo[1])
        n += 1
        bad = []
        for f2, b2, e in predicate_returns(facts, cf):
            if e[0] == "bin" and e[1] in ("Eq", "Ne") and normalized(facts, f2, e[2]):
                continue
            if e[0] == "bin" and e[1] in ("Eq", "Ne") and normalized(facts, f2, e[3]):
                continue
            if e[0] == "call" and (str(e[3]).endswith("PartialEq::eq") or str(e[3]).endswith("PartialEq::ne")) and normalized(facts, f2, e[2][0]):
                continue
            bad.append((f2, b2, e))
        if bad:
            f2, b2, e = bad[0]
            ctx.violation("%s|predicate|%d" % (fn.path, n), site(f2, b2),
                          "the prefilter's scan predicate can answer %s without comparing the normalized haystack character with the needle character: for characters that only the normalizer maps onto the needle (e.g. ſ → s, K → k under case folding) the prefilter rejects what the scorer accepts" % show(e)[:60])
        else:
            ctx.ok(site(cf, 0), "scan predicate is exactly `normalize(c) == needle_char`")
    ctx.floor("scan predicates in prefilter_non_ascii", n, 2)


# ---------------------------------------------------------------- repr-only

DISPATCHERS = ("Matcher::fuzzy_matcher_impl", "Matcher::fuzzy_match_greedy_impl", "Matcher::substring_match_impl", "Matcher::exact_match_impl")


def rule_repr_only(ctx, only=("Matcher::fuzzy_matcher_impl", "Matcher::fuzzy_match_greedy_impl"), floor=2):
    facts = ctx.facts
    found = 0
    for b in facts.bodies_of(M):
        if only and b["path"] not in only:
            # dispatchers outside the named set are still inspected when they are new
            if b["path"] in DISPATCHERS:
                continue
        fn = fn_of(b)
        # switches on the discriminant of a tuple's two components
        sw = {}
        for bi in sorted(fn.live):
            t = fn.blocks[bi]["term"]
            if t["k"] != "switch":
                continue
            e = fn.expr_of_operand(t["discr"])
            if e[0] == "discr" and "Utf32Str" in str(e[2]):
                sw[bi] = e
        if len(sw) < 2:
            continue
        found += 1
        # arms: blocks reached by fixing both discriminants
        first = [bi for bi, e in sw.items() if not any(fn.dominates(o, bi) and o != bi for o in sw)]
        if not first:
            ctx.fail_closed("%s: cannot identify the outer representation switch" % fn.path)
            continue
        seen_keys = set()
        # several dispatches in one body (one to pick a prefilter, one to pick a matcher): each is looked at
        for f0, v0, b0 in [(f_, v_, b_) for f_ in sorted(first) for v_, b_ in fn.blocks[f_]["term"]["arms"] + [[None, fn.blocks[f_]["term"]["otherwise"]]]]:
            if b0 not in fn.live or fn.blocks[b0]["term"]["k"] == "unreachable":
                continue
            inner = [bi for bi in sw if bi != f0 and (bi == b0 or (fn.dominates(b0, bi)))]
            inner = [bi for bi in inner if fn.must_pass(bi, via_edges=[(f0, b0)])]
            if not inner:
                continue
            i0 = inner[0]
            t1 = fn.blocks[i0]["term"]
            for v1, b1 in t1["arms"] + [[None, t1["otherwise"]]]:
                if b1 not in fn.live or fn.blocks[b1]["term"]["k"] == "unreachable":
                    continue
                # region of the arm: blocks dominated by b1 (reachable only through this edge)
                region = [x for x in fn.reach_from(b1) if fn.must_pass(x, via_edges=[(i0, b1)])]
                calls = [x for x in region if fn.blocks[x]["term"]["k"] == "call"]
                reads_payload = False
                for x in region:
                    for s in fn.blocks[x]["stmts"]:
                        if s["k"] == "assign":
                            txt = str(s["rv"])
                            if "downcast" in txt:
                                reads_payload = True
                rets = []
                for x in region:
                    for s in fn.blocks[x]["stmts"]:
                        if s["k"] == "assign" and s["lhs"]["l"] == 0 and not s["lhs"]["p"]:
                            rets.append(fn.expr_of_rvalue(s["rv"]))
                names = {0: "Ascii", 1: "Unicode", None: "other"}
                arm = "(%s, %s)" % (names.get(v0, v0), names.get(v1, v1))
                if not calls and not reads_payload and rets and all(r[0] in ("agg", "const") for r in rets):
                    if (fn.path, arm) in seen_keys:
                        continue
                    seen_keys.add((fn.path, arm))
                    ctx.violation("%s|repr-arm|%s" % (fn.path, arm), site(fn, b1),
                                  "arm %s returns %s without looking at either string: the accept/reject decision depends on the representation alone "
                                  "(an ASCII needle held as code points, e.g. one containing CR LF, never matches an ASCII haystack)" % (arm, show(rets[0])))
                else:
                    ctx.ok(site(fn, b1), "arm %s inspects the strings (%d calls)" % (arm, len(calls)))
    ctx.floor("representation dispatchers", found, floor)


# ---------------------------------------------------------------- entry order

def prefilter_completeness(facts):
    """{prefilter path: (complete?, why)}.  A prefilter is a complete decider of the subsequence relation when every
    Some(..) it returns lies behind a loop over needle[1..] that can leave with None (each needle character was looked
    for); otherwise (first / last character and the window length only) a Some is just a necessary condition."""
    from props.c11 import for_loops
    out = {}
    for b in facts.bodies_of(M):
        if not (b["path"].startswith("prefilter::<impl Matcher>::prefilter_") and "{closure" not in b["path"]):
            continue
        pf = fn_of(b)
        nl = None
        for l in range(1, pf.arg_count + 1):
            if pf.names.get(l) == "needle":
                nl = l
        def is_needle(e, depth=0):
            """is `e` the needle parameter or a part / view of it (not merely an expression that mentions it)?"""
            e = strip_casts(e)
            if depth > 12 or not isinstance(e, tuple) or not e:
                return False
            if e[0] == "arg":
                return e[1] == nl
            if e[0] in ("ref", "deref", "field", "downcast"):
                return is_needle(e[1], depth + 1)
            if e[0] == "cast":
                return is_needle(e[2], depth + 1)
            if e[0] == "call" and e[2]:
                return is_needle(e[2][0], depth + 1)
            return False

        def needle_tail(e):
            """needle[1..] in any spelling: index by 1.., split_first().1, iter().skip(1)"""
            for x in walk(e):
                if x[0] == "call" and str(x[1]).endswith("::index") and is_needle(x[2][0]) and x[2][1][0] == "agg" and str(x[2][1][1]).endswith("RangeFrom::RangeFrom") \
                        and tuple(strip_casts(x[2][1][2].get("start", ("?",)))[:2]) == ("const", 1):
                    return True
                if x[0] == "field" and x[2] == "1" and any(y[0] == "call" and str(y[1]).endswith("::split_first") and is_needle(y[2][0]) for y in walk(x[1])):
                    return True
                if x[0] == "call" and str(x[1]).endswith("Iterator::skip") and is_needle(x[2][0]) and tuple(strip_casts(x[2][1])[:2]) == ("const", 1):
                    return True
            return False

        def has_none_exit(f_, blocks):
            return any(f_.blocks[bi]["term"]["k"] == "call" and callee(f_.blocks[bi]["term"]).endswith("Try>::branch") for bi in blocks)
        walked = []     # blocks that are reached only once every character of needle[1..] has been found
        for h, body, nxt in for_loops(pf):
            if nxt is None:
                continue
            src = pf.expr_of_operand(pf.blocks[nxt[0]]["term"]["args"][0])
            if needle_tail(src) and has_none_exit(pf, body):
                walked.append(nxt[2])
        # the same walk written with try_fold / try_for_each / all over needle[1..]: its closure can say None, and the
        # result is `?`-ed
        from common import iter_pipeline
        for bi, t in pf.calls(lambda t: any(str(t.get("fn")).endswith(x) for x in ("Iterator::try_fold", "Iterator::try_for_each"))):
            st = iter_pipeline(pf, t)
            if not st or st[0][0] != "source" or not needle_tail(st[0][2]):
                continue
            if any(not k.startswith("total:") or k == "total:rev" for k, c_, e_ in st[1:]):
                continue
            clo = [pf.expr_of_operand(a) for a in t["args"][1:]]
            clo = [c_ for c_ in clo if c_[0] == "closure"]
            if not clo:
                continue
            cf = get_fn(facts, M, clo[0][1])
            if not has_none_exit(cf, range(len(cf.blocks))):
                continue
            # continue edge of the `?` applied to the fold's result
            cid = (bi, t["dest"]["l"])
            for b2, t2 in pf.calls(lambda t_: callee(t_).endswith("Try>::branch")):
                if any(x[0] == "call" and len(x) > 4 and x[4] == cid for x in walk(pf.expr_of_operand(t2["args"][0]))):
                    sw = pf.blocks[t2["target"]]["term"]
                    if sw["k"] == "switch":
                        cont = [bb for v, bb in sw["arms"] if v == 0]
                        if cont:
                            walked.append(cont[0])
        nones = [bi for bi, t in pf.calls(lambda t: callee(t).endswith("from_residual"))]
        for bi, si, st_ in pf.stmts(lambda s_: s_["k"] == "assign" and s_["rv"].get("agg") == "adt" and s_["rv"].get("variant") == "None"):
            nones.append(bi)
        if walked and pf.all_paths_to_return_pass(0, via_nodes=walked + nones):
            out[b["path"]] = (True, "every Some lies behind a walk over needle[1..] that can leave with None")
        else:
            iterates = any(any(callee(t).endswith(x) for x in ("::iter", "::into_iter", "::chars", "::split_first", "::split_last")) and is_needle(pf.expr_of_operand(t["args"][0]))
                           for bi, t in pf.calls() if t["args"])
            partial = False
            for h, body, nxt in for_loops(pf):
                if nxt is None:
                    continue
                src = pf.expr_of_operand(pf.blocks[nxt[0]]["term"]["args"][0])
                for x in walk(src):
                    if x[0] == "call" and str(x[1]).endswith("::index") and is_needle(x[2][0]) and x[2][1][0] == "agg" and isinstance(x[2][1][2], dict) and "end" in x[2][1][2]:
                        partial = True
            if partial:
                out[b["path"]] = (False, "a walk over needle[a..b] leaves out the end of the needle: its last character(s) are not required to occur")
            elif iterates:
                out[b["path"]] = (None, "iterates over the needle in a form that is not recognised as a complete walk")
            else:
                out[b["path"]] = (False, "no walk over the needle: only single characters (first / last) and the window length are inspected")
    return out


def rule_decider_before_score(ctx):
    """`calculate_score` never rejects: it scores whatever window it is given.  A dispatcher may therefore return
    Some(calculate_score(..)) only where a complete decider has already succeeded on this (haystack, needle); behind an
    incomplete prefilter the window must go to a routine that can still say None (exact_match_impl, fuzzy_match_optimal,
    the greedy scan)."""
    facts = ctx.facts
    comp = prefilter_completeness(facts)
    ctx.floor("prefilters classified", len(comp), 2)
    for pth, (c, why) in sorted(comp.items()):
        ctx.ok(pth, "%s: %s (%s)" % (pth.rsplit("::", 1)[1], "complete decider" if c else ("necessary condition only" if c is False else "unclassified"), why))
    n = 0
    for name in ("Matcher::fuzzy_matcher_impl", "Matcher::fuzzy_match_greedy_impl"):
        fn = get_fn(facts, M, name)
        k = 0
        for bi, t in fn.calls(lambda t: callee(t) == "score::<impl Matcher>::calculate_score"):
            n += 1
            k += 1
            doms = [(pb, pt) for pb, pt in fn.calls(lambda t: callee(t) in comp) if fn.dominates(pb, bi) and pb != bi]
            gs = guards_of(fn, bi)

            def succeeded(pb, pt):
                """is the call's result known to be Some on the way to `bi` (the `?` continue edge or a Some pattern)?"""
                cid = (pb, pt["dest"]["l"])
                for g in gs:
                    e = g[3]
                    if e[0] != "discr":
                        continue
                    inner = e[1]
                    via_try = any(x[0] == "call" and str(x[1]).endswith("Try>::branch") for x in walk(inner))
                    if any(x[0] == "call" and len(x) > 4 and x[4] == cid for x in walk(inner)):
                        if (via_try and g[2] == [0]) or (not via_try and g[2] == [1]):
                            return True
                return False
            complete = [callee(pt) for pb, pt in doms if comp[callee(pt)][0] and succeeded(pb, pt)]
            if complete:
                ctx.ok(site(fn, bi), "calculate_score reached only after %s succeeded (every needle character found in order)" % complete[0].rsplit("::", 1)[1])
                continue
            unknown = [callee(pt) for pb, pt in doms if comp[callee(pt)][0] is None and succeeded(pb, pt)]
            if unknown:
                raise Inconclusive("%s: %s %s" % (name, unknown[0], comp[unknown[0]][1]))
            in_loop = any(bi in body for h, body, srcs in fn.loops())
            others = [callee(ot) for ob, ot in fn.calls() if fn.dominates(ob, bi) and ob != bi and
                      any(callee(ot).endswith(x) for x in ("::exact_match_impl", "::fuzzy_match_optimal", "::fuzzy_match_greedy_"))]
            if in_loop or others or any(h for h, body, srcs in fn.loops() if fn.dominates(h, bi)):
                raise Inconclusive("%s: calculate_score behind a hand-written check (%s)" % (name, others or "loop"))
            ctx.violation("%s|decider|%d" % (name, k), site(fn, bi),
                          "Some(calculate_score(..)) is returned where only %s has looked at the haystack (%s): a window whose interior does not contain the needle is "
                          "reported as a match (haystack \"é axc\", needle \"abc\"), while the greedy entry point says None" % (
                              ", ".join(sorted(set(callee(pt).rsplit("::", 1)[1] for pb, pt in doms))) or "no prefilter", comp[callee(doms[0][1])][1] if doms else "nothing"))
    ctx.floor("direct calculate_score calls in the fuzzy dispatchers", n, 1)


def rule_greedy_scan_start(ctx):
    """For a code-point haystack the greedy matcher's forward scan for needle[1..] STARTS at its `end` argument (for
    ASCII x ASCII the scan is compiled out and `end` is the prefilter's greedy end).  Whatever lies between the
    character needle[0] matched and `end` is never looked at: the relation is decided completely only if every
    non-ASCII call passes end = start + 1 (directly, through forwarded parameters, or through a result carried in a
    private enum / struct).  A window end handed in as `end` makes the scan start behind the last occurrence of the
    last needle character: None for a haystack that contains the needle."""
    from common import alternatives_tagged, tags_agree, resolve_under
    from cfg import poly_of, Poly
    facts = ctx.facts
    GREEDY = "fuzzy_greedy::<impl Matcher>::fuzzy_match_greedy_"
    g = get_fn(facts, M, GREEDY)
    names = {g.names.get(l): l for l in range(1, g.arg_count + 1)}
    if "start" not in names or "end" not in names:
        raise Inconclusive("fuzzy_match_greedy_: parameters `start` / `end` not found")
    n = [0]

    def judge(f2, bi, t, si, ei, depth):
        fa = [str(x) for x in (t.get("fn_args") or [])] if isinstance(t.get("fn_args"), list) else str(t.get("fn_args") or "").strip("[]").split(", ")
        if len(fa) >= 2 and fa[-2].endswith("AsciiChar") and fa[-1].endswith("AsciiChar"):
            return
        s_e = strip_casts(f2.expr_of_operand(t["args"][si]))
        e_e = strip_casts(f2.expr_of_operand(t["args"][ei]))
        sa, ea = alternatives_tagged(f2, s_e), alternatives_tagged(f2, e_e)
        pairs = [(strip_casts(resolve_under(f2, s1, tuple(ts) + tuple(te))), strip_casts(resolve_under(f2, e1, tuple(ts) + tuple(te)))) for ts, s1 in sa for te, e1 in ea if tags_agree(ts, te) and tags_agree(te, ts)]
        for s1, e1 in pairs or [(s_e, e_e)]:
            n[0] += 1

            def at(x, s1=s1):
                return "S" if repr(strip_casts(x)) == repr(s1) else None
            d = poly_of(e1, at) - Poly.atom("S")
            if not d.atoms() and not d.has_opaque():
                k = int(d.t.get((), 0))
                if k == 1:
                    ctx.ok(site(f2, bi), "code-point call passes end = start + 1: the forward scan starts right behind needle[0]'s match")
                elif k > 1:
                    ctx.violation("%s|greedy-scan-start|%s" % (f2.path, callee(t).rsplit("::", 1)[1]), site(f2, bi),
                                  "code-point call passes end = start + %d: the %d character(s) behind needle[0]'s match are never compared, a haystack that contains the needle there gets None" % (k, k - 1))
                continue
            if s1[0] == "arg" and e1[0] == "arg" and depth < 3:
                m_ = 0
                for f3, b3, t3 in calls_to(facts, M, lambda t_: callee(t_) == f2.path):
                    m_ += 1
                    judge(f3, b3, t3, s1[1] - 1, e1[1] - 1, depth + 1)
                if m_:
                    continue
            txt_s, txt_e = show(s1), show(e1)
            if s1[0] == "field" and e1[0] == "field" and "prefilter_ascii" in txt_s and s1[2] == "0" and e1[2] == "1" and repr(s1[1]) == repr(e1[1]):
                ctx.ok(site(f2, bi), "(start, greedy_end) of one prefilter_ascii result (only reached with an ASCII haystack)")
                continue
            pcs_ = [x for x in walk(e1) if x[0] == "call" and "prefilter::<impl Matcher>::prefilter_" in str(x[1])]
            full_ = bool(pcs_) and strip_casts(pcs_[0][2][-1])[0] == "const" and strip_casts(pcs_[0][2][-1])[1] in (0, False)
            if full_ and e1[0] == "field" and ((("prefilter_non_ascii" in txt_e) and e1[2] == "1") or (("prefilter_ascii" in txt_e) and e1[2] == "2")):
                ctx.violation("%s|greedy-scan-start|%s" % (f2.path, callee(t).rsplit("::", 1)[1]), site(f2, bi),
                              "code-point call passes the END of the prefilter window as `end` (%s): the forward scan for needle[1..] starts behind the last occurrence of the last needle "
                              "character and answers None for a haystack that contains the needle" % txt_e[:80])
                continue
            # only_greedy = true: the prefilter returns the pair (start, start + 1) by construction
            if e1[0] == "field" and s1[0] == "field" and "prefilter_non_ascii" in txt_e and e1[2] == "1" and s1[2] == "0" and repr(strip_casts(e1[1])) == repr(strip_casts(s1[1])):
                pc_ = [x for x in walk(e1[1]) if x[0] == "call" and "prefilter_non_ascii" in str(x[1])]
                og_ = strip_casts(pc_[0][2][-1]) if pc_ else ("?",)
                if og_[0] == "const" and og_[1] in (1, True):
                    ctx.ok(site(f2, bi), "(start, end) of one prefilter_non_ascii(.., only_greedy = true) result, which is (start, start + 1)")
                    continue
            # anything else (an `end` found by a walk of the caller's own, say) is not judged here: the rule reports the
            # recognised breaches of the contract only
            ctx.note("%s: `end` of the greedy matcher (%s) not related to `start` by this rule" % (f2.path, txt_e[:70]))
    for f2, bi, t in calls_to(facts, M, lambda t_: callee(t_) == GREEDY):
        judge(f2, bi, t, names["start"] - 1, names["end"] - 1, 0)
    ctx.floor("code-point call sites of fuzzy_match_greedy_ looked at", n[0], 1)


def rule_window_complete(ctx):
    """`fuzzy_match_optimal` answers None when its window holds no match (setup finds a needle character without a
    column).  That is only a verdict about the haystack if the window is the prefilter's: [start, end) with `end` behind
    the LAST occurrence of the last needle character.  So every call passes as `end` the end component of a prefilter
    result computed with only_greedy = false (or forwards its own `end`), and the function hands exactly
    haystack[start..end] to the slab."""
    facts = ctx.facts
    OPT = "fuzzy_optimal::<impl Matcher>::fuzzy_match_optimal"
    fo = get_fn(facts, M, OPT)
    names = {fo.names.get(l): l for l in range(1, fo.arg_count + 1)}
    for k in ("haystack", "start", "end"):
        if k not in names:
            raise Inconclusive("fuzzy_match_optimal: parameter `%s` not found" % k)

    def is_arg(e, l):
        e = strip_casts(e)
        while e[0] in ("ref", "deref"):
            e = strip_casts(e[1])
        return e[0] == "arg" and e[1] == l
    # the slab window
    al = [(bi, t) for bi, t in fo.calls(lambda t: callee(t).endswith("MatrixSlab::alloc"))]
    if len(al) != 1:
        raise Inconclusive("fuzzy_match_optimal: %d slab allocations" % len(al))
    w = fo.expr_of_operand(al[0][1]["args"][1])
    idx = [x for x in walk(w) if x[0] == "call" and str(x[1]).endswith("::index")]
    okw = False
    if len(idx) == 1 and is_arg(idx[0][2][0], names["haystack"]):
        r = strip_casts(idx[0][2][1])
        if r[0] == "agg" and str(r[1]).endswith("Range::Range") and is_arg(r[2].get("start"), names["start"]) and is_arg(r[2].get("end"), names["end"]):
            okw = True
    if okw:
        ctx.ok(site(fo, al[0][0]), "the matrix is built over haystack[start..end] of the parameters")
    else:
        ctx.violation(OPT + "|slab-window|1", site(fo, al[0][0]), "the matrix is built over %s, not over the caller's window haystack[start..end]: a None from setup no longer means `no match in the prefilter window`" % show(w)[:100])
    n = 0
    for f2, bi, t in calls_to(facts, M, lambda t_: callee(t_) == OPT):
        n += 1
        e = strip_casts(f2.expr_of_operand(t["args"][names["end"] - 1]))
        key = "%s|optimal-end|%d" % (f2.path, n)
        if f2.path == OPT and is_arg(e, names["end"]):
            ctx.ok(site(f2, bi), "recursive call forwards its own `end`")
            continue
        def full_window_end(e_):
            e_ = strip_casts(e_)
            if e_[0] != "field":
                return False
            src = [x for x in walk(e_[1]) if x[0] == "call" and "prefilter::<impl Matcher>::prefilter_" in str(x[1])]
            if not src:
                return False
            pc = src[0]
            og = strip_casts(pc[2][-1])
            last = {"prefilter_ascii": "2", "prefilter_non_ascii": "1"}.get(str(pc[1]).rsplit("::", 1)[1])
            return og[0] == "const" and og[1] in (0, False) and e_[2] == last
        from common import alternatives
        alts = alternatives(f2, e)
        good = bool(alts) and all(full_window_end(a) for a in alts)
        if good:
            ctx.ok(site(f2, bi), "`end` is the end of the full prefilter window (only_greedy = false)")
        else:
            ctx.violation(key, site(f2, bi), "fuzzy_match_optimal is given end = %s, which is not the end of a full prefilter window: every match may lie behind it, and the "
                          "optimal entry points then answer None where the greedy ones answer Some" % show(e)[:90])
    ctx.floor("call sites of fuzzy_match_optimal", n, 3)


def needle_walks(facts, fn, is_needle):
    """Places where `fn` (after helper folding) establishes that every character of needle[1..] occurs in order:
    [(header, success_block, style)].  `is_needle(e)`: does the expression denote the needle (or a view of it)?
      style 'needle': a loop over needle[1..] (any spelling) whose body can leave with None; success = loop exhaustion.
      style 'haystack': a loop over (part of) the haystack that advances an iterator over needle[1..] behind an equality
                        test; it succeeds on the edge where that iterator is exhausted.
      style 'fold': try_fold / try_for_each over needle[1..] with a closure that can say None, result `?`-ed.
      style 'empty-tail': the first next() of an iterator over needle[1..] says None."""
    from props.c11 import for_loops
    if isinstance(is_needle, int):
        nl_ = is_needle

        def is_needle(e, depth=0):
            e = strip_casts(e)
            if depth > 12 or not isinstance(e, tuple) or not e:
                return False
            if e[0] == "arg":
                return e[1] == nl_
            if e[0] in ("ref", "deref", "field", "downcast"):
                return is_needle(e[1], depth + 1)
            if e[0] == "cast":
                return is_needle(e[2], depth + 1)
            if e[0] == "call" and e[2]:
                return is_needle(e[2][0], depth + 1)
            return False

    def needle_tail(e):
        for x in walk(e):
            if x[0] == "call" and str(x[1]).endswith("::index") and is_needle(x[2][0]) and x[2][1][0] == "agg" and str(x[2][1][1]).endswith("RangeFrom::RangeFrom") \
                    and tuple(strip_casts(x[2][1][2].get("start", ("?",)))[:2]) == ("const", 1):
                return True
            if x[0] == "field" and x[2] == "1" and any(y[0] == "call" and str(y[1]).endswith("::split_first") and is_needle(y[2][0]) for y in walk(x[1])):
                return True
            if x[0] == "call" and str(x[1]).endswith("Iterator::skip") and is_needle(x[2][0]) and tuple(strip_casts(x[2][1])[:2]) == ("const", 1):
                return True
        return False
    out = []
    nones = set(bi for bi, t in fn.calls(lambda t: callee(t).endswith("from_residual")))
    for bi, si, st_ in fn.stmts(lambda s_: s_["k"] == "assign" and s_["rv"].get("agg") == "adt" and s_["rv"].get("variant") == "None"):
        nones.add(bi)
    for h, body, nxt in for_loops(fn):
        if nxt is None:
            continue
        src = fn.expr_of_operand(fn.blocks[nxt[0]]["term"]["args"][0])
        if needle_tail(src):
            leaves_with_none = any(fn.blocks[bi]["term"]["k"] == "call" and callee(fn.blocks[bi]["term"]).endswith("Try>::branch") for bi in body)
            if not leaves_with_none:
                # `let Some(i) = .. else { return None }` / `match .. { None => return None, .. }`: an exit of the loop other
                # than exhaustion whose way to the return builds a None result for the function
                for a_, b_ in fn.loop_exits((h, body, None)):
                    if (a_ == nxt[1] and b_ == nxt[2]) or is_diverging(fn, b_):
                        continue
                    reach_ = fn.reach_from(b_, include_start=True) if "include_start" in fn.reach_from.__code__.co_varnames else (fn.reach_from(b_) | {b_})
                    nb_ = [x for x in reach_ if x in nones and x not in body]
                    for x in nb_:
                        for st_ in fn.blocks[x]["stmts"]:
                            if st_["k"] == "assign" and st_["rv"].get("variant") == "None" and st_["lhs"]["l"] == 0 and not st_["lhs"]["p"]:
                                leaves_with_none = True
            if leaves_with_none:
                out.append((h, nxt[2], "needle"))
            continue
        inner = []
        for bi in body:
            t = fn.blocks[bi]["term"]
            if bi != nxt[0] and t["k"] == "call" and callee(t).endswith("::next") and needle_tail(fn.expr_of_operand(t["args"][0])) and t["target"] is not None:
                # the needle only advances behind a successful comparison of the current haystack character
                def eq_guard(g):
                    e, vals = g[3], g[2]
                    txt = show(e)
                    if (e[0] == "bin" and e[1] == "Eq") or "PartialEq::eq" in txt or txt.startswith("std::cmp::PartialEq::eq"):
                        return vals != [0]
                    if (e[0] == "bin" and e[1] == "Ne") or "PartialEq::ne" in txt:
                        return vals == [0]
                    return False
                adv_ok = any(eq_guard(g) for g in guards_of(fn, bi, start=h))
                if not adv_ok:
                    continue
                sw = fn.blocks[t["target"]]["term"]
                if sw["k"] == "switch":
                    e = fn.expr_of_operand(sw["discr"])
                    if e[0] == "discr":
                        # the edge for None (0): arms or otherwise
                        none_t = [bb for v, bb in sw["arms"] if v == 0] or ([sw["otherwise"]] if all(v != 0 for v, _ in sw["arms"]) else [])
                        inner += none_t
        if inner:
            for x in inner:
                out.append((h, x, "haystack"))
    from common import iter_pipeline
    for bi, t in fn.calls(lambda t: any(str(t.get("fn")).endswith(x) for x in ("Iterator::try_fold", "Iterator::try_for_each"))):
        st = iter_pipeline(fn, t)
        if not st or st[0][0] != "source" or not needle_tail(st[0][2]):
            continue
        if any(not k.startswith("total:") or k == "total:rev" for k, c_, e_ in st[1:]):
            continue
        clo = [fn.expr_of_operand(a) for a in t["args"][1:]]
        clo = [c_ for c_ in clo if c_[0] == "closure"]
        if not clo:
            continue
        cf = get_fn(facts, fn.b["crate"], clo[0][1])
        if not any(cf.blocks[b_]["term"]["k"] == "call" and callee(cf.blocks[b_]["term"]).endswith("Try>::branch") for b_ in range(len(cf.blocks))):
            continue
        cid = (bi, t["dest"]["l"])
        for b2, t2 in fn.calls(lambda t_: callee(t_).endswith("Try>::branch")):
            if any(x[0] == "call" and len(x) > 4 and x[4] == cid for x in walk(fn.expr_of_operand(t2["args"][0]))) and t2["target"] is not None:
                sw = fn.blocks[t2["target"]]["term"]
                if sw["k"] == "switch":
                    cont = [bb for v, bb in sw["arms"] if v == 0]
                    if cont:
                        out.append((bi, cont[0], "fold"))
    # needle[1..] is empty: the first `next()` of an iterator over it (outside any loop) says None -- nothing to walk
    in_loops = set()
    for h, body, srcs in fn.loops():
        in_loops |= set(body)
    for bi, t in fn.calls(lambda t: callee(t).endswith("::next")):
        if bi in in_loops or t["target"] is None or not needle_tail(fn.expr_of_operand(t["args"][0])):
            continue
        sw = fn.blocks[t["target"]]["term"]
        if sw["k"] == "switch" and fn.expr_of_operand(sw["discr"])[0] == "discr":
            none_t = [bb for v, bb in sw["arms"] if v == 0] or ([sw["otherwise"]] if all(v != 0 for v, _ in sw["arms"]) else [])
            for x in none_t:
                out.append((bi, x, "empty-tail"))
    return out


def _walk_bypass(facts, fn, sinks, is_needle):
    """Sinks of `fn` (blocks) that are reachable from its entry without passing the success exit of a complete walk over
    needle[1..], for some assignment of the `<X as Char>::ASCII` constants other than all-true.
    Returns (bad blocks, number of walk exits)."""
    walks = needle_walks(facts, fn, is_needle)
    succ = set(w[1] for w in walks)
    sinks = list(sinks)
    def ascii_key(bi):
        """the `<X as Char>::ASCII` constant a switch tests, if it tests one"""
        t = fn.blocks[bi]["term"]
        p_ = t["discr"].get("move") or t["discr"].get("copy")
        k_ = t["discr"].get("const")
        if k_ is None and p_ is not None and not p_["p"]:
            ds = fn.defs.get(p_["l"], [])
            if len(ds) == 1 and ds[0][2] == "assign" and isinstance(ds[0][3].get("use"), dict):
                k_ = ds[0][3]["use"].get("const")
        if isinstance(k_, dict) and str(k_.get("text", "")).endswith("::ASCII"):
            return str(k_["text"])
        return None
    keys = sorted(set(k for k in (ascii_key(bi) for bi in sorted(fn.live) if fn.blocks[bi]["term"]["k"] == "switch") if k))

    none_blocks = set(bi for bi, t in fn.calls(lambda t: callee(t).endswith("from_residual")) if fn.blocks[bi].get("inl"))
    for bi, si, st_ in fn.stmts(lambda s_: s_["k"] == "assign" and s_["rv"].get("agg") == "adt" and s_["rv"].get("variant") == "None"):
        if fn.blocks[bi].get("inl"):
            none_blocks.add(bi)

    # Option locals that start as None and become Some somewhere: (block -> [(local, is_some)])
    opt_assigns = {}
    opt_locals = set()

    def opt_variant(rv, depth=0):
        """'Some' / 'None' if the rvalue is that Option literal (directly or through a move of a temporary holding one)"""
        if rv.get("agg") == "adt" and str(rv.get("adt", "")).endswith("Option") and rv.get("variant") in ("None", "Some"):
            return rv["variant"]
        u = rv.get("use")
        if isinstance(u, dict) and depth < 3:
            p_ = u.get("move") or u.get("copy")
            if p_ is not None and not p_["p"]:
                ds = fn.defs.get(p_["l"], [])
                if len(ds) == 1 and ds[0][2] == "assign":
                    return opt_variant(ds[0][3], depth + 1)
        return None
    cand = {}
    for l_, ds in fn.defs.items():
        if l_ == 0 or not ds or l_ <= fn.arg_count:
            continue
        vs = [opt_variant(d[3]) if d[2] == "assign" else None for d in ds]
        if all(v is not None for v in vs) and "None" in vs and "Some" in vs and fn.names.get(l_):
            cand[l_] = [(d[0], v == "Some") for d, v in zip(ds, vs)]
    for l_, xs in cand.items():
        opt_locals.add(l_)
        for b_, v_ in xs:
            opt_assigns.setdefault(b_, []).append((l_, v_))

    def tracked_option(e):
        """discr(L) / discr(Try::branch(L)) for a tracked Option local L -> (through `?`, L)"""
        if e[0] != "discr":
            return None
        x = e[1]
        via_try = False
        if x[0] == "call" and str(x[1]).endswith("Try>::branch"):
            via_try = True
            x = x[2][0]
        while x[0] in ("ref", "deref", "cast"):
            x = x[2] if x[0] == "cast" else x[1]
        if x[0] == "local" and x[1] in opt_locals:
            return via_try, x[1]
        return None

    def reach_sink(assign):
        """is calculate_score reachable without a walk exit?  State: (block, a folded-in helper has just produced None):
        the `?` applied to that helper's result in the caller can then only take its Break edge."""
        seen, work = set(), [(0, False, frozenset())]
        while work:
            bi, pend, some = work.pop()
            if (bi, pend, some) in seen or bi in succ:
                continue
            seen.add((bi, pend, some))
            if bi in sinks:
                return bi
            if bi in none_blocks:
                pend = True
            for l_, v_ in opt_assigns.get(bi, ()):
                some = (some | {l_}) if v_ else (some - {l_})
            t = fn.blocks[bi]["term"]
            k = t["k"]
            if k == "goto":
                work.append((t["target"], pend, some))
            elif k == "switch":
                ak = ascii_key(bi)
                e = fn.expr_of_operand(t["discr"])
                tl = tracked_option(e)
                is_try = e[0] == "discr" and any(x[0] == "call" and str(x[1]).endswith("Try>::branch") for x in walk(e)) and not fn.blocks[bi].get("inl")
                if ak is not None and ak in assign:
                    v = 1 if assign[ak] else 0
                    tg = [bb for vv, bb in t["arms"] if vv == v]
                    work.append((tg[0] if tg else t["otherwise"], pend, some))
                elif is_try and pend:
                    work += [(bb, False, some) for vv, bb in t["arms"] if vv == 1]
                elif tl is not None:
                    # an Option local that is None unless a walk exit assigned Some to it on this path
                    via_try, l_ = tl
                    want = (0 if via_try else 1) if l_ in some else (1 if via_try else 0)
                    tg = [bb for vv, bb in t["arms"] if vv == want]
                    work.append((tg[0] if tg else t["otherwise"], pend, some))
                else:
                    work += [(bb, pend, some) for _, bb in t["arms"]] + [(t["otherwise"], pend, some)]
            elif k in ("call", "assert", "drop") and t.get("target") is not None:
                work.append((t["target"], pend, some))
        return None
    bad = []
    import itertools
    for vals in itertools.product((True, False), repeat=len(keys)):
        if keys and all(vals):
            continue        # ASCII x ASCII: prefilter_ascii has walked the needle (C01.decider-before-score)
        hit = reach_sink(dict(zip(keys, vals)))
        if hit is not None:
            bad.append((hit, dict(zip(keys, vals))))
    if bad and len(keys) > 2:
        raise Inconclusive("%s: %d different ASCII constants guard the walk (%s)" % (fn.path, len(keys), keys))
    if not keys and reach_sink({}) is not None:
        bad = [(reach_sink({}), {})]
    bad = [b_[0] for b_ in bad]
    return bad, len(succ)


def rule_greedy_complete(ctx):
    """`calculate_score` never rejects, and the non-ASCII prefilter only looks at the first and last needle character:
    somebody has to walk needle[1..] before a greedy window is scored.  Unless both strings are ASCII (prefilter_ascii
    has walked the needle), every path to the scorer passes the success exit of a complete walk over needle[1..] --
    in the greedy matcher itself or, if that function takes its window on trust (contract moved to the callers), on
    every path to each of its non-ASCII call sites, followed up the call graph."""
    facts = ctx.facts
    G = "fuzzy_greedy::<impl Matcher>::fuzzy_match_greedy_"
    fn = get_fn(facts, M, G)
    nl = [l for l in range(1, fn.arg_count + 1) if fn.names.get(l) == "needle"]
    if not nl:
        raise Inconclusive("fuzzy_match_greedy_: no `needle` parameter")
    sinks = [bi for bi, t in fn.calls(lambda t: callee(t) == "score::<impl Matcher>::calculate_score")]
    if not sinks:
        raise Inconclusive("fuzzy_match_greedy_: no calculate_score call")

    def param_pred(f_, l_):
        def pred(e, depth=0):
            e = strip_casts(e)
            if depth > 12 or not isinstance(e, tuple) or not e:
                return False
            if e[0] == "arg":
                return e[1] == l_
            if e[0] in ("ref", "deref", "field", "downcast"):
                return pred(e[1], depth + 1)
            if e[0] == "cast":
                return pred(e[2], depth + 1)
            if e[0] == "call" and e[2]:
                return pred(e[2][0], depth + 1)
            return False
        return pred
    bad, nw = _walk_bypass(facts, fn, sinks, param_pred(fn, nl[0]))
    if not bad:
        ctx.ok(site(fn, sinks[0]), "every non-ASCII path to calculate_score passes the success exit of a complete walk over needle[1..] (%d walk exit(s))" % nw)
        return
    # the greedy matcher itself does not (always) walk: every caller has to
    todo = [(G, nl[0] - 1, 0)]
    seen = set()
    n_sites = 0
    while todo:
        callee_path, needle_pos, depth = todo.pop()
        if (callee_path, needle_pos) in seen:
            continue
        seen.add((callee_path, needle_pos))
        sites_ = calls_to(facts, M, lambda t_: callee(t_) == callee_path)
        if not sites_:
            ctx.violation("%s|walk-bypassed|1" % callee_path, site(get_fn(facts, M, callee_path), 0),
                          "%s scores a window without a complete walk over needle[1..] on a path that is not restricted to ASCII x ASCII, and it is an entry point" % callee_path)
            continue
        for f2, bi, t in sites_:
            n_sites += 1
            fa = [str(x) for x in (t.get("fn_args") or [])] if isinstance(t.get("fn_args"), list) else [x.strip() for x in str(t.get("fn_args") or "").strip("[]").split(",")]
            if len(fa) >= 2 and fa[-2].endswith("AsciiChar") and fa[-1].endswith("AsciiChar"):
                ctx.ok(site(f2, bi), "ASCII x ASCII instantiation: prefilter_ascii has walked the needle")
                continue
            needle_e = strip_casts(f2.expr_of_operand(t["args"][needle_pos]))
            while needle_e[0] in ("ref", "deref"):
                needle_e = strip_casts(needle_e[1])

            def pred(e, depth_=0, needle_e=needle_e):
                e = strip_casts(e)
                if depth_ > 12 or not isinstance(e, tuple) or not e:
                    return False
                if repr(e) == repr(needle_e):
                    return True
                if e[0] in ("ref", "deref", "field", "downcast"):
                    return pred(e[1], depth_ + 1)
                if e[0] == "cast":
                    return pred(e[2], depth_ + 1)
                if e[0] == "call" and e[2]:
                    return pred(e[2][0], depth_ + 1)
                return False
            bad2, nw2 = _walk_bypass(facts, f2, [bi], pred)
            if not bad2:
                ctx.ok(site(f2, bi), "%s is called only behind a complete walk over needle[1..] (or for ASCII x ASCII)" % callee_path.rsplit("::", 1)[1])
                continue
            # forward the obligation if the needle is a parameter of the caller and the caller is internal
            if needle_e[0] == "arg" and depth < 3 and not str(f2.b.get("vis", "")).startswith("Public") and f2.b.get("kind") != "Closure":
                todo.append((f2.path, needle_e[1] - 1, depth + 1))
                continue
            ctx.violation("%s|walk-bypassed|%s" % (f2.path, callee_path.rsplit("::", 1)[1]), site(f2, bi),
                          "%s reaches %s (which scores its window with the never-rejecting calculate_score) without a complete walk over needle[1..] on a path that is not "
                          "restricted to ASCII x ASCII: for a code-point haystack only the first and last needle character were looked for, so Some(score) with a truncated / "
                          "wrong index list is returned for haystacks that do not contain the needle" % (f2.path, callee_path.rsplit("::", 1)[1]))
    ctx.floor("call sites followed for the walk obligation", n_sites, 1)


def rule_char_eq_exact(ctx):
    """Every generic comparison `haystack_char == needle_char` (setup, score_row, the greedy scans, calculate_score, the
    exact / substring scanners) is an instance of `H: PartialEq<N>`.  The hand-written cross-type impls must be exact
    code point equality: the narrower side is widened, the wider side is never narrowed (a `char as u8` makes every
    code point whose low byte is the needle byte compare equal: U+4E62 == b'b')."""
    from cfg import decision_paths
    facts = ctx.facts
    widths = {"u8": 8, "i8": 8, "u16": 16, "u32": 32, "char": 32, "u64": 64, "usize": 64}
    n = 0
    for b in facts.bodies_of(M):
        if b.get("impl_trait") != "std::cmp::PartialEq" or not (b["path"].endswith("::eq") or b["path"].endswith("::ne")):
            continue
        sig = str(b.get("sig"))
        if "char" not in sig or "PartialEq<" not in b["path"]:
            continue            # derived same-type impls are structural equality
        fn = fn_of(b)
        n += 1
        key = "%s|exact|1" % b["path"]
        ps = decision_paths(fn)
        bad = None
        for conds, res in ps:
            if res is None:
                continue
            r = strip_casts(res) if res[0] != "cast" else res
            want = "Eq" if b["path"].endswith("::eq") else "Ne"
            if not (r[0] == "bin" and r[1] == want):
                bad = "the result is %s, not a single %s comparison of the two characters" % (show(res)[:80], "==" if want == "Eq" else "!=")
                break
            for side in (r[2], r[3]):
                for x in walk(side):
                    if x[0] == "cast" and x[1] == "IntToInt" and widths.get(str(x[3]), 0) > widths.get(str(x[4]), 99):
                        bad = "%s is narrowed from %s to %s before the comparison" % (show(x[2])[:40], x[3], x[4])
                    if x[0] in ("call", "bin") and x is not r:
                        bad = bad or "the compared value is computed (%s)" % show(x)[:60]
            leaves = [x for x in walk(r) if x[0] == "arg"]
            if len(set(x[1] for x in leaves)) != 2:
                bad = bad or "the comparison does not involve both operands"
        if bad:
            ctx.violation(key, site(fn, 0), "%s: %s — characters that differ compare equal (or equal ones differ), so every matcher instantiated with this pair of types "
                          "accepts / scores non-occurrences" % (b["path"], bad))
        else:
            ctx.ok(site(fn, 0), "%s is exact code point equality (narrower side widened)" % b["path"].split("::<impl ")[-1])
    ctx.floor("hand-written cross-type character equalities", n, 1)


def rule_entry_order(ctx):
    facts = ctx.facts
    for name in ("Matcher::fuzzy_matcher_impl", "Matcher::fuzzy_match_greedy_impl", "Matcher::substring_match_impl"):
        fn = get_fn(facts, M, name)
        targets = [(bi, t) for bi, t in fn.calls(lambda t: any(x in callee(t) for x in ("::prefilter_ascii", "::prefilter_non_ascii", "::substring_match_1_ascii", "::substring_match_ascii", "::substring_match_non_ascii", "::substring_match_1_non_ascii")))]
        if not targets:
            raise Inconclusive("%s: no prefilter/scan calls found" % name)

        def lens(e):
            return e[0] == "call" and str(e[1]).endswith("Utf32Str::<'a>::len")
        for bi, t in targets:
            gs = guards_of(fn, bi)
            gt = emp = eq = False
            for g in gs:
                e = g[3]
                if e[0] == "bin" and e[1] == "Gt" and lens(e[2]) and lens(e[3]) and g[2] == [0]:
                    a = e[2][2][0]
                    b = e[3][2][0]
                    if "needle" in show(a) and "haystack" in show(b):
                        gt = True
                if e[0] == "call" and str(e[1]).endswith("Utf32Str::<'a>::is_empty") and g[2] == [0] and "needle" in show(e[2][0]):
                    emp = True
                if e[0] == "bin" and e[1] == "Eq" and lens(e[2]) and lens(e[3]) and g[2] == [0]:
                    eq = True
            if gt and emp and eq:
                ctx.ok(site(fn, bi), "reached only with 0 < len(needle) < len(haystack) (the window `h - n + 1` and needle[0] are well defined)")
            else:
                miss = [n_ for n_, v in (("needle longer than haystack ⇒ None", gt), ("empty needle ⇒ Some(0)", emp), ("equal length ⇒ exact", eq)) if not v]
                ctx.violation("%s|entry-order|%s" % (name, callee(t).rsplit("::", 1)[1]), site(fn, bi), "%s reachable without the early decision(s): %s" % (callee(t).rsplit("::", 1)[1], miss))


def rule_window(ctx):
    from props.c05 import rule_window as w
    w(ctx, only=("prefilter::<impl Matcher>::prefilter_ascii", "prefilter::<impl Matcher>::prefilter_non_ascii"))


def rule_fold_lookup(ctx):
    """The two normalizer routines of `char` agree only if `to_lower_case` / `is_upper_case` are exactly the fold-table lookup that `char_class_and_normalize` performs inline (and `normalize` dispatches to the right table): the lookup semantics of C16.dispatch are a premise of this property too (shared rule)."""
    from props.c16 import rule_dispatch as r
    r(ctx)


def rules(ctx):
    ctx.run_rule("C01.fold-lookup", rule_fold_lookup)
    ctx.run_rule("C01.norm-route", rule_norm_route)
    ctx.run_rule("C01.predicate-purity", rule_predicate_purity)
    ctx.run_rule("C01.norm-siblings", rule_norm_siblings)
    ctx.run_rule("C01.repr-only", rule_repr_only)
    ctx.run_rule("C01.window", rule_window)
    ctx.run_rule("C01.entry-order", rule_entry_order)
    ctx.run_rule("C01.char-eq-exact", rule_char_eq_exact)
    ctx.run_rule("C01.greedy-complete", rule_greedy_complete)
    ctx.run_rule("C01.window-complete", rule_window_complete)
    ctx.run_rule("C01.greedy-scan-start", rule_greedy_scan_start)
    ctx.run_rule("C01.decider-before-score", rule_decider_before_score)

#!/usr/bin/env python3
"""Re-run the kept seeded changes (seeded/<id>/patch.diff) against the current checks.
Each is applied to a scratch copy of /repo; the property named in meta.json must report a violation
through (one of) the rule(s) recorded in caught_by. usage: seeds.py [-j N] [--only substr]"""
import json, os, shutil, subprocess, sys, tempfile
from concurrent.futures import ThreadPoolExecutor
VERIF = os.path.dirname(os.path.dirname(os.path.abspath(__file__)))


def run(sid):
    d0 = os.path.join(VERIF, "seeded", sid)
    meta = json.load(open(os.path.join(d0, "meta.json")))
    d = tempfile.mkdtemp(prefix="seed.", dir="/root/scratch")
    try:
        subprocess.check_call(["rsync", "-a", "--exclude", "target", "--exclude", ".git", "/repo/", d + "/"])
        r = subprocess.run(["patch", "-p1", "-s", "-i", os.path.join(d0, "patch.diff")], cwd=d, capture_output=True, text=True)
        if r.returncode != 0:
            return sid, False, "patch does not apply: " + r.stdout[-200:]
        env = dict(os.environ, NUCLEO_REPO=d, VERIF_EVIDENCE_DIR=os.path.join(d, ".evidence"))
        props = sorted(set([meta["breaks_property"]] + [c.split(".")[0] for c in meta.get("caught_by", [])]))
        hits, rcs = [], {}
        for p in props:
            r = subprocess.run([os.path.join(VERIF, "check"), p], env=env, capture_output=True, text=True)
            rcs[p] = r.returncode
            for l in r.stdout.splitlines():
                if l.strip().startswith("violation "):
                    hits.append(l.strip().split("|")[0].replace("violation ", ""))
        own = rcs.get(meta["breaks_property"])
        ok = own == 1
        return sid, ok, "%s rc=%s; violations by %s" % (meta["breaks_property"], own, sorted(set(hits)))
    finally:
        shutil.rmtree(d, ignore_errors=True)


def main():
    os.makedirs("/root/scratch", exist_ok=True)
    ids = sorted(x for x in os.listdir(os.path.join(VERIF, "seeded")) if os.path.isdir(os.path.join(VERIF, "seeded", x)))
    if "--only" in sys.argv:
        sub = sys.argv[sys.argv.index("--only") + 1]
        ids = [i for i in ids if sub in i]
    jobs = int(sys.argv[sys.argv.index("-j") + 1]) if "-j" in sys.argv else 8
    allok = True
    with ThreadPoolExecutor(max_workers=jobs) as ex:
        for sid, ok, msg in ex.map(run, ids):
            print("%-6s %-46s %s" % ("caught" if ok else "MISSED", sid, msg))
            allok = allok and ok
    return 0 if allok else 2


if __name__ == "__main__":
    sys.exit(main())

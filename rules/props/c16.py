"""C16 — character normalization is a coherent, idempotent projection.
Finite domain: tables come from the compiler's const evaluator, the dispatch from MIR; the sweep over
all 1,112,064 scalar values is table algebra in this checker (no nucleo code is executed)."""
import json
import os

from cfg import Inconclusive, op_place, show, walk, strip_casts
from common import (calls_to, callee, closure_creations, field_chain, fn_of, get_fn, peel, site, guards_of,
                    ret_aggregates)
from engine import VERIF

PROP = "C16"
LEVEL = "proof"
UNDECIDED = [
    "scalars first assigned after UCD 14 are checked for agreement only if present (oracle data newer than UCD 14 is limited to the UCD-16 orbit table)",
]
ASSUMPTIONS = [
    "the const evaluator's table contents are what the compiled crate uses",
    "NFKD decompositions of the documented Latin blocks are frozen by Unicode's stability policy (oracle: UCD 14 via CPython, frozen in /verif/ref/ucd14_oracle.json)",
    "simple case folding orbits: regex-syntax 0.8.11 UCD-16 all-pairs table (frozen in /verif/ref/simple_fold_orbits.json)",
    "core::slice::binary_search_by_key finds a key iff present when the slice is strictly sorted by that key",
]
TRUSTED = ["rustc const evaluator", "rules/props/c16.py table algebra", "/verif/ref oracle files (provenance recorded inside)"]

M = "nucleo_matcher"
NORM = "chars::normalize::normalize"
FOLD_TABLE = "chars::case_fold::CASE_FOLDING_SIMPLE"
MAXC = 0x10FFFF
# The rustdoc of `normalize` lists five blocks; the table LATIN_1AB and the baseline test `boundary_cases`
# ('ʟ' U+029F -> 'L') additionally cover IPA Extensions up to the table's end, so that block is part of the
# tested contract (documentation gap recorded in DESIGN.md §5, D17).
BLOCKS = [(0x80, 0xFF, "Latin-1 Supplement"), (0x100, 0x17F, "Latin Extended-A"), (0x180, 0x24F, "Latin Extended-B"),
          (0x250, 0x2AF, "IPA Extensions"),
          (0x1E00, 0x1EFF, "Latin Extended Additional"), (0x2070, 0x209F, "Superscripts and Subscripts")]

_state = {}


def in_blocks(c):
    return any(lo <= c <= hi for lo, hi, _ in BLOCKS)


def table(ctx, path):
    k = ctx.facts.const(M, path)
    if k is None or not isinstance(k.get("value"), list):
        raise Inconclusive("table %s not const-evaluated" % path)
    return k["value"]


def extract_dispatch(ctx):
    """Decision-list extraction of `normalize`: [(lo, hi, 'id' | ('table', static_path, base))]."""
    fn = get_fn(ctx.facts, M, NORM)
    out = []

    def walk_bb(bb, lo, hi, depth=0):
        if lo > hi:
            return
        if depth > 64:
            raise Inconclusive("normalize: dispatch too deep")
        blk = fn.blocks[bb]
        t = blk["term"]
        # leaf?
        for s in blk["stmts"]:
            if s["k"] == "assign" and s["lhs"]["l"] == 0 and not s["lhs"]["p"]:
                e = fn.expr_of_rvalue(s["rv"])
                if e[0] == "arg" and e[1] == 1:
                    out.append((lo, hi, "id"))
                    return
                if e[0] == "index":
                    base_e = peel(e[1])
                    idx = e[2]
                    if base_e[0] == "static" and idx[0] in ("bin", "checked") and idx[1] == "Sub":
                        a = strip_casts(idx[2])
                        b = strip_casts(idx[3])
                        if a[0] == "arg" and a[1] == 1 and b[0] == "const" and isinstance(b[1], int):
                            out.append((lo, hi, ("table", base_e[1], b[1])))
                            return
                raise Inconclusive("normalize: leaf %s is neither `c` nor TABLE[c - base]" % show(e))
        if t["k"] == "switch":
            e = fn.expr_of_operand(t["discr"])
            if not (e[0] == "bin" and e[1] in ("Lt", "Le", "Gt", "Ge") and strip_casts(e[2])[0] == "arg" and e[3][0] == "const" and isinstance(e[3][1], int)):
                raise Inconclusive("normalize: branch condition %s is not a comparison of c with a constant" % show(e))
            K = e[3][1]
            op = e[1]
            if op == "Lt":
                tr, fa = (lo, min(hi, K - 1)), (max(lo, K), hi)
            elif op == "Le":
                tr, fa = (lo, min(hi, K)), (max(lo, K + 1), hi)
            elif op == "Ge":
                tr, fa = (max(lo, K), hi), (lo, min(hi, K - 1))
            else:
                tr, fa = (max(lo, K + 1), hi), (lo, min(hi, K))
            false_t = [b_ for v, b_ in t["arms"] if v == 0][0]
            walk_bb(t["otherwise"], tr[0], tr[1], depth + 1)
            walk_bb(false_t, fa[0], fa[1], depth + 1)
            return
        if t["k"] in ("goto", "assert", "call"):
            walk_bb(t["target"], lo, hi, depth + 1)
            return
        raise Inconclusive("normalize: unexpected terminator %s" % t["k"])

    walk_bb(0, 0, MAXC)
    out.sort()
    return fn, out


def rule_dispatch(ctx):
    fn, parts = extract_dispatch(ctx)
    _state["dispatch"] = parts
    # partition of the scalar range
    pos = 0
    okp = True
    for lo, hi, kind in parts:
        if lo != pos:
            okp = False
        pos = hi + 1
    if pos != MAXC + 1:
        okp = False
    if okp:
        ctx.ok(site(fn, 0), "dispatch intervals partition 0..=0x10FFFF: %s" % [(hex(lo), hex(hi), k if k == "id" else k[1].rsplit("::", 1)[1]) for lo, hi, k in parts])
    else:
        ctx.violation(NORM + "|partition|1", site(fn, 0), "extracted intervals do not partition the scalar range: %s" % parts)
    ntab = 0
    for lo, hi, kind in parts:
        if kind == "id":
            continue
        ntab += 1
        _, path, base = kind
        tb = table(ctx, path)
        key = "%s|interval|%s" % (NORM, path.rsplit("::", 1)[1])
        if lo == base and hi == base + len(tb) - 1:
            ctx.ok(site(fn, 0), "%s serves exactly [%#x, %#x] = base .. base+len(%d)" % (path.rsplit("::", 1)[1], lo, hi, len(tb)))
        elif lo < base or hi > base + len(tb) - 1:
            ctx.violation(key, site(fn, 0), "interval [%#x, %#x] indexes %s (len %d, base %#x) out of bounds: normalize panics for some characters" % (lo, hi, path, len(tb), base))
        else:
            ctx.violation(key, site(fn, 0), "interval [%#x, %#x] covers only part of %s (base %#x, len %d): the remaining entries are dead and those characters are not normalized" % (lo, hi, path, base, len(tb)))
        if not (in_blocks(lo) or any(l <= lo for l, h, _ in BLOCKS)):
            pass
    ctx.floor("table-backed intervals of normalize", ntab, 3)
    # fold: binary search keyed on .0, value .1
    for name in ("chars::to_lower_case", "chars::is_upper_case"):
        f = get_fn(ctx.facts, M, name)
        bs = [(bi, t) for bi, t in f.calls(lambda t: callee(t).endswith("binary_search_by_key"))]
        if len(bs) != 1:
            ctx.violation("%s|lookup|1" % name, site(f, 0), "%s is not a single binary_search_by_key over the fold table" % name)
            continue
        bi, t = bs[0]
        tb = peel(f.expr_of_operand(t["args"][0]))
        key = peel(f.expr_of_operand(t["args"][1]))
        clo = f.expr_of_operand(t["args"][2])
        okk = tb[0] in ("const", "constx") and (tb[2] == FOLD_TABLE if tb[0] == "const" else tb[1] == FOLD_TABLE)
        okkey = key[0] == "arg" and key[1] == 1
        okclo = False
        if clo[0] == "closure":
            cf = get_fn(ctx.facts, M, clo[1])
            r = ret_aggregates(cf)
            if len(r) == 1:
                e = cf.expr_of_rvalue(r[0][2])
                e = peel(e)
                if e[0] == "field" and e[2] == "0":
                    okclo = True
        if okk and okkey and okclo:
            ctx.ok(site(f, bi), "%s: binary search of c in CASE_FOLDING_SIMPLE keyed on the first tuple component" % name)
        else:
            ctx.violation("%s|lookup|2" % name, site(f, bi), "lookup is not `CASE_FOLDING_SIMPLE.binary_search_by_key(&c, |(k, _)| *k)` (table %s key %s closure-key-ok %s)" % (okk, okkey, okclo))
    f = get_fn(ctx.facts, M, "chars::to_lower_case")
    mo = [(bi, t) for bi, t in f.calls(lambda t: callee(t).endswith("::map_or"))]
    okv = False
    if mo:
        d = f.expr_of_operand(mo[0][1]["args"][1])
        clo = f.expr_of_operand(mo[0][1]["args"][2])
        if d[0] == "arg" and d[1] == 1 and clo[0] == "closure":
            cf = get_fn(ctx.facts, M, clo[1])
            r = ret_aggregates(cf)
            if len(r) == 1:
                e = cf.expr_of_rvalue(r[0][2])
                if e[0] == "field" and e[2] == "1" and e[1][0] == "index":
                    okv = True
    if okv:
        ctx.ok(site(f, 0), "to_lower_case(c) = table[idx].1 if found else c")
    else:
        ctx.violation("chars::to_lower_case|value|1", site(f, 0), "to_lower_case does not return `found ? table[idx].1 : c`")


def rule_table_algebra(ctx):
    ft = table(ctx, FOLD_TABLE)
    keys = [k for k, v in ft]
    fold = dict((k, v) for k, v in ft)
    where = "matcher/src/chars/case_fold.rs (CASE_FOLDING_SIMPLE)"
    bad = [(keys[i], keys[i + 1]) for i in range(len(keys) - 1) if not keys[i] < keys[i + 1]]
    if bad:
        ctx.violation("CASE_FOLDING_SIMPLE|sorted|1", where, "keys not strictly increasing at %s: binary search misses entries" % [(hex(a), hex(b)) for a, b in bad[:3]])
    else:
        ctx.ok(where, "%d keys strictly increasing (binary-search precondition)" % len(keys))
    nonidem = [(k, v) for k, v in ft if v in fold and fold[v] != v]
    if nonidem:
        ctx.violation("CASE_FOLDING_SIMPLE|idempotent|1", where, "fold(fold(c)) != fold(c) for %s" % [(hex(k), hex(v)) for k, v in nonidem[:5]])
    else:
        ctx.ok(where, "no folded value is itself folded further: fold is idempotent on all scalars")
    selfmap = [k for k, v in ft if k == v]
    ascii_keys = [(k, v) for k, v in ft if k < 0x80]
    exp = [(c, c + 32) for c in range(ord("A"), ord("Z") + 1)]
    if ascii_keys == exp:
        ctx.ok(where, "ASCII keys are exactly A..=Z -> +32; all other ASCII is untouched by folding")
    else:
        ctx.violation("CASE_FOLDING_SIMPLE|ascii|1", where, "ASCII part of the fold table is not exactly A..=Z -> a..=z: %s" % [(hex(k), hex(v)) for k, v in ascii_keys if (k, v) not in exp][:5])
    into_ascii = [(k, v) for k, v in ft if k >= 0x80 and v < 0x80]
    ctx.note("non-ASCII characters folding to ASCII: %s" % [(hex(k), chr(v)) for k, v in into_ascii])
    # normalization tables
    parts = _state.get("dispatch")
    if parts is None:
        _, parts = extract_dispatch(ctx)
    norm = {}
    for lo, hi, kind in parts:
        if kind == "id":
            continue
        _, path, base = kind
        tb = table(ctx, path)
        twhere = "matcher/src/chars/normalize.rs (%s)" % path.rsplit("::", 1)[1]
        outside = []
        for c in range(max(lo, base), min(hi, base + len(tb) - 1) + 1):
            v = tb[c - base]
            norm[c] = v
            if v != c and not in_blocks(c):
                outside.append((c, v))
        if outside:
            ctx.violation("%s|blocks|1" % path, twhere, "characters outside the documented blocks are changed: %s" % [(hex(c), chr(v)) for c, v in outside[:5]])
        else:
            ctx.ok(twhere, "changes only characters of the documented blocks")
    _state["norm"] = norm
    _state["fold"] = fold
    # ASCII is a fixed point of normalize by dispatch (first interval is identity and covers 0..0x7F)
    first = parts[0]
    if first[2] == "id" and first[1] >= 0x7F:
        ctx.ok(NORM, "ASCII is outside every table interval")
    else:
        ctx.violation(NORM + "|ascii|1", NORM, "ASCII characters can be changed by normalize")


def rule_sweep(ctx):
    """All scalars x 4 configurations: build the composed map from the extracted pieces and check
    idempotence and ASCII behaviour of each map and of the composition as the `char` impl applies it."""
    norm = _state.get("norm")
    fold = _state.get("fold")
    if norm is None or fold is None:
        raise Inconclusive("tables not available (previous rule failed)")

    def N(c):
        return norm.get(c, c)

    def F(c):
        return fold.get(c, c)
    n = 0
    bad_n = bad_f = bad_comp = bad_ascii = 0
    first_bad = None
    for c in range(0x110000):
        if 0xD800 <= c <= 0xDFFF:
            continue
        for ic in (False, True):
            for nm in (False, True):
                n += 1
                x = c
                if nm:
                    x = N(x)
                if ic:
                    x = F(x)
                # second application of the same configuration
                y = x
                if nm:
                    y = N(y)
                if ic:
                    y = F(y)
                if y != x:
                    bad_comp += 1
                    first_bad = first_bad or (c, ic, nm, x, y)
                if c < 0x80:
                    exp = c + 32 if (ic and 65 <= c <= 90) else c
                    if x != exp:
                        bad_ascii += 1
        if N(N(c)) != N(c):
            bad_n += 1
        if F(F(c)) != F(c):
            bad_f += 1
    _state["sweep_n"] = n
    if bad_n or bad_f or bad_ascii:
        ctx.violation("sweep|idempotence|1", "all scalars", "normalize not idempotent for %d scalars, fold for %d, ASCII changed for %d" % (bad_n, bad_f, bad_ascii))
    else:
        ctx.ok("all 1,112,064 scalars", "normalize and fold are each idempotent; ASCII untouched except A-Z under folding (%d scalar×config evaluations of the table maps)" % n)
    if bad_comp:
        c, ic, nm, x, y = first_bad
        ctx.note("composition fold∘normalize is not idempotent for %d (scalar, config) pairs, e.g. U+%04X (ignore_case=%s normalize=%s): %#x then %#x — the property asks idempotence of each map separately" % (bad_comp, c, ic, nm, x, y))
    else:
        ctx.ok("all scalars × 4 configurations", "the composed map fold^{ignore_case} ∘ normalize^{normalize} is idempotent too")


def rule_oracles(ctx):
    norm = _state.get("norm")
    fold = _state.get("fold")
    if norm is None or fold is None:
        raise Inconclusive("tables not available")
    o14 = json.load(open(os.path.join(VERIF, "ref", "ucd14_oracle.json")))
    orb = json.load(open(os.path.join(VERIF, "ref", "simple_fold_orbits.json")))
    # NFKD
    want = {int(k): v for k, v in o14["nfkd_ascii_alnum_plus_marks"].items()}
    wrong = [(c, norm.get(c, c), v) for c, v in sorted(want.items()) if norm.get(c, c) != v]
    twhere = "matcher/src/chars/normalize.rs"
    if wrong:
        for c, got, v in wrong[:40]:
            ctx.violation("normalize|nfkd|U+%04X" % c, twhere, "U+%04X decomposes (NFKD) to '%s' + combining marks but normalizes to %s" % (c, chr(v), ("'%s'" % chr(got)) if got != c else "itself"))
    else:
        ctx.ok(twhere, "all %d block characters whose NFKD is an ASCII letter/digit + marks map to exactly that letter/digit" % len(want))
    # case folding vs orbits
    orbit_of = {}
    for i, o in enumerate(orb["orbits"]):
        for c in o:
            orbit_of[c] = i
    fwhere = "matcher/src/chars/case_fold.rs"
    notin = [(k, v) for k, v in fold.items() if k not in orbit_of or orbit_of.get(v) != orbit_of[k]]
    if notin:
        for k, v in notin[:8]:
            ctx.violation("fold|orbit|U+%04X" % k, fwhere, "U+%04X folds to U+%04X, which is not in its simple-case-folding orbit" % (k, v))
    else:
        ctx.ok(fwhere, "every fold value lies in its key's UCD-16 orbit (%d keys)" % len(fold))
    # one target per orbit
    tg = {}
    multi = []
    for k, v in fold.items():
        i = orbit_of.get(k)
        if i is None:
            continue
        if i in tg and tg[i] != v:
            multi.append((i, tg[i], v))
        tg[i] = v
    if multi:
        for i, a, b in multi[:5]:
            ctx.violation("fold|orbit-target|%d" % i, fwhere, "members of one orbit fold to different targets U+%04X / U+%04X" % (a, b))
    else:
        ctx.ok(fwhere, "all keys of one orbit share one target")
    # agreement with full case folding where that is a single scalar (UCD 14)
    sf = {int(k): v for k, v in o14["single_scalar_full_fold"].items()}
    dis = [(k, fold.get(k, k), v) for k, v in sorted(sf.items()) if fold.get(k, k) != v]
    if dis:
        for k, got, v in dis[:8]:
            ctx.violation("fold|value|U+%04X" % k, fwhere, "U+%04X: Unicode case folding gives U+%04X, the table gives %s" % (k, v, "U+%04X" % got if got != k else "no folding"))
    else:
        ctx.ok(fwhere, "agrees with Unicode (UCD 14) case folding for all %d scalars whose full folding is one scalar" % len(sf))
    # completeness: every UCD-14-assigned non-target orbit member is a key
    assigned = set()
    for lo, hi in o14["assigned_ranges"]:
        if hi - lo < 200000:
            assigned.update(range(lo, hi + 1))
    missing = []
    for o in orb["orbits"]:
        i = orbit_of[o[0]]
        t = tg.get(i)
        if t is None:
            # no key of this orbit in the table: either the orbit is newer than the table's UCD 15.0
            # (e.g. U+1FD3/U+0390, added in 15.1) or every row was deleted; the second case is caught by
            # the UCD-14 agreement check above for all C-type foldings
            continue
        for c in o:
            if c != t and c in assigned and c not in fold:
                # c might itself be a fold target of the UCD-14 fold (identity under folding)
                if sf.get(c) is None and c not in sf.values():
                    missing.append((o, c))
                elif sf.get(c) is not None:
                    missing.append((o, c))
    if missing:
        for o, c in missing[:8]:
            ctx.violation("fold|complete|%s" % ("U+%04X" % c if c else "orbit-%04X" % o[0]), fwhere,
                          "%s of orbit %s has no entry in CASE_FOLDING_SIMPLE: it does not match its case variants" % ("U+%04X" % c if c else "every member", ["U+%04X" % x for x in o]))
    else:
        ctx.ok(fwhere, "every UCD-14-assigned, non-target member of every orbit is a key (no deleted rows)")


def fold_guard_report(ctx, fn, bi, what):
    return site(fn, bi)


def rule_siblings(ctx):
    """The two normalizer routines of `char` (and of AsciiChar) apply the same steps under config-only guards."""
    from props.c01 import rule_norm_siblings
    rule_norm_siblings(ctx)


def rule_ascii(ctx):
    from props.c01 import rule_ascii_fold_consts
    rule_ascii_fold_consts(ctx)


def extra_coverage(ctx):
    return {"exhaustive": True, "domain": "all 1,112,064 Unicode scalar values x 4 (ignore_case, normalize) configurations",
            "table_evaluations": _state.get("sweep_n", 0)}


def rules(ctx):
    ctx.run_rule("C16.dispatch", rule_dispatch)
    ctx.run_rule("C16.table-algebra", rule_table_algebra)
    ctx.run_rule("C16.sweep", rule_sweep)
    ctx.run_rule("C16.oracles", rule_oracles)
    ctx.run_rule("C16.siblings", rule_siblings)
    ctx.run_rule("C16.ascii", rule_ascii)

"""C11 — every injected item is dropped exactly once, and only after it is unreachable."""
from cfg import Inconclusive, op_place, show, walk, strip_casts
from common import (atomic_op, calls_to, callee, callee_names, closure_consumer, closure_creations,
                    field_chain, fn_of, find_fn, get_fn, head_sources, peel, site, uses_of_local, guards_of)
from props.c08 import slot_writes, slot_value_block, active_stores, WRITERS, VEC, is_diverging
from props.c09 import classify

from common import iter_pipeline, closure_tree

from common import field_assigns

PROP = "C11"
LEVEL = "other"
UNDECIDED = [
    "exactly-once over all histories of handle drops / restarts from any thread (needs exploration of histories)",
    "correctness of the pointer arithmetic in Bucket::get / matcher_cols_raw",
]
ASSUMPTIONS = [
    "MIR drop elaboration (the compiler's own) is the ground truth for which locals are dropped on unwind",
    "Arc / Box / Vec from std drop their contents exactly once",
]

DROP = "<boxcar::Vec<T> as std::ops::Drop>::drop"


def for_loops(fn):
    """[(header, body, next_bb, switch_bb, none_target)] for loops driven by Iterator::next."""
    out = []
    for h, body, srcs in fn.loops():
        nxt = None
        for b in sorted(body):
            t = fn.blocks[b]["term"]
            if t["k"] == "call" and callee(t).endswith("::next") and "Iterator" in (t.get("fn") or ""):
                # the switch on the result's discriminant
                tb = t["target"]
                if tb is None:
                    continue
                st = fn.blocks[tb]["term"]
                if st["k"] == "switch":
                    e = fn.expr_of_operand(st["discr"])
                    if e[0] == "discr":
                        none_t = [bb for v, bb in st["arms"] if v == 0]
                        if none_t and none_t[0] not in body:
                            nxt = (b, tb, none_t[0])
                            break
        out.append((h, body, nxt))
    return out


def _pred_result(facts, cpath):
    """Single result expression of a loop-free predicate closure (or None)."""
    from cfg import decision_paths
    b = facts.body("nucleo", cpath)
    if b is None:
        return None
    try:
        ps = decision_paths(fn_of(b))
    except Inconclusive:
        return None
    if len(ps) != 1:
        return None
    return ps[0][1]


def _drop_chain_form(ctx, fn):
    """`self.buckets.iter_mut()…filter(non-null).for_each(dealloc)`: every bucket is visited because no stage of
    the chain can end it early, and the only stage that drops elements drops exactly the unallocated buckets."""
    facts = ctx.facts
    sinks = [(bi, t) for bi, t in fn.calls(lambda t: callee(t).endswith("Iterator::for_each") or str(t.get("fn")).endswith("Iterator::for_each"))]
    for bi, t in sinks:
        clo = fn.expr_of_operand(t["args"][1])
        if clo[0] != "closure":
            continue
        tree = closure_tree(facts, "nucleo", clo[1])
        if not any(callee(ct) == "boxcar::Bucket::<T>::dealloc" for f in tree for _, ct in f.calls()):
            continue
        stages = iter_pipeline(fn, t)
        src = stages[0]
        whole = False
        if src[0] == "source" and src[2][0] == "call":
            base, names = field_chain(src[2][2][0])
            whole = names == ["buckets"]
        if not whole:
            ctx.violation(DROP + "|iter-range|1", site(fn, bi), "the freeing chain does not start from an iterator over the whole `buckets` array")
        bad = [st for st in stages[1:] if st[0].startswith("truncating:") or st[0].startswith("unknown:") or st[0] == "zip"]
        for st in stages[1:]:
            if st[0].startswith("subset:"):
                r = _pred_result(facts, st[1]) if st[1] else None
                nonnull = r is not None and r[0] == "un" and r[1] == "Not" and r[2][0] == "call" and str(r[2][1]).endswith("::is_null")
                if not nonnull:
                    bad.append(st)
        if bad:
            ctx.violation(DROP + "|loop-exit|1", site(fn, bi),
                          "Drop for Vec does not hand every allocated bucket to Bucket::dealloc: stage `%s` of the iterator chain can skip or cut off buckets "
                          "(buckets are allocated out of index order, so later buckets and every item in them would leak)" % bad[0][0])
        else:
            ctx.ok(site(fn, bi), "iterator chain over all buckets: only null buckets are filtered out, nothing truncates (%s)" % " → ".join(st[0] for st in stages))
        # freed with its own length: a bucket_len(<non-constant>) feeds the dealloc; never a constant length
        blens = []
        for st in stages:
            if st[1]:
                for f in closure_tree(facts, "nucleo", st[1]):
                    blens += [(f, b2, t2) for b2, t2 in f.calls(lambda t: callee(t) == "boxcar::Location::bucket_len")]
        for f in tree:
            blens += [(f, b2, t2) for b2, t2 in f.calls(lambda t: callee(t) == "boxcar::Location::bucket_len")]
        okl = bool(blens) and all(f.expr_of_operand(t2["args"][0])[0] != "const" for f, b2, t2 in blens)
        for f in tree:
            for b2, t2 in f.calls(lambda t: callee(t) == "boxcar::Bucket::<T>::dealloc"):
                ln = f.expr_of_operand(t2["args"][1])
                if okl and strip_casts(ln)[0] != "const":
                    ctx.ok(site(f, b2), "bucket freed with Location::bucket_len(its index)")
                else:
                    ctx.violation(DROP + "|dealloc-len|1", site(f, b2), "bucket freed with a length that is not Location::bucket_len(index of this bucket): %s" % show(ln))
        nonnull_stage = any(st[0].startswith("subset:") for st in stages)
        if nonnull_stage and not bad:
            ctx.ok(site(fn, bi), "dealloc only for non-null buckets")
        elif not nonnull_stage:
            ctx.violation(DROP + "|dealloc-null|1", site(fn, bi), "Bucket::dealloc reachable with a null bucket pointer")
        return True
    return False


def rule_drop_visits_all(ctx):
    fn = get_fn(ctx.facts, "nucleo", DROP)
    loops = for_loops(fn)
    # the loop that calls Bucket::dealloc
    target = None
    for h, body, nxt in loops:
        if any(bi in body for bi, t in fn.calls(lambda t: callee(t) == "boxcar::Bucket::<T>::dealloc")):
            target = (h, body, nxt)
    if target is None:
        if _drop_chain_form(ctx, fn):
            return
        raise Inconclusive("Drop for Vec: no loop (or iterator chain) that calls Bucket::dealloc")
    h, body, nxt = target
    if nxt is None:
        raise Inconclusive("Drop for Vec: the freeing loop is not driven by an iterator")
    # the iterator covers all buckets: iter_mut / iter over self.buckets (whole array)
    it = fn.expr_of_operand(fn.blocks[nxt[0]]["term"]["args"][0])
    whole = False
    cands = [it]
    for x in walk(it):
        if x[0] == "local":
            cands += [d for _, _, d in fn.def_exprs(x[1])]
    for c in cands:
        for y in walk(c):
            if y[0] == "call" and (str(y[1]).endswith("[T]>::iter_mut") or str(y[1]).endswith("[T]>::iter")):
                base, names = field_chain(y[2][0])
                if names == ["buckets"]:
                    whole = True
    if not whole:
        ctx.violation(DROP + "|iter-range|1", site(fn, h), "the freeing loop does not iterate over the whole `buckets` array")
    exits = fn.loop_exits((h, body, None))
    bad = [(a, b) for a, b in exits if not (a == nxt[1] and b == nxt[2]) and not is_diverging(fn, b)]
    # buckets are not allocated in index order (push/extend allocate bucket+1 eagerly), so a null
    # bucket does not mean that all later buckets are null
    if bad:
        for a, b in bad:
            ctx.violation(DROP + "|loop-exit|1", site(fn, a),
                          "Drop for Vec leaves the bucket loop early (not by exhausting the iterator): buckets are allocated out of index order "
                          "(the next bucket is allocated eagerly, and extend allocates end_bucket+1 before intermediate buckets), so later buckets and every item in them leak")
    else:
        ctx.ok(site(fn, h), "bucket loop exits only by iterator exhaustion over all buckets")
    # each non-null bucket is freed with its own length
    for bi, t in fn.calls(lambda t: callee(t) == "boxcar::Bucket::<T>::dealloc"):
        ln = fn.expr_of_operand(t["args"][1])
        ptr = fn.expr_of_operand(t["args"][0])
        good = ln[0] == "call" and ln[1] == "boxcar::Location::bucket_len"
        idx = strip_casts(ln[2][0]) if good else None
        piped = None
        if not good:
            piped = _len_and_ptr_from_pipeline(ctx, fn, ln, ptr)
        # idx must be the enumerate index of the same iteration as the pointer
        if good and idx[0] != "const":
            ctx.ok(site(fn, bi), "bucket freed with Location::bucket_len(its index)")
        elif piped:
            ctx.ok(site(fn, bi), "bucket freed with the (bucket_len(index), pointer) pair a map stage over the zipped bucket indices produced; null buckets filtered out")
            continue
        else:
            ctx.violation(DROP + "|dealloc-len|1", site(fn, bi), "bucket freed with a length that is not Location::bucket_len(index of this bucket): %s" % show(ln))
        gs = [g for g in guards_of(fn, bi) if g[3][0] == "call" and str(g[3][1]).endswith("::is_null")]
        if gs and all(g[2] == [0] for g in gs):
            ctx.ok(site(fn, bi), "dealloc only for non-null buckets")
        else:
            ctx.violation(DROP + "|dealloc-null|1", site(fn, bi), "Bucket::dealloc reachable with a null bucket pointer")
    # structural fact the rule relies on, re-derived: some writer allocates bucket b+1 before bucket b
    eager = 0
    for w in WRITERS:
        wf = get_fn(ctx.facts, "nucleo", w)
        for bi, t in wf.calls(lambda t: callee(t) == VEC + "get_or_alloc"):
            b = wf.expr_of_operand(t["args"][0])
            if any(x[0] in ("bin", "checked") and x[1] == "Add" and x[3][0] == "const" and x[3][1] == 1 for x in walk(b)):
                eager += 1
    ctx.note("writers allocate bucket+1 eagerly at %d site(s): buckets can be non-null after a null one" % eager)


def _len_and_ptr_from_pipeline(ctx, fn, ln, ptr):
    """`for (len, entries) in (0..BUCKETS).zip(buckets.iter_mut()).map(|(i, b)| (bucket_len(i), *b.entries.get_mut())).filter(non-null)`:
    the length and the pointer are two components of one item of a chain whose map stage computes bucket_len of the zipped
    index, over all buckets, and whose only subset stage drops null pointers."""
    from common import iter_pipeline
    nx = [x for x in walk(ln) if x[0] == "call" and str(x[1]).endswith("::next")]
    px = [x for x in walk(ptr) if x[0] == "call" and str(x[1]).endswith("::next")]
    if len(nx) != 1 or len(px) != 1 or nx[0][4] != px[0][4]:
        return False
    t = fn.blocks[nx[0][4][0]]["term"]
    try:
        stages = iter_pipeline(fn, t, 0)
    except Exception:
        return False
    kinds = [st[0] for st in stages]
    if any(k.startswith(("truncating:", "unknown:")) or k == "total:rev" for k in kinds):
        return False
    src_ok = any("buckets" in show(st[2]) for st in stages if st[0] in ("source", "zip")) or "buckets" in show(stages[0][2] if stages else ("?",))
    maps = [st for st in stages if st[0] == "total:map" and st[1]]
    subs = [st for st in stages if st[0].startswith("subset:")]
    if not src_ok or len(maps) != 1 or any(not st[1] for st in subs):
        return False
    mf = get_fn(ctx.facts, "nucleo", maps[0][1])
    has_len = any(callee(t2) == "boxcar::Location::bucket_len" and not strip_casts(mf.expr_of_operand(t2["args"][0]))[0] == "const" for _, t2 in mf.calls())
    nonnull = True
    for st in subs:
        ff = get_fn(ctx.facts, "nucleo", st[1])
        if not any(callee(t2).endswith("::is_null") for _, t2 in ff.calls()):
            nonnull = False
    return has_len and bool(subs) and nonnull


def rule_dealloc_callers(ctx):
    facts = ctx.facts
    cs = calls_to(facts, "nucleo", lambda t: callee(t) == "boxcar::Bucket::<T>::dealloc")
    ctx.floor("callers of Bucket::dealloc", len(cs), 1)
    for fn, bi, t in cs:
        if fn.path in (DROP, VEC + "get_or_alloc") or (fn.b.get("kind") == "Closure" and fn.b.get("root") == DROP):
            ctx.ok(site(fn, bi), "dealloc from %s" % fn.path)
        else:
            ctx.violation("%s|Bucket::dealloc|1" % fn.path, site(fn, bi),
                          "Bucket::dealloc called from %s: only Drop (exclusive access) and the losing CAS arm (private allocation) may free a bucket" % fn.path)
    # raw std::alloc::dealloc only inside Bucket::dealloc
    for fn, bi, t in calls_to(facts, "nucleo", lambda t: callee(t) == "std::alloc::dealloc"):
        if fn.path == "boxcar::Bucket::<T>::dealloc":
            ctx.ok(site(fn, bi), "raw dealloc inside Bucket::dealloc")
        else:
            ctx.violation("%s|std::alloc::dealloc|1" % fn.path, site(fn, bi), "raw deallocation outside Bucket::dealloc")
    # leak primitives
    leaks = ("std::mem::forget", "std::mem::ManuallyDrop", "std::boxed::Box::<T>::leak", "std::sync::Arc::<T>::into_raw",
             "std::boxed::Box::<T>::into_raw", "std::sync::Arc::<T, A>::into_raw", "std::boxed::Box::<T, A>::leak",
             "std::boxed::Box::<T, A>::into_raw", "std::mem::ManuallyDrop::<T>::new")
    hits = calls_to(facts, "nucleo", lambda t: any(callee(t).startswith(l) or (t.get("fn") or "").startswith(l) for l in leaks))
    # par_sort.rs is vendored sort code working on &mut [T]; it uses ManuallyDrop for its hole guards and is covered by C18
    hits = [h for h in hits if not h[0].path.startswith("par_sort::")]
    if hits:
        for fn, bi, t in hits:
            ctx.violation("%s|%s|1" % (fn.path, callee(t)), site(fn, bi), "leak primitive %s used on library-owned data" % callee(t))
    else:
        ctx.ok("crate nucleo (outside vendored par_sort)", "no mem::forget / ManuallyDrop / leak / into_raw")
    for a in facts.crate("nucleo")["adts"]:
        for v in a["variants"]:
            for f in v["fields"]:
                if "ManuallyDrop" in f["ty"] and not a["path"].startswith("par_sort::"):
                    ctx.violation("%s|field %s|1" % (a["path"], f["name"]), "%s:%d" % (a["loc"]["file"], a["loc"]["line"]), "ManuallyDrop field in library type")


def _is_drop_call(t):
    return callee(t) == "std::ptr::drop_in_place" or callee(t).endswith("::assume_init_drop")


def _dealloc_chain_form(ctx, fn):
    """`(0..len).map(|i| Bucket::get(entries, i, cols)).filter(active).for_each(drop slot + columns)`."""
    facts = ctx.facts
    for bi, t in fn.calls(lambda t: callee(t).endswith("Iterator::for_each") or str(t.get("fn")).endswith("Iterator::for_each")):
        clo = fn.expr_of_operand(t["args"][1])
        if clo[0] != "closure":
            continue
        tree = closure_tree(facts, "nucleo", clo[1])
        dcalls = [(f, b2, t2) for f in tree for b2, t2 in f.calls(_is_drop_call)]
        if not dcalls:
            continue
        stages = iter_pipeline(fn, t)
        src = stages[0]
        ok_range = False
        if src[0] == "source" and src[2][0] == "agg" and str(src[2][1]).endswith("Range::Range"):
            a, b = src[2][2].get("start"), src[2][2].get("end")
            ok_range = a is not None and a[0] == "const" and a[1] == 0 and b is not None and b[0] == "arg" and b[1] == 2
        if ok_range and not any(st[0].startswith(("truncating:", "unknown:")) or st[0] == "zip" for st in stages[1:]):
            ctx.ok(site(fn, bi), "entries 0..len visited (iterator chain, nothing truncates)")
        else:
            ctx.violation("boxcar::Bucket::<T>::dealloc|range|1", site(fn, bi), "dealloc does not visit entries 0..len of the bucket")
        # the only subset stage keeps exactly the active entries
        gated = False
        for st in stages[1:]:
            if st[0].startswith("subset:"):
                r = _pred_result(facts, st[1]) if st[1] else None
                if r is not None and any(x[0] == "call" and (str(x[1]).endswith("Atomic::<bool>::get_mut") or str(x[1]).endswith("Atomic::<bool>::load")) for x in walk(r)) \
                        and any(x[0] == "field" and x[2] == "active" for x in walk(r)) and not (r[0] == "un" and r[1] == "Not"):
                    gated = True
                else:
                    ctx.violation("boxcar::Bucket::<T>::dealloc|filter|1", site(fn, bi), "the chain filters entries by something other than their active flag")
        kinds = set()
        for f, b2, t2 in dcalls:
            e = f.expr_of_operand(t2["args"][0])
            kind = "slot" if any(x[0] == "field" and x[2] == "slot" for x in walk(e)) else "column"
            kinds.add(kind)
            # ... or the closure itself tests the flag in front of the drop (`if !active { return }`)
            local_gate = False
            for gbi_, sb_, vals_, ge_ in guards_of(f, b2):
                if any(x[0] == "call" and (str(x[1]).endswith("Atomic::<bool>::get_mut") or str(x[1]).endswith("Atomic::<bool>::load")) for x in walk(ge_)) \
                        and any(x[0] == "field" and x[2] == "active" for x in walk(ge_)):
                    g0_ = strip_casts(ge_)
                    neg_ = False
                    while g0_[0] == "un" and g0_[1] == "Not":
                        g0_ = strip_casts(g0_[2]); neg_ = not neg_
                    if (vals_ in ([None], [1])) != neg_:
                        local_gate = True
            if gated or local_gate:
                ctx.ok(site(f, b2), "drop of the %s happens only for entries that passed the active-flag %s" % (kind, "filter" if gated else "test in the closure"))
            else:
                ctx.violation("boxcar::Bucket::<T>::dealloc|drop-%s|1" % kind, site(f, b2),
                              "drop of the %s is not guarded by the entry's active flag: slots that were never initialised would be dropped" % kind)
        if kinds != {"slot", "column"}:
            ctx.violation("boxcar::Bucket::<T>::dealloc|drop-kinds|1", site(fn, 0),
                          "Bucket::dealloc drops %s only; both the slot value and every matcher column must be dropped (leak otherwise)" % sorted(kinds))
        _dealloc_layout_pair(ctx, fn)
        return True
    return False


def rule_drop_gated(ctx):
    fn = get_fn(ctx.facts, "nucleo", "boxcar::Bucket::<T>::dealloc")
    drops = [(bi, t) for bi, t in fn.calls(lambda t: callee(t) == "std::ptr::drop_in_place" or callee(t).endswith("::assume_init_drop"))]
    if not drops and _dealloc_chain_form(ctx, fn):
        return
    ctx.floor("drop_in_place sites in Bucket::dealloc", len(drops), 2)
    kinds = set()
    for i, (bi, t) in enumerate(drops):
        e = fn.expr_of_operand(t["args"][0])
        is_slot = any(x[0] == "field" and x[2] == "slot" for x in walk(e))
        kind = "slot" if is_slot else "column"
        kinds.add(kind)
        gs = []
        for gbi, sb, vals, ge in guards_of(fn, bi):
            g = peel(ge)
            # *(*entry).active.get_mut()
            if any(x[0] == "call" and str(x[1]).endswith("Atomic::<bool>::get_mut") for x in walk(ge)) or \
               any(x[0] == "call" and atomic_op_name(x) == "load" for x in walk(ge)):
                g0 = strip_casts(ge)
                neg = False
                while g0[0] == "un" and g0[1] == "Not":
                    g0 = strip_casts(g0[2]); neg = not neg
                # `if !active { return }`: continuing on the 0-edge of the negation is the active == true edge
                gs.append(([1] if vals == [0] else ([0] if vals in ([None], [1]) else vals)) if neg else vals)
        if gs and all(v in ([None], [1]) for v in gs):
            ctx.ok(site(fn, bi), "drop of the %s is control-dependent on this entry's active flag" % kind)
        else:
            ctx.violation("boxcar::Bucket::<T>::dealloc|drop-%s|1" % kind, site(fn, bi),
                          "drop_in_place of the %s is not guarded by the entry's active flag: slots that were never initialised would be dropped" % kind)
    if kinds != {"slot", "column"}:
        ctx.violation("boxcar::Bucket::<T>::dealloc|drop-kinds|1", site(fn, 0),
                      "Bucket::dealloc drops %s only; both the slot value and every matcher column must be dropped (leak otherwise)" % sorted(kinds))
    # loop range 0..len with len the parameter, and the entry visited is Bucket::get(entries, i, cols)
    rng = [s for bi, si, s in fn.stmts(lambda s: s["k"] == "assign" and s["rv"].get("agg") == "adt" and s["rv"].get("adt", "").endswith("ops::Range"))]
    ok_range = False
    for s in rng:
        a = strip_casts(fn.expr_of_operand(s["rv"]["ops"][0]))
        b = strip_casts(fn.expr_of_operand(s["rv"]["ops"][1]))
        if a[0] == "const" and a[1] == 0 and b[0] == "arg" and b[1] == 2:
            ok_range = True
    # ... and the entry loop is left only when the range is exhausted: a bucket can have never-filled slots anywhere
    # (a panicking fill callback, an iterator that yields fewer items than it announced), so stopping at the first
    # inactive entry leaks every active entry behind it
    early = []
    for h_, body_, nxt_ in for_loops(fn):
        if not any(bi in body_ for bi, t in drops):
            continue
        if nxt_ is None:
            continue
        for a_, b_ in fn.loop_exits((h_, body_, None)):
            if (a_ == nxt_[1] and b_ == nxt_[2]) or is_diverging(fn, b_):
                continue
            # exits of an inner loop (the per-column loop) that stay inside an outer loop are not exits of the entry loop
            if any(b_ in ob for oh, ob, on in for_loops(fn) if ob is not body_ and body_ <= ob):
                continue
            early.append((a_, b_))
    if early and ok_range:
        # only the outermost drop loop matters
        outer = [x for x in early]
        if outer:
            ctx.violation("boxcar::Bucket::<T>::dealloc|loop-exit|1", site(fn, outer[0][0]),
                          "Bucket::dealloc leaves the entry loop before index `len`: entries behind a never-activated slot (panicking fill callback, short iterator) are never dropped — their items and columns leak")
            ok_range = None
    # ... and the loop is entered unconditionally: a condition around the whole teardown (`if needs_drop::<T>()`, a length
    # test) skips the matcher columns of every active entry -- they own heap memory whatever the item type is
    for h_, body_, nxt_ in for_loops(fn):
        if not any(bi in body_ for bi, t in drops):
            continue
        if any(body_ < ob and any(bi in ob for bi, t in drops) for oh, ob, on in for_loops(fn) if ob is not body_):
            continue                       # an inner (per-column) loop
        def only_len(e_):
            leaves = [x for x in walk(e_) if x[0] in ("arg", "local", "field", "call", "index")]
            return bool(leaves) and all(x[0] == "arg" and x[1] == 2 for x in leaves)
        # (a test of the bucket length itself -- `if len != 0` -- skips nothing)
        outer_guards = [g for g in guards_of(fn, h_) if g[0] not in body_ and not only_len(g[3])]
        if outer_guards and ok_range:
            ctx.violation("boxcar::Bucket::<T>::dealloc|loop-guard|1", site(fn, outer_guards[0][0]),
                          "the per-entry teardown of Bucket::dealloc runs only under a condition (%s): when it is skipped the matcher columns (and items) of the active entries are "
                          "never dropped before the bucket's memory is freed" % show(outer_guards[0][3])[:80])
            ok_range = None
    if ok_range is None:
        pass
    elif ok_range:
        ctx.ok(site(fn, 0), "entries 0..len visited, loop left only by exhaustion")
    else:
        ctx.violation("boxcar::Bucket::<T>::dealloc|range|1", site(fn, 0), "dealloc does not visit entries 0..len of the bucket")
    _dealloc_layout_pair(ctx, fn)


def _dealloc_layout_pair(ctx, fn):
    # same layout expression as Bucket::alloc
    al = get_fn(ctx.facts, "nucleo", "boxcar::Bucket::<T>::alloc")
    a_sites = [(bi, t) for bi, t in al.calls(lambda t: callee(t) in ("std::alloc::alloc", "std::alloc::alloc_zeroed"))]
    d_sites = [(bi, t) for bi, t in fn.calls(lambda t: callee(t) == "std::alloc::dealloc")]
    if len(a_sites) != 1 or len(d_sites) != 1:
        raise Inconclusive("alloc/dealloc sites not unique")
    la = al.expr_of_operand(a_sites[0][1]["args"][0])
    ld = fn.expr_of_operand(d_sites[0][1]["args"][1])

    def norm(e):
        # erase block/local identity of call tuples
        if isinstance(e, tuple):
            if e and e[0] == "call":
                return ("call", e[1], tuple(norm(a) for a in e[2]))
            if e and e[0] == "arg":
                return ("arg", e[2])
            return tuple(norm(x) for x in e)
        return e
    if norm(la) == norm(ld):
        ctx.ok(site(fn, d_sites[0][0]), "deallocated with the layout expression used by Bucket::alloc: %s" % show(ld))
    else:
        ctx.violation("boxcar::Bucket::<T>::dealloc|layout|1", site(fn, d_sites[0][0]),
                      "layout passed to dealloc (%s) differs from the one used to allocate (%s)" % (show(ld), show(la)))
    # the raw dealloc happens after the loop (post-dominates entry, not inside the loop)
    dl = d_sites[0][0]
    in_loop = any(dl in body for h, body, srcs in fn.loops())
    if in_loop:
        ctx.violation("boxcar::Bucket::<T>::dealloc|free-in-loop|1", site(fn, dl), "bucket memory freed inside the entry loop (use after free for the remaining entries)")
    elif fn.all_paths_to_return_pass(0, via_nodes=[dl]):
        ctx.ok(site(fn, dl), "bucket memory freed exactly once on every path, after the entry loop")
    else:
        ctx.violation("boxcar::Bucket::<T>::dealloc|free-missing|1", site(fn, dl), "a path through Bucket::dealloc returns without freeing the bucket")


def atomic_op_name(x):
    if x[0] == "call" and isinstance(x[3], str) and x[3].startswith("std::sync::atomic::Atomic"):
        return x[3].rsplit("::", 1)[1]
    return None


def rule_panic_order(ctx):
    n = 0
    for w in WRITERS:
        fn = get_fn(ctx.facts, "nucleo", w)
        cbs = [(bi, t) for bi, t in fn.calls(lambda t: callee(t) in ("std::ops::FnOnce::call_once", "std::ops::Fn::call", "std::ops::FnMut::call_mut"))]
        # only the user callback: its callee operand is the fill_columns argument
        cbs = [(bi, t) for bi, t in cbs if any(h.startswith("arg:fill_columns") for h in head_sources(fn, fn.expr_of_operand(t["args"][0])))]
        sw = slot_writes(fn)
        if not cbs or not sw:
            raise Inconclusive("%s: callback or slot write not found" % w)
        for bi, t, entry in sw:
            n += 1
            key = "%s|callback-before-move|1" % fn.path
            # the block in which the value is consumed on its way into the slot
            mv_block = slot_value_block(fn, bi, t)
            if all(fn.dominates(cb, mv_block) and cb != mv_block for cb, _ in cbs):
                ctx.ok(site(fn, bi), "fill_columns runs before the value is moved into the slot")
            else:
                ctx.violation(key, site(fn, bi),
                              "the value is moved into the slot before the user callback has returned: a panicking callback leaves an initialised slot with active == false that nobody drops (leak), or the value is dropped twice")
        for cb, ct in cbs:
            # on the callback's unwind edge the value is dropped by the compiler-generated cleanup and publication is unreachable
            u = ct.get("unwind")
            if not isinstance(u, int):
                ctx.violation("%s|callback-unwind|1" % fn.path, site(fn, cb), "callback call has no cleanup edge: the value would leak on panic")
                continue
            cleanup = fn.reach_from(u, unwind=True)
            stores = [sbi for sbi, st, e, v in active_stores(fn)]
            if any(s in cleanup for s in stores):
                ctx.violation("%s|callback-unwind|2" % fn.path, site(fn, cb), "publication reachable from the callback's unwind path")
                continue
            # value local: first arg of callback tuple is &value
            argt = fn.expr_of_operand(ct["args"][1])
            vloc = None
            if argt[0] == "tuple":
                r = peel(argt[1][0])
                if r[0] in ("arg", "local"):
                    vloc = r[1]
                elif r[0] == "field":  # (next() as Some).0.1 etc: loop variable moved into a local first
                    vloc = None
            if vloc is None:
                # extend: `v` is a user variable assigned from the iterator; find local named v
                vl = fn.name_to_local.get("v") or fn.name_to_local.get("value")
                vloc = vl[0] if vl else None
            if vloc is None:
                raise Inconclusive("%s: cannot identify the item value local" % w)
            dropped = [b for b in cleanup if fn.blocks[b]["term"]["k"] == "drop" and fn.blocks[b]["term"]["place"]["l"] == vloc and not fn.blocks[b]["term"]["place"]["p"]]
            if dropped:
                ctx.ok(site(fn, cb), "on callback panic the item value is dropped by the cleanup path, publication unreachable")
            else:
                ctx.violation("%s|callback-unwind|3" % fn.path, site(fn, cb), "item value is not dropped on the callback's unwind path (leak on panic)")
    ctx.floor("slot writes checked", n, 2)


def rule_keep_alive(ctx):
    facts = ctx.facts
    holders = []
    for a in facts.crate("nucleo")["adts"]:
        for v in a["variants"]:
            for f in v["fields"]:
                if "boxcar::Vec<" in f["ty"]:
                    holders.append((a["path"], f["name"], f["ty"]))
    exp = {("Injector", "items"), ("Snapshot", "items"), ("Nucleo", "items"), ("worker::Worker", "items"),
           ("boxcar::Iter", "vec"), ("boxcar::ParIter", "vec"), ("boxcar::ParIterProducer", "vec")}
    for h in holders:
        if (h[0], h[1]) in exp:
            owning = h[2].startswith("std::sync::Arc<")
            borrowed = h[2].startswith("&")
            if owning or borrowed:
                ctx.ok("%s.%s: %s" % h, "stream held through Arc (owner) or a borrow tied to one")
            else:
                ctx.violation("%s|field %s|1" % (h[0], h[1]), h[0], "item vector held by %s, neither an Arc nor a borrow" % h[2])
        else:
            ctx.fail_closed("new holder of the item vector: %s.%s: %s — not covered by the keep-alive argument" % h)
    ctx.floor("holders of the item stream", len([h for h in holders if h[2].startswith("std::sync::Arc<")]), 4)
    # Drop for Nucleo: cancel, then wait for the worker lock, and do not return without it
    dn = get_fn(facts, "nucleo", "<Nucleo<T> as std::ops::Drop>::drop")
    st = [(bi, t) for bi, t in dn.calls(lambda t: atomic_op(t) == "store") if classify(dn, dn.expr_of_operand(t["args"][0])) == "canceled" and dn.const_of_operand(t["args"][1]) == 1]
    lk = [(bi, t) for bi, t in dn.calls(lambda t: "lock" in callee(t).rsplit("::", 1)[-1])]
    if not st or not lk:
        ctx.violation("<Nucleo<T> as std::ops::Drop>::drop|shape|1", site(dn, 0),
                      "Drop for Nucleo no longer cancels the run and waits for the worker lock before its fields (and with them the item stream the worker reads) are dropped")
    else:
        lb = lk[0][0]
        if dn.dominates(st[0][0], lb) and dn.all_paths_to_return_pass(0, via_nodes=[lb]):
            # the None outcome must diverge
            ctx.ok(site(dn, lb), "drop cancels, then acquires the worker lock on every path before returning")
        else:
            ctx.violation("<Nucleo<T> as std::ops::Drop>::drop|order|1", site(dn, lb), "worker lock not acquired on every path of Drop for Nucleo after cancelling")
        res = dn.expr_of_operand
        # is_none => unreachable!/panic
        found = False
        for bi in sorted(dn.live):
            t = dn.blocks[bi]["term"]
            if t["k"] == "switch":
                e = dn.expr_of_operand(t["discr"])
                none_targets = []
                if e[0] == "call" and str(e[1]).endswith("::is_none"):
                    none_targets = [t["otherwise"]]
                elif e[0] == "call" and str(e[1]).endswith("::is_some"):
                    none_targets = [bb for v, bb in t["arms"] if v == 0]
                elif e[0] == "discr":
                    vals = [v for v, bb in t["arms"]]
                    none_targets = [bb for v, bb in t["arms"] if v == 0]
                    if 0 not in vals and 1 in vals:
                        none_targets = [t["otherwise"]]
                if none_targets and all(is_diverging(dn, bb) for bb in none_targets):
                    found = True
        if not found:
            # the same written with a combinator: `lock_result.expect(..)` / `.unwrap()` / `.unwrap_or_else(|| unreachable!(..))`
            for bi2, t2 in dn.calls(lambda t: callee(t).rsplit("::", 1)[-1] in ("expect", "unwrap", "unwrap_or_else")):
                a0 = dn.expr_of_operand(t2["args"][0])
                if not any(x[0] == "call" and "lock" in str(x[1]).rsplit("::", 1)[-1] for x in walk(a0)):
                    continue
                seg = callee(t2).rsplit("::", 1)[-1]
                if seg in ("expect", "unwrap"):
                    found = True
                else:
                    clo = dn.expr_of_operand(t2["args"][1])
                    cb = facts.body("nucleo", clo[1]) if clo[0] == "closure" else None
                    if cb is not None:
                        cf2 = fn_of(cb)
                        if not cf2.returns or all(r_ not in cf2.reach_from(0) for r_ in cf2.returns):
                            found = True          # the fallback closure never returns
        if found:
            ctx.ok(site(dn, lb), "a failed lock attempt does not fall through to dropping the fields")
        else:
            ctx.violation("<Nucleo<T> as std::ops::Drop>::drop|timeout|1", site(dn, lb),
                          "Drop for Nucleo continues (and frees the item stream) when the worker lock could not be taken")
    # restart replaces the stream by plain assignment of a fresh Arc (old handle dropped, not leaked)
    rs = get_fn(facts, "nucleo", "Nucleo::<T>::restart")
    asg = [(bi, si, s) for bi, si, s in rs.stmts(lambda s: s["k"] == "assign" and s["lhs"]["p"] and s["lhs"]["p"][-1] != "deref" and isinstance(s["lhs"]["p"][-1], dict) and s["lhs"]["p"][-1].get("name") == "items")]
    dr = [bi for bi in sorted(rs.live) if rs.blocks[bi]["term"]["k"] == "drop" and rs.blocks[bi]["term"]["place"]["p"] and isinstance(rs.blocks[bi]["term"]["place"]["p"][-1], dict) and rs.blocks[bi]["term"]["place"]["p"][-1].get("name") == "items"]
    # or: `let old = mem::replace(&mut self.items, new); drop(old)` — the old handle is the call's result and is
    # dropped (explicit drop(..) or scope end), never forgotten
    rep = [(bi, si, s_) for bi, si, s_ in field_assigns(rs, "items", "Nucleo<") if si == "replace"]
    rep_ok = False
    for bi, si, s_ in rep:
        t_ = rs.blocks[bi]["term"]
        d_ = t_["dest"]
        if d_["p"]:
            continue
        # the returned old handle must reach a drop (drop terminator or a call of mem::drop) on every path to return
        sinks = [b2 for b2 in sorted(rs.live) if rs.blocks[b2]["term"]["k"] == "drop"] + \
                [b2 for b2, t2 in rs.calls(lambda t: callee(t).endswith("mem::drop"))]
        holders = {d_["l"]}
        for b2, si2, s2 in rs.stmts(lambda s: s["k"] == "assign" and "use" in s["rv"]):
            p2 = s2["rv"]["use"].get("move") or s2["rv"]["use"].get("copy")
            if p2 is not None and not p2["p"] and p2["l"] in holders and not s2["lhs"]["p"]:
                holders.add(s2["lhs"]["l"])
        dropped = []
        for b2 in sinks:
            t2 = rs.blocks[b2]["term"]
            if t2["k"] == "drop" and not t2["place"]["p"] and t2["place"]["l"] in holders:
                dropped.append(b2)
            if t2["k"] == "call":
                a2 = t2["args"][0].get("move") if t2["args"] else None
                if a2 is not None and not a2["p"] and a2["l"] in holders:
                    dropped.append(b2)
        if dropped and t_["target"] is not None and rs.all_paths_to_return_pass(t_["target"], via_nodes=dropped):
            rep_ok = True
    if asg and dr:
        ctx.ok(site(rs, asg[0][0], asg[0][1]), "restart drops the old stream handle and assigns the new one")
    elif rep_ok:
        ctx.ok(site(rs, rep[0][0]), "restart swaps in the new stream with mem::replace and drops the old handle on every path")
    else:
        ctx.violation("Nucleo::<T>::restart|replace|1", site(rs, 0), "restart does not replace self.items by assignment (old handle dropped)")


def rule_lifetime_witness(ctx):
    import witness
    witness.rule(ctx, ("C11",), "an Item could outlive the handle that keeps its stream alive (use after free once the stream is dropped)")


def rule_lying_iter(ctx):
    """A slot is written at most once: `extend` writes only indices it reserved, however long the iterator turns out
    to be (an item written to an unreserved index is overwritten by the next writer without being dropped).  Shared
    with C08.lying-iter."""
    from props.c08 import rule_lying_iter as r
    r(ctx)


def rule_init_before_publish(ctx):
    """An item moved into its slot is dropped at teardown only if its entry was activated: the activation follows the
    write of the same entry directly, so that an unwind later in `extend` (a panicking callback / iterator) cannot
    leave written-but-inactive entries behind (shared with C08.init-before-publish)."""
    from props.c08 import rule_init_before_publish as r
    r(ctx)


def rules(ctx):
    ctx.run_rule("C11.lying-iter", rule_lying_iter)
    ctx.run_rule("C11.drop-visits-all", rule_drop_visits_all)
    ctx.run_rule("C11.dealloc-callers", rule_dealloc_callers)
    ctx.run_rule("C11.drop-gated", rule_drop_gated)
    ctx.run_rule("C11.panic-order", rule_panic_order)
    ctx.run_rule("C11.keep-alive", rule_keep_alive)
    ctx.run_rule("C11.lifetime-witness", rule_lifetime_witness)
    ctx.run_rule("C11.init-before-publish", rule_init_before_publish)

//! nfacts — rustc_private fact extractor for the /verif static checks.
//!
//! Invoked as RUSTC_WORKSPACE_WRAPPER (argv[1] is the real rustc path and is dropped).
//! For the crates named in NFACTS_CRATES (comma separated, default "nucleo,nucleo_matcher")
//! it writes one JSON fact file `$NFACTS_OUT/<crate>.json` after analysis, containing the
//! MIR (opt-level 0) of every local body with resolved callees, evaluated constants,
//! ADT/impl inventories and HIR unsafe-block spans. It never executes code of the crate.
#![feature(rustc_private)]
#![allow(clippy::too_many_arguments)]

extern crate rustc_abi;
extern crate rustc_driver;
extern crate rustc_hir;
extern crate rustc_interface;
extern crate rustc_middle;
extern crate rustc_session;
extern crate rustc_span;

mod json;
use json::J;

use rustc_driver::Compilation;
use rustc_hir::def::DefKind;
use rustc_hir::def_id::{DefId, LocalDefId};
use rustc_hir::intravisit::{self, Visitor};
use rustc_middle::mir::interpret::{AllocId, ConstAllocation, GlobalAlloc, Scalar};
use rustc_middle::mir::{
    self, AggregateKind, BasicBlock, Body, ConstValue, Operand, Place, PlaceElem, Rvalue,
    StatementKind, TerminatorKind, UnwindAction,
};
use rustc_middle::ty::{self, Instance, Ty, TyCtxt, TypingEnv};
use rustc_span::Span;

struct Cb;

impl rustc_driver::Callbacks for Cb {
    fn after_analysis<'tcx>(
        &mut self,
        _compiler: &rustc_interface::interface::Compiler,
        tcx: TyCtxt<'tcx>,
    ) -> Compilation {
        let krate = tcx.crate_name(rustc_hir::def_id::LOCAL_CRATE).to_string();
        let wanted = std::env::var("NFACTS_CRATES")
            .unwrap_or_else(|_| "nucleo,nucleo_matcher".to_string());
        if !wanted.split(',').any(|w| w == krate) {
            return Compilation::Continue;
        }
        let out_dir = std::env::var("NFACTS_OUT").expect("NFACTS_OUT not set");
        let facts = Dumper { tcx }.dump_crate(&krate);
        let mut s = String::with_capacity(1 << 22);
        facts.write(&mut s);
        s.push('\n');
        let path = format!("{}/{}.json", out_dir, krate);
        let tmp = format!("{}.tmp.{}", path, std::process::id());
        std::fs::write(&tmp, s).expect("write facts");
        std::fs::rename(&tmp, &path).expect("rename facts");
        Compilation::Continue
    }
}

fn main() {
    let mut args: Vec<String> = std::env::args().collect();
    // RUSTC_WORKSPACE_WRAPPER: argv = [wrapper, rustc, args...]
    if args.len() > 1 && (args[1].ends_with("rustc") || args[1].contains("/rustc")) {
        args.remove(1);
    }
    rustc_driver::run_compiler(&args, &mut Cb);
}

struct Dumper<'tcx> {
    tcx: TyCtxt<'tcx>,
}

impl<'tcx> Dumper<'tcx> {
    fn loc(&self, span: Span) -> J {
        let sm = self.tcx.sess.source_map();
        let sp = span.source_callsite();
        let lo = sm.lookup_char_pos(sp.lo());
        let hi = sm.lookup_char_pos(sp.hi());
        let file = format!("{}", lo.file.name.prefer_local_unconditionally());
        J::obj()
            .set("file", J::s(file))
            .set("line", J::Int(lo.line as i128))
            .set("col", J::Int(lo.col.0 as i128 + 1))
            .set("eline", J::Int(hi.line as i128))
            .set("ecol", J::Int(hi.col.0 as i128 + 1))
            .set("exp", J::Bool(span.from_expansion()))
    }

    fn path(&self, d: DefId) -> String {
        self.tcx.def_path_str(d)
    }

    fn dump_crate(&self, krate: &str) -> J {
        let tcx = self.tcx;
        let mut bodies = Vec::new();
        let mut consts = Vec::new();
        for ldid in tcx.hir_body_owners() {
            let did = ldid.to_def_id();
            match tcx.def_kind(did) {
                DefKind::Fn | DefKind::AssocFn | DefKind::Closure => {
                    if tcx.is_mir_available(did) {
                        bodies.push(self.dump_body(ldid));
                    }
                }
                DefKind::Const { .. } | DefKind::AssocConst { .. } => {
                    consts.push(self.dump_const_item(ldid));
                }
                DefKind::Static { .. } => {
                    consts.push(self.dump_static_item(ldid));
                }
                _ => {}
            }
        }
        let (adts, impls, traits) = self.dump_items();
        let unsafe_blocks = self.dump_unsafe_blocks();
        J::obj()
            .set("crate", J::s(krate))
            .set("rustc", J::s(rustc_version()))
            .set("bodies", J::Arr(bodies))
            .set("consts", J::Arr(consts))
            .set("adts", J::Arr(adts))
            .set("impls", J::Arr(impls))
            .set("traits", J::Arr(traits))
            .set("unsafe_blocks", J::Arr(unsafe_blocks))
    }

    // ---------------------------------------------------------------- items

    fn dump_items(&self) -> (Vec<J>, Vec<J>, Vec<J>) {
        let tcx = self.tcx;
        let mut adts = Vec::new();
        let mut impls = Vec::new();
        let mut traits = Vec::new();
        let items = tcx.hir_crate_items(());
        for id in items.free_items() {
            let did = id.owner_id.to_def_id();
            match tcx.def_kind(did) {
                DefKind::Struct | DefKind::Enum | DefKind::Union => {
                    let adt = tcx.adt_def(did);
                    let mut variants = Vec::new();
                    for (vidx, v) in adt.variants().iter_enumerated() {
                        let mut fields = Vec::new();
                        for f in v.fields.iter() {
                            let fty = tcx.type_of(f.did).instantiate_identity().skip_norm_wip();
                            fields.push(
                                J::obj()
                                    .set("name", J::s(f.name.to_string()))
                                    .set("ty", J::s(fty.to_string()))
                                    .set("vis", J::s(format!("{:?}", f.vis))),
                            );
                        }
                        let discr = if adt.is_enum() {
                            J::Int(adt.discriminant_for_variant(tcx, vidx).val as i128)
                        } else {
                            J::Null
                        };
                        variants.push(
                            J::obj()
                                .set("name", J::s(v.name.to_string()))
                                .set("discr", discr)
                                .set("fields", J::Arr(fields)),
                        );
                    }
                    adts.push(
                        J::obj()
                            .set("path", J::s(self.path(did)))
                            .set("kind", J::s(format!("{:?}", tcx.def_kind(did))))
                            .set("repr", J::s(format!("{:?}", adt.repr())))
                            .set("loc", self.loc(tcx.def_span(did)))
                            .set("variants", J::Arr(variants)),
                    );
                }
                DefKind::Impl { of_trait } => {
                    let self_ty = tcx.type_of(did).instantiate_identity().skip_norm_wip();
                    let mut o = J::obj()
                        .set("self_ty", J::s(self_ty.to_string()))
                        .set("loc", self.loc(tcx.def_span(did)))
                        .set("derived", J::Bool(tcx.is_automatically_derived(did)));
                    if of_trait {
                        let hdr = tcx.impl_trait_header(did);
                        let tr = hdr.trait_ref.instantiate_identity().skip_norm_wip();
                        o.put("trait", J::s(self.path(tr.def_id)));
                        o.put("trait_ref", J::s(tr.to_string()));
                        o.put("unsafe", J::Bool(hdr.safety.is_unsafe()));
                        o.put("polarity", J::s(format!("{:?}", hdr.polarity)));
                    } else {
                        o.put("trait", J::Null);
                    }
                    let mut methods = Vec::new();
                    for &it in tcx.associated_item_def_ids(did) {
                        methods.push(J::s(self.path(it)));
                    }
                    o.put("items", J::Arr(methods));
                    let preds = tcx.predicates_of(did).instantiate_identity(tcx);
                    let ps: Vec<J> = preds
                        .predicates
                        .iter()
                        .map(|p| J::s(format!("{:?}", p)))
                        .collect();
                    o.put("where", J::Arr(ps));
                    impls.push(o);
                }
                DefKind::Trait => {
                    traits.push(J::obj().set("path", J::s(self.path(did))));
                }
                _ => {}
            }
        }
        (adts, impls, traits)
    }

    fn dump_unsafe_blocks(&self) -> Vec<J> {
        let tcx = self.tcx;
        let mut out = Vec::new();
        for ldid in tcx.hir_body_owners() {
            let Some(body) = tcx.hir_maybe_body_owned_by(ldid) else { continue };
            let mut v = UnsafeVisitor { d: self, owner: ldid, out: &mut out };
            v.visit_body(body);
        }
        out
    }

    // ---------------------------------------------------------------- constants

    fn dump_const_item(&self, ldid: LocalDefId) -> J {
        let tcx = self.tcx;
        let did = ldid.to_def_id();
        let mut o = J::obj()
            .set("path", J::s(self.path(did)))
            .set("kind", J::s("const"))
            .set("loc", self.loc(tcx.def_span(did)));
        let generics = tcx.generics_of(did);
        if generics.count() != 0 || generics.parent_count != 0 && has_params(tcx, did) {
            o.put("value", J::Null);
            o.put("note", J::s("generic"));
            return o;
        }
        let ty = tcx.type_of(did).instantiate_identity().skip_norm_wip();
        o.put("ty", J::s(ty.to_string()));
        match tcx.const_eval_poly(did) {
            Ok(cv) => {
                let v = self.read_const_value(cv, ty);
                o.put("value", v);
            }
            Err(_) => {
                o.put("value", J::Null);
                o.put("note", J::s("eval failed"));
            }
        }
        o
    }

    fn dump_static_item(&self, ldid: LocalDefId) -> J {
        let tcx = self.tcx;
        let did = ldid.to_def_id();
        let ty = tcx.type_of(did).instantiate_identity().skip_norm_wip();
        let mut o = J::obj()
            .set("path", J::s(self.path(did)))
            .set("kind", J::s("static"))
            .set("ty", J::s(ty.to_string()))
            .set("loc", self.loc(tcx.def_span(did)));
        match tcx.eval_static_initializer(did) {
            Ok(alloc) => o.put("value", self.read_alloc(alloc, 0, ty, 0)),
            Err(_) => {
                o.put("value", J::Null);
                o.put("note", J::s("eval failed"));
            }
        }
        o
    }

    fn read_const_value(&self, cv: ConstValue, ty: Ty<'tcx>) -> J {
        let tcx = self.tcx;
        match cv {
            ConstValue::Scalar(Scalar::Int(i)) => self.scalar_to_json(i.to_bits_unchecked(), ty),
            ConstValue::Scalar(Scalar::Ptr(ptr, _)) => {
                // &T: follow the pointer
                let (prov, off) = ptr.into_raw_parts();
                let alloc_id = prov.alloc_id();
                match ty.kind() {
                    ty::Ref(_, inner, _) | ty::RawPtr(inner, _) => {
                        self.read_global(alloc_id, off.bytes(), *inner, 0)
                    }
                    _ => J::s("<ptr>"),
                }
            }
            ConstValue::ZeroSized => J::s("<zst>"),
            ConstValue::Slice { alloc_id, meta } => {
                // &[T] or &str
                match ty.kind() {
                    ty::Ref(_, inner, _) => match inner.kind() {
                        ty::Slice(elem) => {
                            let arr = Ty::new_array(tcx, *elem, meta);
                            self.read_global(alloc_id, 0, arr, 0)
                        }
                        ty::Str => {
                            let arr = Ty::new_array(tcx, tcx.types.u8, meta);
                            self.read_global(alloc_id, 0, arr, 0)
                        }
                        _ => J::s("<slice?>"),
                    },
                    _ => J::s("<slice?>"),
                }
            }
            ConstValue::Indirect { alloc_id, offset } => {
                self.read_global(alloc_id, offset.bytes(), ty, 0)
            }
        }
    }

    fn read_global(&self, id: AllocId, off: u64, ty: Ty<'tcx>, depth: u32) -> J {
        match self.tcx.global_alloc(id) {
            GlobalAlloc::Memory(a) => self.read_alloc(a, off, ty, depth),
            GlobalAlloc::Static(did) => match self.tcx.eval_static_initializer(did) {
                Ok(a) => self.read_alloc(a, off, ty, depth),
                Err(_) => J::s("<static eval failed>"),
            },
            _ => J::s("<non-memory alloc>"),
        }
    }

    fn scalar_to_json(&self, bits: u128, ty: Ty<'tcx>) -> J {
        match ty.kind() {
            ty::Bool => J::Bool(bits != 0),
            ty::Int(_) => {
                let size = self.size_of(ty).unwrap_or(16);
                let shift = 128 - size * 8;
                J::Int(((bits << shift) as i128) >> shift)
            }
            ty::Adt(adt, _) if adt.is_enum() => {
                for (vidx, v) in adt.variants().iter_enumerated() {
                    if adt.discriminant_for_variant(self.tcx, vidx).val == bits {
                        return J::obj()
                            .set("variant", J::s(v.name.to_string()))
                            .set("discr", J::Int(bits as i128));
                    }
                }
                J::Int(bits as i128)
            }
            _ => J::Int(bits as i128),
        }
    }

    fn size_of(&self, ty: Ty<'tcx>) -> Option<u64> {
        let env = TypingEnv::fully_monomorphized();
        self.tcx.layout_of(env.as_query_input(ty)).ok().map(|l| l.size.bytes())
    }

    fn read_bytes(&self, alloc: ConstAllocation<'tcx>, off: u64, len: u64) -> Option<u128> {
        let a = alloc.inner();
        let end = off.checked_add(len)?;
        if end as usize > a.len() || len > 16 {
            return None;
        }
        let bytes = a.inspect_with_uninit_and_ptr_outside_interpreter(off as usize..end as usize);
        let mut v: u128 = 0;
        for (i, b) in bytes.iter().enumerate() {
            v |= (*b as u128) << (8 * i);
        }
        Some(v)
    }

    fn read_alloc(&self, alloc: ConstAllocation<'tcx>, off: u64, ty: Ty<'tcx>, depth: u32) -> J {
        let tcx = self.tcx;
        if depth > 6 {
            return J::s("<too deep>");
        }
        let env = TypingEnv::fully_monomorphized();
        let Ok(layout) = tcx.layout_of(env.as_query_input(ty)) else {
            return J::s("<no layout>");
        };
        match ty.kind() {
            ty::Bool | ty::Char | ty::Int(_) | ty::Uint(_) => {
                match self.read_bytes(alloc, off, layout.size.bytes()) {
                    Some(b) => self.scalar_to_json(b, ty),
                    None => J::s("<oob>"),
                }
            }
            ty::Array(elem, n) => {
                let Some(n) = n.try_to_target_usize(tcx) else { return J::s("<array len?>") };
                let Some(esz) = self.size_of(*elem) else { return J::s("<elem layout?>") };
                let mut v = Vec::with_capacity(n as usize);
                for i in 0..n {
                    v.push(self.read_alloc(alloc, off + i * esz, *elem, depth + 1));
                }
                J::Arr(v)
            }
            ty::Tuple(tys) => {
                let mut v = Vec::new();
                for (i, t) in tys.iter().enumerate() {
                    let fo = layout.fields.offset(i).bytes();
                    v.push(self.read_alloc(alloc, off + fo, t, depth + 1));
                }
                J::Arr(v)
            }
            ty::Ref(_, inner, _) | ty::RawPtr(inner, _) => {
                // find the pointer provenance at `off`
                let a = alloc.inner();
                let ptr_size = tcx.data_layout.pointer_size();
                let prov = a
                    .provenance()
                    .ptrs()
                    .iter()
                    .find(|(o, _)| o.bytes() == off)
                    .map(|(_, p)| *p);
                let Some(prov) = prov else { return J::s("<no provenance>") };
                let Some(addr) = self.read_bytes(alloc, off, ptr_size.bytes()) else {
                    return J::s("<oob>");
                };
                match inner.kind() {
                    ty::Slice(elem) => {
                        let Some(len) =
                            self.read_bytes(alloc, off + ptr_size.bytes(), ptr_size.bytes())
                        else {
                            return J::s("<oob>");
                        };
                        let arr = Ty::new_array(tcx, *elem, len as u64);
                        self.read_global(prov.alloc_id(), addr as u64, arr, depth + 1)
                    }
                    ty::Str => {
                        let Some(len) =
                            self.read_bytes(alloc, off + ptr_size.bytes(), ptr_size.bytes())
                        else {
                            return J::s("<oob>");
                        };
                        let arr = Ty::new_array(tcx, tcx.types.u8, len as u64);
                        self.read_global(prov.alloc_id(), addr as u64, arr, depth + 1)
                    }
                    _ => self.read_global(prov.alloc_id(), addr as u64, *inner, depth + 1),
                }
            }
            ty::Adt(adt, args) if adt.is_struct() => {
                let mut o = J::obj();
                for (i, f) in adt.non_enum_variant().fields.iter().enumerate() {
                    let fty = f.ty(tcx, args);
                    let fo = layout.fields.offset(i).bytes();
                    o.put(&f.name.to_string(), self.read_alloc(alloc, off + fo, fty, depth + 1));
                }
                o
            }
            ty::Adt(adt, _) if adt.is_enum() => {
                use rustc_abi::{TagEncoding, Variants};
                match &layout.variants {
                    Variants::Multiple { tag, tag_encoding: TagEncoding::Direct, tag_field, .. } => {
                        let fo = layout.fields.offset(tag_field.as_usize()).bytes();
                        let sz = tag.size(&tcx.data_layout).bytes();
                        match self.read_bytes(alloc, off + fo, sz) {
                            Some(b) => self.scalar_to_json(b, ty),
                            None => J::s("<oob>"),
                        }
                    }
                    Variants::Single { index } => J::obj()
                        .set("variant", J::s(adt.variant(*index).name.to_string()))
                        .set("discr", J::Int(adt.discriminant_for_variant(tcx, *index).val as i128)),
                    _ => J::s("<enum encoding unsupported>"),
                }
            }
            _ => J::s(format!("<unsupported {}>", ty)),
        }
    }

    // ---------------------------------------------------------------- bodies

    fn dump_body(&self, ldid: LocalDefId) -> J {
        let tcx = self.tcx;
        let did = ldid.to_def_id();
        let body: &Body<'tcx> = tcx.optimized_mir(did);
        let env = TypingEnv::post_analysis(tcx, did);
        let kind = tcx.def_kind(did);
        let mut o = J::obj()
            .set("path", J::s(self.path(did)))
            .set("kind", J::s(format!("{:?}", kind)))
            .set("loc", self.loc(tcx.def_span(did)))
            .set("span", self.loc(body.span))
            .set("arg_count", J::Int(body.arg_count as i128));
        // parent (closures: the enclosing body)
        let root = tcx.typeck_root_def_id(did);
        if root != did {
            o.put("root", J::s(self.path(root)));
            o.put("parent", J::s(self.path(tcx.parent(did))));
        }
        // impl / trait context
        if let Some(p) = tcx.opt_parent(did) {
            if let DefKind::Impl { of_trait } = tcx.def_kind(p) {
                let self_ty = tcx.type_of(p).instantiate_identity().skip_norm_wip();
                o.put("impl_self", J::s(self_ty.to_string()));
                if of_trait {
                    let tr = tcx.impl_trait_header(p).trait_ref.instantiate_identity().skip_norm_wip();
                    o.put("impl_trait", J::s(self.path(tr.def_id)));
                }
            }
        }
        if matches!(kind, DefKind::Fn | DefKind::AssocFn) {
            let sig = tcx.fn_sig(did).instantiate_identity().skip_norm_wip().skip_binder();
            o.put("unsafe", J::Bool(sig.safety().is_unsafe()));
            o.put("vis", J::s(format!("{:?}", tcx.visibility(did))));
            o.put("sig", J::s(format!("{:?}", sig)));
            o.put("name", J::s(tcx.item_name(did).to_string()));
        }
        // generics
        let mut gens = Vec::new();
        let mut g = Some(tcx.generics_of(did));
        while let Some(gg) = g {
            for p in &gg.own_params {
                gens.push(
                    J::obj()
                        .set("name", J::s(p.name.to_string()))
                        .set("kind", J::s(match p.kind {
                            ty::GenericParamDefKind::Lifetime => "lifetime",
                            ty::GenericParamDefKind::Type { .. } => "type",
                            ty::GenericParamDefKind::Const { .. } => "const",
                        })),
                );
            }
            g = gg.parent.map(|p| tcx.generics_of(p));
        }
        o.put("generics", J::Arr(gens));
        // closure captures
        if kind == DefKind::Closure {
            let mut caps = Vec::new();
            for c in tcx.closure_captures(ldid) {
                caps.push(
                    J::obj()
                        .set("name", J::s(c.to_symbol().to_string()))
                        .set("var", J::s(c.var_ident.name.to_string()))
                        .set("by", J::s(format!("{:?}", c.info.capture_kind)))
                        .set("ty", J::s(c.place.ty().to_string())),
                );
            }
            o.put("captures", J::Arr(caps));
        }
        // locals
        let mut locals = Vec::new();
        for (_l, decl) in body.local_decls.iter_enumerated() {
            locals.push(
                J::obj()
                    .set("ty", J::s(decl.ty.to_string()))
                    .set("mut", J::Bool(decl.mutability.is_mut())),
            );
        }
        o.put("locals", J::Arr(locals));
        // debug info: names
        let mut dbg = Vec::new();
        for vdi in &body.var_debug_info {
            let mut e = J::obj().set("name", J::s(vdi.name.to_string()));
            match &vdi.value {
                mir::VarDebugInfoContents::Place(p) => e.put("place", self.place(body, *p)),
                mir::VarDebugInfoContents::Const(c) => e.put("const", self.constant(c, env)),
            }
            if let Some(a) = vdi.argument_index {
                e.put("arg", J::Int(a as i128));
            }
            e.put("line", J::Int(self.line(vdi.source_info.span)));
            dbg.push(e);
        }
        o.put("debug", J::Arr(dbg));
        // blocks
        let blocks = self.dump_blocks(body, env);
        // promoted constants of this body (small bodies: `_1 = <value>; _0 = &_1`)
        let mut proms = Vec::new();
        for pb in tcx.promoted_mir(did).iter() {
            let mut plocals = Vec::new();
            for (_l, decl) in pb.local_decls.iter_enumerated() {
                plocals.push(J::obj().set("ty", J::s(decl.ty.to_string())));
            }
            proms.push(
                J::obj()
                    .set("locals", J::Arr(plocals))
                    .set("blocks", J::Arr(self.dump_blocks(pb, env))),
            );
        }
        o.put("promoted", J::Arr(proms));
        o.put("blocks", J::Arr(blocks));
        o
    }

    fn dump_blocks(&self, body: &Body<'tcx>, env: TypingEnv<'tcx>) -> Vec<J> {
        let mut blocks = Vec::new();
        for (_bb, data) in body.basic_blocks.iter_enumerated() {
            let mut stmts = Vec::new();
            for st in &data.statements {
                if let Some(j) = self.statement(body, st, env) {
                    stmts.push(j);
                }
            }
            let term = self.terminator(body, data.terminator(), env);
            blocks.push(
                J::obj()
                    .set("cleanup", J::Bool(data.is_cleanup))
                    .set("stmts", J::Arr(stmts))
                    .set("term", term),
            );
        }
        blocks
    }

    fn line(&self, span: Span) -> i128 {
        let sm = self.tcx.sess.source_map();
        sm.lookup_char_pos(span.source_callsite().lo()).line as i128
    }

    fn statement(&self, body: &Body<'tcx>, st: &mir::Statement<'tcx>, env: TypingEnv<'tcx>) -> Option<J> {
        let sp = st.source_info.span;
        let base = |k: &str| {
            J::obj()
                .set("k", J::s(k))
                .set("line", J::Int(self.line(sp)))
                .set("exp", J::Bool(sp.from_expansion()))
        };
        match &st.kind {
            StatementKind::Assign(b) => {
                let (place, rv) = &**b;
                Some(
                    base("assign")
                        .set("lhs", self.place(body, *place))
                        .set("rv", self.rvalue(body, rv, env)),
                )
            }
            StatementKind::SetDiscriminant { place, variant_index } => Some(
                base("setdiscr")
                    .set("lhs", self.place(body, **place))
                    .set("variant", J::Int(variant_index.as_u32() as i128)),
            ),
            StatementKind::Intrinsic(i) => Some(base("intrinsic").set("text", J::s(format!("{:?}", i)))),
            StatementKind::StorageLive(_)
            | StatementKind::StorageDead(_)
            | StatementKind::Nop
            | StatementKind::FakeRead(..)
            | StatementKind::PlaceMention(..)
            | StatementKind::AscribeUserType(..)
            | StatementKind::Coverage(..)
            | StatementKind::ConstEvalCounter
            | StatementKind::BackwardIncompatibleDropHint { .. } => None,
            #[allow(unreachable_patterns)]
            other => Some(base("other").set("text", J::s(format!("{:?}", other)))),
        }
    }

    fn place(&self, body: &Body<'tcx>, p: Place<'tcx>) -> J {
        let tcx = self.tcx;
        let mut projs = Vec::new();
        let mut pty = mir::PlaceTy::from_ty(body.local_decls[p.local].ty);
        for elem in p.projection.iter() {
            let j = match elem {
                PlaceElem::Deref => J::s("deref"),
                PlaceElem::Field(f, fty) => {
                    let name = self.field_name(pty, f.as_usize());
                    J::obj()
                        .set("f", J::Int(f.as_usize() as i128))
                        .set("name", J::s(name))
                        .set("of", J::s(pty.ty.to_string()))
                        .set("ty", J::s(fty.to_string()))
                }
                PlaceElem::Index(l) => J::obj().set("index", J::Int(l.as_usize() as i128)),
                PlaceElem::ConstantIndex { offset, min_length, from_end } => J::obj()
                    .set("cindex", J::Int(offset as i128))
                    .set("min_length", J::Int(min_length as i128))
                    .set("from_end", J::Bool(from_end)),
                PlaceElem::Subslice { from, to, from_end } => J::obj()
                    .set("subslice", J::Arr(vec![J::Int(from as i128), J::Int(to as i128)]))
                    .set("from_end", J::Bool(from_end)),
                PlaceElem::Downcast(name, v) => J::obj()
                    .set("downcast", J::Int(v.as_u32() as i128))
                    .set("variant", J::s(name.map(|s| s.to_string()).unwrap_or_default())),
                PlaceElem::OpaqueCast(_) => J::s("opaquecast"),
                PlaceElem::UnwrapUnsafeBinder(_) => J::s("unwrapbinder"),
            };
            projs.push(j);
            pty = pty.projection_ty(tcx, elem);
        }
        J::obj()
            .set("l", J::Int(p.local.as_usize() as i128))
            .set("p", J::Arr(projs))
    }

    fn field_name(&self, pty: mir::PlaceTy<'tcx>, idx: usize) -> String {
        let tcx = self.tcx;
        match pty.ty.kind() {
            ty::Adt(adt, _) => {
                let v = match pty.variant_index {
                    Some(v) => adt.variant(v),
                    None => {
                        if adt.is_enum() {
                            return format!("{}", idx);
                        }
                        adt.non_enum_variant()
                    }
                };
                v.fields
                    .iter()
                    .nth(idx)
                    .map(|f| f.name.to_string())
                    .unwrap_or_else(|| format!("{}", idx))
            }
            ty::Closure(did, _) => {
                if let Some(l) = did.as_local() {
                    tcx.closure_captures(l)
                        .get(idx)
                        .map(|c| c.to_symbol().to_string())
                        .unwrap_or_else(|| format!("{}", idx))
                } else {
                    format!("{}", idx)
                }
            }
            _ => format!("{}", idx),
        }
    }

    fn operand(&self, body: &Body<'tcx>, op: &Operand<'tcx>, env: TypingEnv<'tcx>) -> J {
        match op {
            Operand::Copy(p) => J::obj().set("copy", self.place(body, *p)),
            Operand::Move(p) => J::obj().set("move", self.place(body, *p)),
            Operand::Constant(c) => J::obj().set("const", self.constant(c, env)),
            #[allow(unreachable_patterns)]
            other => J::obj().set("rt", J::s(format!("{:?}", other))),
        }
    }

    fn constant(&self, c: &mir::ConstOperand<'tcx>, env: TypingEnv<'tcx>) -> J {
        let tcx = self.tcx;
        let ty = c.const_.ty();
        let mut o = J::obj()
            .set("ty", J::s(ty.to_string()))
            .set("text", J::s(format!("{}", c.const_)));
        // function item?
        if let ty::FnDef(did, args) = ty.kind() {
            o.put("fn", J::s(self.path(*did)));
            o.put("fn_args", J::s(format!("{:?}", args)));
            return o;
        }
        // named const?
        match c.const_ {
            mir::Const::Unevaluated(uv, _) => {
                o.put("def", J::s(self.path(uv.def)));
                if let Some(p) = uv.promoted {
                    o.put("promoted", J::Int(p.as_usize() as i128));
                }
            }
            mir::Const::Ty(_, ct) => {
                if let ty::ConstKind::Param(p) = ct.kind() {
                    o.put("param", J::s(p.name.to_string()));
                }
                if let ty::ConstKind::Unevaluated(uv) = ct.kind() {
                    o.put("def", J::s(self.path(uv.def)));
                }
            }
            _ => {}
        }
        // pointer to a static / to anonymous memory?
        if let mir::Const::Val(ConstValue::Scalar(Scalar::Ptr(ptr, _)), _) = c.const_ {
            let (prov, off) = ptr.into_raw_parts();
            match tcx.global_alloc(prov.alloc_id()) {
                GlobalAlloc::Static(did) => {
                    o.put("static", J::s(self.path(did)));
                    o.put("offset", J::Int(off.bytes() as i128));
                }
                GlobalAlloc::Memory(_) => {
                    o.put("memory", J::Bool(true));
                }
                _ => {}
            }
        }
        let is_scalar_ty = matches!(
            ty.kind(),
            ty::Bool | ty::Char | ty::Int(_) | ty::Uint(_)
        ) || matches!(ty.kind(), ty::Adt(a, _) if a.is_enum());
        if is_scalar_ty && !c.const_.has_non_region_param_() {
            if let Some(si) = c.const_.try_eval_scalar_int(tcx, env) {
                o.put("val", self.scalar_to_json(si.to_bits_unchecked(), ty));
            }
        }
        o
    }

    fn rvalue(&self, body: &Body<'tcx>, rv: &Rvalue<'tcx>, env: TypingEnv<'tcx>) -> J {
        let tcx = self.tcx;
        match rv {
            Rvalue::Use(op, ..) => J::obj().set("use", self.operand(body, op, env)),
            Rvalue::Repeat(op, n) => J::obj()
                .set("repeat", self.operand(body, op, env))
                .set("n", J::s(format!("{}", n))),
            Rvalue::Ref(_, bk, p) => J::obj()
                .set("ref", self.place(body, *p))
                .set("mut", J::Bool(matches!(bk, mir::BorrowKind::Mut { .. }))),
            Rvalue::RawPtr(k, p) => J::obj()
                .set("rawptr", self.place(body, *p))
                .set("mut", J::Bool(matches!(k, mir::RawPtrKind::Mut))),
            Rvalue::Cast(kind, op, ty) => J::obj()
                .set("cast", self.operand(body, op, env))
                .set("kind", J::s(format!("{:?}", kind)))
                .set("from", J::s(op.ty(&body.local_decls, tcx).to_string()))
                .set("to", J::s(ty.to_string())),
            Rvalue::BinaryOp(op, b) => J::obj()
                .set("bin", J::s(format!("{:?}", op)))
                .set("a", self.operand(body, &b.0, env))
                .set("b", self.operand(body, &b.1, env))
                .set("ty", J::s(b.0.ty(&body.local_decls, tcx).to_string())),
            Rvalue::UnaryOp(op, a) => J::obj()
                .set("un", J::s(format!("{:?}", op)))
                .set("a", self.operand(body, a, env)),
            Rvalue::Discriminant(p) => J::obj()
                .set("discr", self.place(body, *p))
                .set("of", J::s(p.ty(&body.local_decls, tcx).ty.to_string())),
            Rvalue::Aggregate(kind, ops) => {
                let mut o = J::obj();
                let opsj: Vec<J> = ops.iter().map(|x| self.operand(body, x, env)).collect();
                match &**kind {
                    AggregateKind::Array(t) => {
                        o.put("agg", J::s("array"));
                        o.put("elem", J::s(t.to_string()));
                    }
                    AggregateKind::Tuple => o.put("agg", J::s("tuple")),
                    AggregateKind::Adt(did, vidx, _, _, active) => {
                        o.put("agg", J::s("adt"));
                        o.put("adt", J::s(self.path(*did)));
                        let adt = tcx.adt_def(*did);
                        let v = adt.variant(*vidx);
                        o.put("variant", J::s(v.name.to_string()));
                        o.put("vidx", J::Int(vidx.as_u32() as i128));
                        let names: Vec<J> = if let Some(a) = active {
                            vec![J::s(v.fields[*a].name.to_string())]
                        } else {
                            v.fields.iter().map(|f| J::s(f.name.to_string())).collect()
                        };
                        o.put("fields", J::Arr(names));
                    }
                    AggregateKind::Closure(did, _) => {
                        o.put("agg", J::s("closure"));
                        o.put("closure", J::s(self.path(*did)));
                        if let Some(l) = did.as_local() {
                            let names: Vec<J> = tcx
                                .closure_captures(l)
                                .iter()
                                .map(|c| J::s(c.to_symbol().to_string()))
                                .collect();
                            o.put("fields", J::Arr(names));
                        }
                    }
                    AggregateKind::RawPtr(t, _) => {
                        o.put("agg", J::s("rawptr"));
                        o.put("elem", J::s(t.to_string()));
                    }
                    other => {
                        o.put("agg", J::s("other"));
                        o.put("text", J::s(format!("{:?}", other)));
                    }
                }
                o.put("ops", J::Arr(opsj));
                o
            }
            Rvalue::CopyForDeref(p) => J::obj().set("use", J::obj().set("copy", self.place(body, *p))),
            Rvalue::ThreadLocalRef(d) => J::obj().set("tls", J::s(self.path(*d))),
            #[allow(unreachable_patterns)]
            other => J::obj().set("other", J::s(format!("{:?}", other))),
        }
    }

    fn unwind(&self, u: &UnwindAction) -> J {
        match u {
            UnwindAction::Cleanup(bb) => J::Int(bb.as_usize() as i128),
            UnwindAction::Continue => J::s("continue"),
            UnwindAction::Unreachable => J::s("unreachable"),
            UnwindAction::Terminate(_) => J::s("terminate"),
        }
    }

    fn bb(&self, b: BasicBlock) -> J {
        J::Int(b.as_usize() as i128)
    }

    fn terminator(&self, body: &Body<'tcx>, t: &mir::Terminator<'tcx>, env: TypingEnv<'tcx>) -> J {
        let tcx = self.tcx;
        let sp = t.source_info.span;
        let base = |k: &str| {
            J::obj()
                .set("k", J::s(k))
                .set("line", J::Int(self.line(sp)))
                .set("col", J::Int({
                    let sm = tcx.sess.source_map();
                    sm.lookup_char_pos(sp.source_callsite().lo()).col.0 as i128 + 1
                }))
                .set("exp", J::Bool(sp.from_expansion()))
        };
        match &t.kind {
            TerminatorKind::Goto { target } => base("goto").set("target", self.bb(*target)),
            TerminatorKind::SwitchInt { discr, targets } => {
                let mut arms = Vec::new();
                for (v, bb) in targets.iter() {
                    arms.push(J::Arr(vec![J::Int(v as i128), self.bb(bb)]));
                }
                base("switch")
                    .set("discr", self.operand(body, discr, env))
                    .set("ty", J::s(discr.ty(&body.local_decls, tcx).to_string()))
                    .set("arms", J::Arr(arms))
                    .set("otherwise", self.bb(targets.otherwise()))
            }
            TerminatorKind::Return => base("return"),
            TerminatorKind::Unreachable => base("unreachable"),
            TerminatorKind::UnwindResume => base("resume"),
            TerminatorKind::UnwindTerminate(_) => base("terminate"),
            TerminatorKind::Drop { place, target, unwind, .. } => base("drop")
                .set("place", self.place(body, *place))
                .set("ty", J::s(place.ty(&body.local_decls, tcx).ty.to_string()))
                .set("target", self.bb(*target))
                .set("unwind", self.unwind(unwind)),
            TerminatorKind::Call { func, args, destination, target, unwind, fn_span, .. } => {
                let mut o = base("call");
                let fty = func.ty(&body.local_decls, tcx);
                match fty.kind() {
                    ty::FnDef(did, gargs) => {
                        o.put("fn", J::s(self.path(*did)));
                        o.put("fn_args", J::s(format!("{:?}", gargs)));
                        o.put("fn_local", J::Bool(did.is_local()));
                        // trait item?
                        if let Some(tr) = tcx.trait_of_assoc(*did) {
                            o.put("trait", J::s(self.path(tr)));
                            o.put("item", J::s(tcx.item_name(*did).to_string()));
                            if gargs.len() > 0 {
                                if let Some(t0) = gargs.get(0).and_then(|a| a.as_type()) {
                                    o.put("self_ty", J::s(t0.to_string()));
                                }
                            }
                        } else if let Some(p) = tcx.opt_parent(*did) {
                            if matches!(tcx.def_kind(p), DefKind::Impl { .. }) {
                                let st = tcx.type_of(p).instantiate_identity().skip_norm_wip();
                                o.put("impl_self", J::s(st.to_string()));
                                o.put("item", J::s(tcx.item_name(*did).to_string()));
                            }
                        }
                        // resolution
                        let resolved = if matches!(
                            tcx.def_kind(*did),
                            DefKind::Fn | DefKind::AssocFn
                        ) {
                            Instance::try_resolve(tcx, env, *did, gargs).ok().flatten()
                        } else {
                            None
                        };
                        match resolved {
                            Some(inst) => {
                                let rd = inst.def_id();
                                o.put("resolved", J::s(self.path(rd)));
                                o.put("resolved_local", J::Bool(rd.is_local()));
                                o.put("resolved_kind", J::s(format!("{:?}", inst.def).split('(').next().unwrap_or("").to_string()));
                            }
                            None => o.put("resolved", J::Null),
                        }
                    }
                    _ => {
                        o.put("fn", J::Null);
                        o.put("fn_operand", self.operand(body, func, env));
                        o.put("fn_ty", J::s(fty.to_string()));
                    }
                }
                let argsj: Vec<J> = args.iter().map(|a| self.operand(body, &a.node, env)).collect();
                o.put("args", J::Arr(argsj));
                let arg_tys: Vec<J> = args
                    .iter()
                    .map(|a| J::s(a.node.ty(&body.local_decls, tcx).to_string()))
                    .collect();
                o.put("arg_tys", J::Arr(arg_tys));
                o.put("dest", self.place(body, *destination));
                o.put("target", target.map(|t| self.bb(t)).unwrap_or(J::Null));
                o.put("unwind", self.unwind(unwind));
                o.put("fn_line", J::Int(self.line(*fn_span)));
                o
            }
            TerminatorKind::Assert { cond, expected, msg, target, unwind } => {
                let mut o = base("assert")
                    .set("cond", self.operand(body, cond, env))
                    .set("expected", J::Bool(*expected))
                    .set("target", self.bb(*target))
                    .set("unwind", self.unwind(unwind));
                match &**msg {
                    mir::AssertKind::Overflow(op, a, b) => {
                        o.put("kind", J::s("Overflow"));
                        o.put("op", J::s(format!("{:?}", op)));
                        o.put("a", self.operand(body, a, env));
                        o.put("b", self.operand(body, b, env));
                        o.put("ty", J::s(a.ty(&body.local_decls, tcx).to_string()));
                    }
                    mir::AssertKind::BoundsCheck { len, index } => {
                        o.put("kind", J::s("BoundsCheck"));
                        o.put("len", self.operand(body, len, env));
                        o.put("index", self.operand(body, index, env));
                    }
                    other => {
                        let s = format!("{:?}", other);
                        o.put("kind", J::s(s.split(|c: char| !c.is_alphanumeric()).next().unwrap_or("").to_string()));
                    }
                }
                o
            }
            TerminatorKind::FalseEdge { real_target, .. } => base("goto").set("target", self.bb(*real_target)),
            TerminatorKind::FalseUnwind { real_target, .. } => base("goto").set("target", self.bb(*real_target)),
            other => base("other").set("text", J::s(format!("{:?}", other))),
        }
    }
}

fn has_params<'tcx>(tcx: TyCtxt<'tcx>, did: DefId) -> bool {
    let g = tcx.generics_of(did);
    g.count() > 0
}

fn rustc_version() -> String {
    option_env!("CFG_VERSION").unwrap_or("nightly").to_string()
}

trait HasParam {
    fn has_non_region_param_(&self) -> bool;
}
impl<'tcx> HasParam for mir::Const<'tcx> {
    fn has_non_region_param_(&self) -> bool {
        use rustc_middle::ty::TypeVisitableExt;
        self.has_non_region_param()
    }
}

struct UnsafeVisitor<'a, 'tcx> {
    d: &'a Dumper<'tcx>,
    owner: LocalDefId,
    out: &'a mut Vec<J>,
}

impl<'a, 'tcx> Visitor<'tcx> for UnsafeVisitor<'a, 'tcx> {
    fn visit_block(&mut self, b: &'tcx rustc_hir::Block<'tcx>) {
        if let rustc_hir::BlockCheckMode::UnsafeBlock(src) = b.rules {
            if matches!(src, rustc_hir::UnsafeSource::UserProvided) && !b.span.from_expansion() {
                self.out.push(
                    J::obj()
                        .set("owner", J::s(self.d.path(self.owner.to_def_id())))
                        .set("loc", self.d.loc(b.span)),
                );
            }
        }
        intravisit::walk_block(self, b);
    }
}

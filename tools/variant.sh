#!/bin/bash
# variant.sh <name> <diff> : scratch copy of /repo with the diff applied at /root/scratch/v_<name> (for rule development)
set -e
d=/root/scratch/v_$1
rm -rf "$d"; mkdir -p "$d"
rsync -a --exclude target --exclude .git /repo/ "$d/"
patch -p1 -s -d "$d" -i "$(realpath "$2")"
echo "$d"

"""C14 — pattern text is parsed by one grammar (marker grammar, word splitting and unescaping decided as finite tables)."""
from cfg import Inconclusive, op_place, show, walk, strip_casts
from common import (calls_to, callee, closure_creations, closure_consumer, field_chain, fn_of, get_fn, peel, site,
                    guards_of, ret_aggregates, field_assigns)

from common import iter_pipeline, closure_tree, resolve_capture

PROP = "C14"
LEVEL = "other"
UNDECIDED = [
    "smart-case / smart-normalization decisions for all strings beyond the flag sources checked by C14.case-source (Smart ⇒ derived from is_upper_case / normalize(c) == c of the stored characters)",
    "grapheme segmentation of the needle (library behaviour, see C17)",
]
ASSUMPTIONS = [
    "Atom::parse only inspects its input at bounded offsets from both ends (the bound is computed from the extracted conditions and the witness domain sized accordingly; fail closed if it exceeds 8 bytes)",
    "case folding / normalization map neither a space nor a backslash to something else (they are ASCII non-letters: C16.ascii), so the escape transducer's character classes are preserved by the per-character transformations",
    "std string helpers (strip_prefix, starts_with, strip_suffix, sub-slicing, replace, split) behave as documented (small models in rules/absint.py)",
]
M = "nucleo_matcher"
PARSE = "pattern::Atom::parse"


def atoms_pipeline(facts, pf):
    """The iterator chain that turns the pattern text into atoms in `pf` (consumed by collect / extend):
    (sink_bb, stages) or None."""
    for bi, t in pf.calls(lambda t: callee(t).endswith("Iterator::collect") or str(t.get("fn")).endswith("Iterator::collect")
                          or callee(t).endswith("::extend") or str(t.get("fn")).endswith("Extend::extend")):
        for ai in range(len(t["args"])):
            try:
                st = iter_pipeline(pf, t, ai)
            except Exception:
                continue
            if st and st[0][0] == "unknown:pattern_atoms":
                return bi, st
    return None


def rule_parse_twins(ctx):
    facts = ctx.facts
    info = {}
    for parent in ("pattern::Pattern::parse", "pattern::Pattern::reparse"):
        pf = get_fn(facts, M, parent)
        key = "%s|pipeline" % parent
        # delegation: parse = reparse on a fresh, empty Pattern with the same arguments
        if parent.endswith("::parse"):
            dl = [(bi, t) for bi, t in pf.calls(lambda t: callee(t) == "pattern::Pattern::reparse")]
            if dl:
                bi, t = dl[0]
                a = [peel(pf.expr_of_operand(x)) for x in t["args"][1:]]
                inorder = [x[0] == "arg" and x[1] == i + 1 for i, x in enumerate(a)]
                if all(inorder) and len(a) == 3:
                    ctx.ok(site(pf, bi), "parse delegates to reparse with (text, case, normalization) in order: the two cannot disagree")
                else:
                    ctx.violation(key, site(pf, bi), "parse delegates to reparse with permuted or foreign arguments")
                continue
        pl = atoms_pipeline(facts, pf)
        if pl is None:
            raise Inconclusive("%s: no `pattern_atoms(text)…collect/extend` pipeline found" % parent)
        sink, stages = pl
        src_ok = peel(stages[0][2][2][0])[0] == "arg"
        trunc = [st[0] for st in stages[1:] if st[0].startswith(("truncating:", "unknown:")) or st[0].startswith("zip")]
        ctor = None
        filt = False
        for st in stages[1:]:
            if not st[1]:
                continue
            cf = get_fn(facts, M, st[1])
            pc = [(bi, t) for bi, t in cf.calls(lambda t: callee(t) == PARSE)]
            if pc:
                ctor = (cf, pc)
            for b_, t_ in cf.calls(lambda t: callee(t).endswith("Utf32String::is_empty")):
                recv = cf.expr_of_operand(t_["args"][0])
                if any(x[0] == "field" and x[2] == "needle" for x in walk(recv)):
                    if st[0] == "subset:filter":
                        from cfg import decision_paths
                        ps = decision_paths(cf)
                        filt = len(ps) == 1 and ps[0][1] is not None and ps[0][1][0] == "un" and ps[0][1][1] == "Not"
                    else:
                        filt = True
        if ctor is None or len(ctor[1]) != 1:
            ctx.violation(key + "|parse-call", site(pf, sink), "%s's per-word closure does not call Atom::parse exactly once" % parent)
            continue
        cf, pc = ctor
        bi, t = pc[0]
        a = [cf.expr_of_operand(x) for x in t["args"]]

        def cap_param(e):
            """captured variable of the closure -> index of the parent's parameter it holds"""
            base, names = field_chain(e)
            if names and peel(base)[0] == "arg" and peel(base)[1] == 1:
                rc = resolve_capture(cf, names[0])
                if rc is not None:
                    x = peel(rc[1])
                    while x[0] in ("ref", "deref"):
                        x = peel(x[1])
                    return x[1] if x[0] == "arg" else None
            return None
        okargs = peel(a[0])[0] == "arg" and peel(a[0])[1] == 2 and cap_param(a[1]) is not None and cap_param(a[2]) is not None \
            and cap_param(a[1]) < cap_param(a[2])
        cap_ok = okargs
        info[parent] = (okargs, cap_ok, filt, src_ok)
        if okargs and cap_ok and filt and src_ok and not trunc:
            ctx.ok(site(cf, bi), "%s: pattern_atoms(text) → Atom::parse(word, case, normalization) → drop empty needles (%s)" % (parent.rsplit("::", 1)[1], " → ".join(st[0] for st in stages)))
        else:
            ctx.violation(key, site(cf, bi), "%s pipeline deviates (args in order %s, captures are the caller's parameters %s, empty-needle filter %s, source is pattern_atoms(text) %s, truncating stages %s): reparse and parse can produce different atoms" % (parent, okargs, cap_ok, filt, src_ok, trunc))
    # every call of parse / reparse runs the pipeline: a return that skips it leaves the atoms of an EARLIER text in
    # place.  Skipping is only the identity when the new text is literally the old one, so the only acceptable
    # early-return guard compares the raw `pattern` parameter itself for equality (not a trimmed / hashed / length key)
    for parent in ("pattern::Pattern::parse", "pattern::Pattern::reparse"):
        pf = get_fn(facts, M, parent)
        pl = atoms_pipeline(facts, pf)
        if pl is None:
            continue
        sink = pl[0]
        if pf.all_paths_to_return_pass(0, via_nodes=[sink]):
            ctx.ok(site(pf, sink), "%s: every return lies behind the atom pipeline" % parent.rsplit("::", 1)[1])
            continue
        # blocks from which a return is reachable without the sink: look at what guards them
        skip = pf.reach_from(0, removed_nodes=[sink])
        rets = [bi for bi in skip if pf.blocks[bi]["term"]["k"] == "return"]
        text_l = [l for l in range(1, pf.arg_count + 1) if pf.names.get(l) == "pattern"]
        raw_eq = False
        for rb in rets:
            for g in guards_of(pf, rb):
                e = g[3]
                if e[0] == "call" and (str(e[1]).endswith("::eq") or "PartialEq" in str(e[1])) and g[2] != [0]:
                    for side in e[2]:
                        x = peel(side)
                        while x[0] in ("ref", "deref"):
                            x = peel(x[1])
                        if x[0] == "arg" and text_l and x[1] == text_l[0]:
                            raw_eq = True
        if raw_eq:
            ctx.ok(site(pf, sink), "%s skips the pipeline only when the text parameter itself equals the stored text" % parent.rsplit("::", 1)[1])
        else:
            ctx.violation("%s|pipeline|skipped" % parent, site(pf, rets[0] if rets else 0),
                          "%s can return without running pattern_atoms → Atom::parse, under a condition that is not `the text parameter equals the previous text`: two texts "
                          "that the grammar distinguishes (`x\\` and `x\\ `: an escaped trailing space) share the key and the atoms of the earlier one are kept" % parent)
    # reparse clears before extending
    rp = get_fn(facts, M, "pattern::Pattern::reparse")
    clr = [bi for bi, t in rp.calls(lambda t: callee(t).endswith("Vec::<T, A>::clear"))]
    ext = [bi for bi, t in rp.calls(lambda t: callee(t).endswith("::extend"))]
    if clr and ext and all(rp.dominates(clr[0], e) for e in ext):
        ctx.ok(site(rp, clr[0]), "reparse clears the old atoms before extending")
    else:
        ctx.violation("pattern::Pattern::reparse|clear|1", site(rp, 0), "reparse does not clear self.atoms before adding the new atoms: atoms of the previous text survive")


def rule_new_is_literal(ctx):
    facts = ctx.facts
    callers = calls_to(facts, M, lambda t: callee(t) == PARSE)
    allowed_roots = ("pattern::Pattern::parse", "pattern::Pattern::reparse")
    for fn, bi, t in callers:
        homes = set(fn.b.get("roots") or [fn.b.get("root")]) if fn.b.get("kind") == "Closure" else {fn.path}
        if homes and homes <= set(allowed_roots):
            ctx.ok(site(fn, bi), "Atom::parse called from %s" % fn.path.split("::")[2])
        else:
            ctx.violation("%s|Atom::parse|caller" % fn.path, site(fn, bi), "the marker parser is reached from %s: literal construction must not interpret ! ^ ' $" % fn.path)
    ctx.floor("callers of Atom::parse", len(callers), 1)
    pn = None
    nc = []
    for f_ in closure_tree(facts, M, "pattern::Pattern::new"):
        c_ = [(bi, t) for bi, t in f_.calls(lambda t: callee(t) == "pattern::Atom::new")]
        if c_:
            pn, nc = f_, c_
    if pn is None:
        pn = get_fn(facts, M, "pattern::Pattern::new")
    if len(nc) == 1:
        esc = pn.const_of_operand(nc[0][1]["args"][4])
        ctx.ok(site(pn, nc[0][0]), "Pattern::new builds atoms with Atom::new (escape_whitespace = %s)" % esc)
    else:
        ctx.violation("pattern::Pattern::new|Atom::new|1", site(pn, 0), "Pattern::new does not build its atoms with Atom::new")
    an = get_fn(facts, M, "pattern::Atom::new")
    ic = [(bi, t) for bi, t in an.calls(lambda t: callee(t) == "pattern::Atom::new_inner")]
    if len(ic) == 1 and an.const_of_operand(ic[0][1]["args"][5]) == 0:
        ctx.ok(site(an, ic[0][0]), "Atom::new → new_inner(.., append_dollar = false)")
    else:
        ctx.violation("pattern::Atom::new|new_inner|1", site(an, 0), "Atom::new does not delegate to new_inner with append_dollar = false")
    # marker bytes are inspected only in Atom::parse
    markers = {33, 94, 39, 36}
    for b in facts.bodies_of(M):
        if not b["path"].startswith("pattern::") or b["path"] == PARSE:
            continue
        fn = fn_of(b)
        for bi in sorted(fn.live):
            t = fn.blocks[bi]["term"]
            if t["k"] == "switch" and t["ty"] in ("u8", "char"):
                vals = set(v for v, _ in t["arms"])
                if vals & markers:
                    ctx.violation("%s|marker-test|1" % fn.path, site(fn, bi), "%s tests for marker characters %s outside Atom::parse" % (fn.path, sorted(chr(v) for v in vals & markers)))
    ctx.ok("pattern.rs", "marker bytes ! ^ ' $ are matched only inside Atom::parse")


# ---------------------------------------------------------------- marker table

def marker_grammar(raw):
    """The documented marker grammar: (needle text before unescaping, kind, negative, append_dollar)."""
    invert = False
    s_ = raw
    if s_.startswith("!"):
        invert, s_ = True, s_[1:]
    elif s_.startswith("\\!"):
        s_ = s_[1:]
    kind = "Fuzzy"
    if s_.startswith("^"):
        kind, s_ = "Prefix", s_[1:]
    elif s_.startswith("'"):
        kind, s_ = "Substring", s_[1:]
    elif s_.startswith("\\^") or s_.startswith("\\'"):
        s_ = s_[1:]
    append_dollar = False
    if s_.endswith("\\$"):
        append_dollar, s_ = True, s_[:-2]
    elif s_.endswith("$"):
        kind = "Postfix" if kind == "Fuzzy" else "Exact"
        s_ = s_[:-1]
    if invert and kind == "Fuzzy":
        kind = "Substring"
    return s_, kind, invert, append_dollar


def rule_marker_table(ctx):
    """Atom::parse against the documented marker grammar, decided on a complete finite abstraction of its input:
    the (loop-free) body's decision paths only test bytes at bounded offsets from the front / the back and compare
    the length with small constants, so every string behaves like one of the strings of length <= front+back+1 over
    {! ^ ' \\ $ other}.  For each of those the decision table extracted from MIR (conditions as expression trees over
    `raw`: slice patterns, strip_prefix / starts_with / strip_suffix, sub-slicing) is evaluated and the arguments
    it hands to new_inner (text, kind, escape_whitespace, append_dollar) and `negative` are compared with the
    grammar.  Independent of how the three stages are spelled."""
    import itertools
    from cfg import decision_paths
    from absint import Evaluator, Unknown
    facts = ctx.facts
    fn = get_fn(facts, M, PARSE)
    paths = decision_paths(fn, limit=200000, with_calls=True)
    ctx.floor("decision paths of Atom::parse", len(paths), 12)
    # ---- how deep does the function look?  (bounds the witness domain)
    # every string/byte-slice expression is `raw` with f bytes cut off the front and b bytes off the back
    class _Deep(Exception):
        pass

    def plen(x):
        x = peel(x)
        if x[0] == "const" and isinstance(x[1], int):
            return 1
        if x[0] == "constx" and isinstance(x[1], str) and x[1].startswith('"'):
            import ast
            return len(ast.literal_eval(x[1]))
        if x[0] in ("array", "agg") and "char" in show(x) or (x[0] == "constx" and isinstance(x[1], str) and x[1].lstrip("&").startswith("['")):
            return 1        # a set of alternative single characters
        raise _Deep("pattern %s" % show(x)[:40])

    base = [{1: (0, 0)}]        # what the arguments of the body being scanned stand for (the closure of a `filter`: its element)

    def payload_offsets(e):
        """Offsets of the string inside an Option-valued expression (strip_prefix / strip_suffix, filtered or not)."""
        while e[0] in ("ref", "deref", "cast"):
            e = e[2] if e[0] == "cast" else e[1]
        if e[0] == "call":
            short = str(e[1]).rsplit("::", 1)[-1]
            if short == "strip_prefix":
                f_, b_ = offsets(e[2][0])
                return f_ + plen(e[2][1]), b_
            if short == "strip_suffix":
                f_, b_ = offsets(e[2][0])
                return f_, b_ + plen(e[2][1])
            if short == "filter" and "Option" in str(e[1]):
                return payload_offsets(e[2][0])
        raise _Deep("optional string expression %s" % show(e)[:60])

    def offsets(e):
        while e[0] in ("ref", "deref", "cast"):
            e = e[2] if e[0] == "cast" else e[1]
        if e[0] == "arg" and e[1] in base[-1]:
            return base[-1][e[1]]
        if e[0] == "call" and str(e[1]).endswith("::unwrap_or") and "Option" in str(e[1]) and len(e[2]) == 2:
            # either alternative: the deeper of the two bounds what is inspected
            (f1, b1), (f2, b2) = payload_offsets(e[2][0]), offsets(e[2][1])
            return max(f1, f2), max(b1, b2)
        if e[0] == "subslice":
            f_, b_ = offsets(e[1])
            return f_ + e[2], b_ + (e[3] if e[4] else 0)
        if e[0] == "field" and e[2] == "0":
            inner = e[1]
            while inner[0] in ("ref", "deref"):
                inner = inner[1]
            if inner[0] == "downcast":
                c = inner[1]
                while c[0] in ("ref", "deref"):
                    c = c[1]
                if c[0] == "call" and str(c[1]).endswith("::strip_prefix"):
                    f_, b_ = offsets(c[2][0])
                    return f_ + plen(c[2][1]), b_
                if c[0] == "call" and str(c[1]).endswith("::strip_suffix"):
                    f_, b_ = offsets(c[2][0])
                    return f_, b_ + plen(c[2][1])
        if e[0] == "call":
            short = str(e[1]).rsplit("::", 1)[-1]
            if short in ("as_bytes", "as_ref", "deref"):
                return offsets(e[2][0])
            if short == "index":
                f_, b_ = offsets(e[2][0])
                r = e[2][1]
                if r[0] == "agg":
                    st, en = r[2].get("start"), r[2].get("end")
                    if st is not None:
                        if not (st[0] == "const" and isinstance(st[1], int)):
                            raise _Deep("range start")
                        f_ += st[1]
                    if en is not None:
                        en = strip_casts(en)
                        if en[0] in ("bin", "checked") and en[1] == "Sub" and en[3][0] == "const":
                            b_ += en[3][1]
                        else:
                            raise _Deep("range end")
                    return f_, b_
        raise _Deep("string expression %s" % show(e)[:60])

    need = {"front": 0, "back": 0, "len": 0}

    def scan(e):
        if isinstance(e, dict):
            for v in e.values():
                scan(v)
            return
        if not isinstance(e, tuple) or not e:
            return
        if e[0] == "cindex":
            f_, b_ = offsets(e[1])
            if e[3]:
                need["back"] = max(need["back"], b_ + e[2])
            else:
                need["front"] = max(need["front"], f_ + e[2] + 1)
        elif e[0] == "call":
            short = str(e[1]).rsplit("::", 1)[-1]
            if short in ("strip_prefix", "starts_with"):
                f_, b_ = offsets(e[2][0])
                need["front"] = max(need["front"], f_ + plen(e[2][1]))
            elif short in ("strip_suffix", "ends_with"):
                f_, b_ = offsets(e[2][0])
                need["back"] = max(need["back"], b_ + plen(e[2][1]))
            elif short == "filter" and "Option" in str(e[1]) and len(e[2]) == 2 and e[2][1][0] == "closure":
                # the predicate looks at the optional string: scan its body with its element standing for that string
                cf = get_fn(facts, M, e[2][1][1])
                base.append({2: payload_offsets(e[2][0])})
                try:
                    for conds_, res_ in decision_paths(cf):
                        for d_, _, _ in conds_:
                            scan(d_)
                        if res_ is not None:
                            scan(res_)
                finally:
                    base.pop()
        elif e[0] == "bin" and e[1] in ("Ge", "Gt", "Le", "Lt", "Eq", "Ne"):
            for x, y in ((e[2], e[3]), (e[3], e[2])):
                x = strip_casts(x)
                if x[0] == "un" and x[1] == "PtrMetadata" and y[0] == "const":
                    f_, b_ = offsets(x[2])
                    need["len"] = max(need["len"], f_ + b_ + y[1])
        for x in e[1:]:
            if isinstance(x, (tuple, dict)):
                scan(x)
    try:
        for conds, res, calls in paths:
            for d, chosen, allv in conds:
                scan(d)
    except _Deep as ex:
        raise Inconclusive("cannot bound how deep Atom::parse inspects its input: %s" % ex)
    depth_front, depth_back = need["front"], need["back"]
    maxlen = max(depth_front + depth_back + 1, need["len"] + 1)
    if maxlen > 8:
        raise Inconclusive("Atom::parse inspects its input deeper than expected (front %d, back %d): witness domain too large" % (depth_front, depth_back))
    # ---- decision trie
    root = {}
    for pi, (conds, res, calls) in enumerate(paths):
        node = root
        for d, chosen, allv in conds:
            if "cond" not in node:
                node["cond"] = (d, allv)
                node["ch"] = {}
            elif node["cond"][0] != d:
                raise Inconclusive("decision paths of Atom::parse do not form a decision tree")
            node = node["ch"].setdefault(chosen, {})
        node["leaf"] = pi
    E = Evaluator(facts, M)
    alphabet = "!^'\\$a"
    n = bad = 0
    first_bad = None
    t_case, t_norm = ("enum", "CaseMatching", "Smart"), ("enum", "Normalization", "Smart")
    for L in range(0, maxlen + 1):
        for tup in itertools.product(alphabet, repeat=L):
            # strings longer than front+back: one representative middle suffices
            if L > depth_front + depth_back and any(c != "a" for c in tup[depth_front:L - depth_back]):
                continue
            raw = "".join(tup)
            args = {1: ("str", raw), 2: t_case, 3: t_norm}
            node = root
            try:
                while "leaf" not in node:
                    d, allv = node["cond"]
                    v = E.ev(d, args)
                    if isinstance(v, tuple):
                        raise Unknown("branch on a non-integer")
                    ch = node["ch"]
                    if v in ch:
                        node = ch[v]
                    elif None in ch and v not in allv:
                        node = ch[None]
                    else:
                        raise Unknown("no decision path for %r at %s" % (raw, show(d)[:60]))
                conds, res, calls = paths[node["leaf"]]
                ni = [c for c in calls if c[0] == "pattern::Atom::new_inner"]
                if len(ni) != 1:
                    raise Unknown("path does not call new_inner exactly once")
                a = ni[0][2]
                text = E.ev(a[0], args)
                kind = E.ev(a[3], args)
                esc = E.ev(a[4], args)
                dollar = E.ev(a[5], args)
                neg = None
                if res is not None and res[0] == "upd" and "negative" in res[2]:
                    neg = E.ev(res[2]["negative"], args)
                case_ok = E.ev(a[1], args) == t_case and E.ev(a[2], args) == t_norm
            except Unknown as ex:
                raise Inconclusive("Atom::parse is not evaluable on %r: %s" % (raw, ex))
            n += 1
            got = (text[1] if isinstance(text, tuple) else text, kind[2] if isinstance(kind, tuple) else kind, bool(neg) if neg is not None else None, bool(dollar))
            want = marker_grammar(raw)
            if got != want or esc != 1 or not case_ok:
                bad += 1
                if first_bad is None:
                    first_bad = (raw, got, want, esc, case_ok)
    if bad == 0:
        ctx.ok(site(fn, 0), "marker grammar: %d witness strings (length <= %d over {! ^ ' \\ $ other}, complete for inspection depth front %d / back %d), %d decision paths: "
               "needle text, kind, negative, append_dollar, escape_whitespace = true and (case, normalization) all as documented" % (n, maxlen, depth_front, depth_back, len(paths)))
    else:
        raw, got, want, esc, case_ok = first_bad
        what = []
        for nm, g, w in zip(("text", "kind", "negative", "append_dollar"), got, want):
            if g != w:
                what.append("%s = %r (documented: %r)" % (nm, g, w))
        if esc != 1:
            what.append("escape_whitespace = %s" % esc)
        if not case_ok:
            what.append("case/normalization arguments are not the caller's")
        key = PARSE + "|marker-table|" + ("kind" if got[1] != want[1] else ("text" if got[0] != want[0] else ("negative" if got[2] != want[2] else "flags")))
        ctx.violation(key, site(fn, 0), "marker grammar deviates on %d of %d witness strings, e.g. parse(%r): %s" % (bad, n, raw, "; ".join(what)))


class _Bail(Exception):
    pass


def eval_split_closure(fn, ws, bs, saw):
    """Evaluate the split predicate abstractly for one point of the finite domain
    (c is whitespace?, c is a backslash?, state flag) -> (split?, new state flag)."""
    C = ("c",)
    env = {2: C}
    state = {}
    cap_fields = [c["name"] for c in fn.b.get("captures", [])]
    if len(cap_fields) != 1:
        raise _Bail("expected exactly one captured state flag, found %s" % cap_fields)
    state[cap_fields[0]] = saw

    def place_val(p):
        if p["l"] == 1 and p["p"]:
            for el in p["p"]:
                if isinstance(el, dict) and "f" in el:
                    return state.get(el["name"])
            raise _Bail("unknown capture access")
        v = env.get(p["l"], "undef")
        if v == "undef":
            raise _Bail("read of unassigned local _%d" % p["l"])
        if any(el == "deref" for el in p["p"]):
            if isinstance(v, tuple) and v[0] == "ref":
                v = v[1]
        return v

    def op_val(o):
        if "const" in o:
            v = o["const"].get("val")
            if isinstance(v, bool):
                return v
            if isinstance(v, int):
                return v
            return ("unit",)
        return place_val(o.get("copy") or o.get("move"))

    bb = 0
    steps = 0
    while True:
        steps += 1
        if steps > 200:
            raise _Bail("no termination")
        blk = fn.blocks[bb]
        for st in blk["stmts"]:
            if st["k"] != "assign":
                continue
            rv = st["rv"]
            if "use" in rv:
                v = op_val(rv["use"])
            elif "ref" in rv:
                v = ("ref", place_val(rv["ref"]))
            elif "un" in rv and rv["un"] == "Not":
                a = op_val(rv["a"])
                if not isinstance(a, bool):
                    raise _Bail("Not of a non-boolean")
                v = not a
            elif "bin" in rv and rv["bin"] in ("Eq", "Ne", "BitAnd", "BitOr"):
                a, b = op_val(rv["a"]), op_val(rv["b"])
                if rv["bin"] in ("Eq", "Ne") and (a == C or b == C):
                    k = b if a == C else a
                    if k == 92:
                        v = bs
                    elif isinstance(k, int) and k in (32, 9, 10, 13):
                        v = ws and False if False else None
                    else:
                        v = False if bs or ws else None
                    if v is None:
                        raise _Bail("comparison of c with %s" % k)
                    if rv["bin"] == "Ne":
                        v = not v
                elif isinstance(a, bool) and isinstance(b, bool):
                    v = {"Eq": a == b, "Ne": a != b, "BitAnd": a and b, "BitOr": a or b}[rv["bin"]]
                else:
                    raise _Bail("unsupported comparison")
            elif "agg" in rv and rv["agg"] == "tuple" and not rv["ops"]:
                v = ("unit",)
            else:
                raise _Bail("unsupported statement %s" % str(rv)[:60])
            lhs = st["lhs"]
            if lhs["l"] == 1 and lhs["p"]:
                for el in lhs["p"]:
                    if isinstance(el, dict) and "f" in el:
                        if not isinstance(v, bool):
                            raise _Bail("state flag assigned a non-boolean")
                        state[el["name"]] = v
            elif lhs["p"]:
                raise _Bail("projected assignment")
            else:
                env[lhs["l"]] = v
        t = blk["term"]
        if t["k"] == "goto":
            bb = t["target"]
        elif t["k"] == "return":
            r = env.get(0)
            if not isinstance(r, bool):
                raise _Bail("predicate does not return a boolean")
            return r, state[cap_fields[0]]
        elif t["k"] == "call":
            c = callee(t)
            if c.endswith("char>::is_whitespace") and op_val(t["args"][0]) == C:
                env[t["dest"]["l"]] = ws
                bb = t["target"]
            else:
                raise _Bail("call of %s" % c)
        elif t["k"] == "switch":
            d = op_val(t["discr"])
            if d == C:
                arms = {v: b_ for v, b_ in t["arms"]}
                if set(arms) == {92}:
                    bb = arms[92] if bs else t["otherwise"]
                else:
                    raise _Bail("match on c with arms %s" % sorted(arms))
            elif isinstance(d, bool):
                tgt = None
                for v, b_ in t["arms"]:
                    if v == int(d):
                        tgt = b_
                bb = tgt if tgt is not None else t["otherwise"]
            else:
                raise _Bail("switch on %s" % str(d))
        else:
            raise _Bail("terminator %s" % t["k"])


def rule_split_table(ctx):
    """pattern_atoms splits at whitespace that is not preceded by a backslash; a backslash always
    escapes the next character (the atom constructor turns every `\\ ` into a space and keeps
    every other backslash). Decision table of the split predicate over its finite domain."""
    facts = ctx.facts
    pa = get_fn(facts, M, "pattern::pattern_atoms")
    sp = [(bi, t) for bi, t in pa.calls(lambda t: callee(t).endswith("str>::split"))]
    if len(sp) != 1:
        raise Inconclusive("pattern_atoms is not a single str::split")
    # ... applied to the pattern text itself: a `trim()` (or any other rewrite) in front of the split does not know about
    # the escapes -- `"foo\\ "` loses its escaped blank and the last word reaches the atom parser with a dangling backslash
    recv = strip_casts(pa.expr_of_operand(sp[0][1]["args"][0]))
    while recv[0] in ("ref", "deref"):
        recv = strip_casts(recv[1])
    if recv[0] == "arg":
        ctx.ok(site(pa, sp[0][0]), "the splitter runs over the pattern text as given")
    else:
        ctx.violation("pattern::pattern_atoms|split-input|1", site(pa, sp[0][0]),
                      "the word splitter runs over %s instead of the pattern text: a rewrite in front of the split is blind to the escape grammar (an escaped blank at the end "
                      "of the pattern is trimmed away, the last atom keeps a dangling backslash)" % show(recv)[:80])
    clo = pa.expr_of_operand(sp[0][1]["args"][1])
    if clo[0] != "closure":
        raise Inconclusive("split predicate is not a closure literal")
    init = list(clo[2].values())
    if len(init) != 1 or not (init[0][0] == "const" and init[0][1] == 0):
        ctx.violation("pattern::pattern_atoms|initial-state|1", site(pa, sp[0][0]), "the escape state does not start as `not escaped`")
    cf = get_fn(facts, M, clo[1])
    n = 0
    for ws, bs in ((True, False), (False, True), (False, False)):
        for saw in (False, True):
            try:
                got = eval_split_closure(cf, ws, bs, saw)
            except _Bail as e:
                raise Inconclusive("split predicate is not a decision table over (is_whitespace, is backslash, state): %s" % e)
            want = (True, False) if (ws and not saw) else (False, bs)
            n += 1
            what = "c is %s, previous character %s a backslash" % ("whitespace" if ws else ("a backslash" if bs else "any other character"), "was" if saw else "was not")
            if got == want:
                ctx.ok(site(cf, 0), "%s ⇒ split=%s, escaping-next=%s" % (what, got[0], got[1]))
            else:
                ctx.violation("pattern::pattern_atoms|split-table|%d%d%d" % (ws, bs, saw), site(cf, 0),
                              "%s: the splitter answers (split=%s, next character escaped=%s), the grammar says (split=%s, escaped=%s) — the word splitter and the atom constructor (which unescapes every `\\ `) disagree about which spaces are literal" % (what, got[0], got[1], want[0], want[1]))
    ctx.floor("split decision table points", n, 6)


def rule_case_source(ctx):
    """ignore_case flag: Ignore ⇒ true, Respect ⇒ false, Smart ⇒ no upper-case char; Ignore folds the needle."""
    facts = ctx.facts
    fn = get_fn(facts, M, "pattern::Atom::new_inner")
    lower = [bi for bi, t in fn.calls(lambda t: callee(t).endswith("make_ascii_lowercase"))]
    low2 = [bi for bi, t in fn.calls(lambda t: callee(t) == "chars::to_lower_case")]
    clo = facts.body(M, "pattern::Atom::new_inner::{closure#1}")
    low3 = []
    if clo is not None:
        cf = fn_of(clo)
        low3 = [bi for bi, t in cf.calls(lambda t: callee(t) == "chars::to_lower_case")]
    if lower and (low2 or low3):
        ctx.ok(site(fn, lower[0]), "CaseMatching::Ignore folds the stored needle in both halves (make_ascii_lowercase / chars::to_lower_case)")
    else:
        ctx.violation("pattern::Atom::new_inner|fold-needle|1", site(fn, 0), "an ignore-case needle is not stored case-folded in %s" % ("the ASCII half" if not lower else "the non-ASCII half"))
    up1 = [bi for bi, t in fn.calls(lambda t: callee(t).endswith("::any"))]
    up2 = [bi for bi, t in fn.calls(lambda t: callee(t) == "chars::is_upper_case")]
    up3 = []
    if clo is not None:
        up3 = [bi for bi, t in fn_of(clo).calls(lambda t: callee(t) == "chars::is_upper_case")]
    if up1 and (up2 or up3):
        ctx.ok(site(fn, up1[0]), "smart case looks for an upper-case character in both halves")
    else:
        ctx.violation("pattern::Atom::new_inner|smart-case|1", site(fn, 0), "smart case does not test for upper-case characters in both halves")


def rule_escape_siblings(ctx):
    """`\\ ` becomes a space and every other backslash is kept — identically in the ASCII half and the non-ASCII
    half of Atom::new_inner.  The ASCII half must be the library replace of "\\ " by " " (split/join or
    str::replace).  The non-ASCII half is a hand-written loop: its body is turned into a finite transducer over
    the character classes {space, backslash, other} x the loop-carried flags (flow-sensitive paths of one iteration,
    plus the code after the loop), and that transducer is compared with the replace semantics on every class
    string up to length 6 (more than enough for a transducer with this few states)."""
    import itertools
    from cfg import decision_paths
    facts = ctx.facts
    fn = get_fn(facts, M, "pattern::Atom::new_inner")
    # ---- ASCII half
    lits = []
    for bi, t in fn.calls(lambda t: any(callee(t).endswith(x) for x in ("str>::split_once", "str>::split", "str>::replace"))):
        pat_ = fn.expr_of_operand(t["args"][1])
        lits.append((callee(t).rsplit("::", 1)[-1], pat_[1] if pat_[0] == "constx" else show(pat_), bi, t))
    kinds = sorted(set(k for k, _, _, _ in lits))
    ok_ascii = False
    if kinds == ["replace"]:
        k, pat_, bi, t = lits[0]
        to = peel(fn.expr_of_operand(t["args"][2]))
        while to[0] in ("ref", "deref"):
            to = peel(to[1])
        ok_ascii = pat_ == '"\\\\ "' and to[0] == "constx" and to[1] == '" "'
    elif kinds in (["split", "split_once"], ["split"], ["split_once"]):
        ok_ascii = all(pat_ == '"\\\\ "' for _, pat_, _, _ in lits)
        sp_push = [bi for bi, t in fn.calls(lambda t: callee(t).endswith("String::push")) if fn.const_of_operand(t["args"][1]) == 32]
        ok_ascii = ok_ascii and bool(sp_push)
    if ok_ascii:
        ctx.ok(site(fn, lits[0][2]), "ASCII half: every `\\ ` replaced by a space (%s), nothing else touched" % "/".join(kinds))
    else:
        ctx.violation("pattern::Atom::new_inner|escape-ascii|1", site(fn, lits[0][2] if lits else 0),
                      "the ASCII half does not unescape by replacing exactly \"\\\\ \" with \" \": %s" % [(k, p_) for k, p_, _, _ in lits])
    # ---- non-ASCII half: the loop that pushes literal spaces / backslashes into the char vector
    loops = fn.loops()
    target = None
    for h, body, srcs in loops:
        pushes = [bi for bi, t in fn.calls(lambda t: callee(t).endswith("Vec::<T, A>::push")) if bi in body and fn.const_of_operand(t["args"][1]) in (32, 92)]
        if pushes:
            target = (h, body, srcs)
    if target is None:
        ctx.violation("pattern::Atom::new_inner|escape-unicode|0", site(fn, 0), "the non-ASCII half has no escape handling at all (no literal space/backslash is ever pushed)")
        return
    h, body, srcs = target
    exits = sorted(set(b for a, b in fn.loop_exits(target)))
    iters = decision_paths(fn, start=h, stops=set([h]) | set(exits), free_locals=True, limit=20000)
    nxt_ids = set()
    for conds, res, env in iters:
        for d, chosen, allv in conds:
            if d[0] == "discr" and d[1][0] == "call" and str(d[1][1]).endswith("::next"):
                nxt_ids.add(d[1][4])
    if len(nxt_ids) != 1:
        raise Inconclusive("escape loop is not driven by a single iterator next()")
    nxt = list(nxt_ids)[0]

    def is_char(e):
        return any(x[0] == "call" and len(x) > 4 and x[4] == nxt for x in walk(e))

    # loop-carried boolean flags: free locals that the body branches on and assigns
    def class_expr(e):
        """value determined by the character class alone: constant, `c == K`, or a negation of those"""
        e = strip_casts(e)
        if e[0] == "const":
            return True
        if e[0] == "un" and e[1] == "Not":
            return class_expr(e[2])
        if e[0] == "bin" and e[1] in ("Eq", "Ne"):
            return any(is_char(x) and strip_casts(y)[0] == "const" for x, y in ((e[2], e[3]), (e[3], e[2])))
        return False

    flags = set()
    for conds, res, env in iters:
        for d, chosen, allv in conds:
            for x in walk(d):
                if x[0] == "free" and fn.b["locals"][x[1]]["ty"] == "bool":
                    assigned = [e_[x[1]] for _, _, e_ in iters if x[1] in e_]
                    if assigned and all(class_expr(a_) for a_ in assigned):
                        flags.add(x[1])

    class _U(Exception):
        pass

    def val(e, cls, st):
        """bool/int value of a condition under (class of the current char, flag state); None = depends on something else"""
        e = strip_casts(e)
        if e[0] == "const" and isinstance(e[1], (int, bool)):
            return int(e[1])
        if e[0] == "free":
            return st.get(e[1]) if e[1] in flags else None
        if e[0] == "arg" and e[2] == "escape_whitespace":
            return 1        # the transducer is extracted for escape_whitespace = true (the parse / Pattern::new case)
        if e[0] == "un" and e[1] == "Not":
            v = val(e[2], cls, st)
            return None if v is None else int(not v)
        if e[0] == "bin" and e[1] in ("Eq", "Ne"):
            for x, y in ((e[2], e[3]), (e[3], e[2])):
                y = strip_casts(y)
                if is_char(x) and y[0] == "const" and isinstance(y[1], int):
                    code = {"sp": 32, "bs": 92}.get(cls, -1)
                    return int((code == y[1]) == (e[1] == "Eq"))
            return None
        if e[0] == "bin" and e[1] in ("BitAnd", "BitOr"):
            a, b = val(e[2], cls, st), val(e[3], cls, st)
            if e[1] == "BitAnd":
                if a == 0 or b == 0:
                    return 0
                return None if a is None or b is None else 1
            if a == 1 or b == 1:
                return 1
            return None if a is None or b is None else 0
        if e[0] == "discr" and e[1][0] == "call" and len(e[1]) > 4 and e[1][4] == nxt:
            return None if cls is None else (1 if cls != "END" else 0)
        return None

    vec_locals = set()
    for bi, t in fn.calls(lambda t: callee(t).endswith("Vec::<T, A>::push")):
        if bi in body and fn.const_of_operand(t["args"][1]) in (32, 92):
            r = peel(fn.expr_of_operand(t["args"][0]))
            while r[0] in ("ref", "deref"):
                r = peel(r[1])
            vec_locals.add(r[1:2])

    def emits(env, cls):
        out = []
        for name, cid, cargs in env.get("#calls", ()):
            if not str(name).endswith("Vec::<T, A>::push"):
                continue
            v = strip_casts(cargs[1])
            if v[0] == "const" and v[1] == 32:
                out.append("sp")
            elif v[0] == "const" and v[1] == 92:
                out.append("bs")
            elif v[0] == "const" and v[1] == 36:
                continue   # the `$` appended for an escaped trailing dollar: not part of the escape transducer
            elif is_char(v):
                out.append(cls)
            else:
                raise _U("pushes %s" % show(v)[:60])
        return out

    def step(paths, cls, st):
        """all (emitted classes, new flag state, where the path ended) compatible with (cls, st)"""
        res_ = set()
        for conds, res, env in paths:
            feas = True
            for d, chosen, allv in conds:
                v = val(d, cls, st)
                if v is None:
                    continue
                if (chosen is not None and v != chosen) or (chosen is None and v in allv):
                    feas = False
                    break
            if not feas:
                continue
            nst = dict(st)
            for l in flags:
                if l in env:
                    nv = val(env[l], cls, st)
                    if nv is None:
                        raise _U("flag _%d is assigned a value that does not depend on the character class alone" % l)
                    nst[l] = nv
            res_.add((tuple(emits(env, cls)), tuple(sorted(nst.items())), res[1] if res[0] == "stop" else "return"))
        return res_

    init = {}
    for l in flags:
        ds = [e_ for b_, s_, e_ in fn.def_exprs(l) if b_ not in body]
        if len(ds) == 1 and ds[0][0] == "const":
            init[l] = int(ds[0][1])
        else:
            raise Inconclusive("initial value of the escape flag _%d is not a constant" % l)
    tails = {}
    for b in exits:
        tails[b] = decision_paths(fn, start=b, stops=(), free_locals=True, with_env=True, limit=20000)

    def reference(cs):
        out, i = [], 0
        while i < len(cs):
            if cs[i] == "bs" and i + 1 < len(cs) and cs[i + 1] == "sp":
                out.append("sp")
                i += 2
            else:
                out.append(cs[i])
                i += 1
        return out

    n = 0
    bad = None
    try:
        for L in range(0, 7):
            for cs in itertools.product(("sp", "bs", "x"), repeat=L):
                st = dict(init)
                out = []
                okrun = True
                for cls in cs:
                    rs = set((e_, s_) for e_, s_, where in step(iters, cls, st) if where == h)
                    if len(rs) != 1:
                        raise _U("%d different behaviours for class %s in state %s (depends on case/normalization settings?)" % (len(rs), cls, st))
                    e_, s_ = list(rs)[0]
                    out += list(e_)
                    st = dict(s_)
                # end of input: leave the loop, then whatever the code after the loop pushes
                rs = step(iters, "END", st)
                ex = set(where for e_, s_, where in rs if where != h)
                if len(rs) != 1 or len(ex) != 1:
                    raise _U("loop exit is not unique")
                e_, s_, where = list(rs)[0]
                out += list(e_)
                fl = set()
                for conds, res, env in tails[where]:
                    feas = True
                    for d, chosen, allv in conds:
                        v = val(d, None, dict(s_))
                        if v is None:
                            continue
                        if (chosen is not None and v != chosen) or (chosen is None and v in allv):
                            feas = False
                            break
                    if feas:
                        fl.add(tuple(emits(env, None)))
                if len(fl) != 1:
                    raise _U("code after the escape loop pushes different things depending on something other than the flags")
                out += list(list(fl)[0])
                n += 1
                if out != reference(list(cs)) and bad is None:
                    bad = (cs, out, reference(list(cs)))
    except _U as ex:
        raise Inconclusive("escape loop of the non-ASCII half is not a finite transducer over {space, backslash, other}: %s" % ex)
    sym = {"sp": "␠", "bs": "\\", "x": "x"}
    if bad is None:
        ctx.ok(site(fn, h), "non-ASCII half: loop = the same transducer as the ASCII replace on all %d class strings up to length 6 (%d flag(s), %d iteration paths)" % (n, len(flags), len(iters)))
    else:
        cs, out, want = bad
        ctx.violation("pattern::Atom::new_inner|escape-unicode|1", site(fn, h),
                      "the non-ASCII half unescapes differently from the ASCII half: for the character sequence `%s` it stores `%s`, the ASCII half (and the documented grammar) gives `%s` — "
                      "an escaped space keeps its backslash / other backslashes are doubled whenever the atom contains a non-ASCII character"
                      % ("".join(sym[c] for c in cs), "".join(sym[c] for c in out), "".join(sym[c] for c in want)))


def rule_smart_flags(ctx):
    """Non-ASCII half of Atom::new_inner, per stored character (one iteration of the escape loop / one call of the
    map closure), per decision path:
      CaseMatching::Smart      ⇒ ignore_case' = ignore_case && !is_upper(c)   (is_upper_case, or is_ascii_uppercase on a
                                  path where c is known to be ASCII) — for EVERY character that can be a letter
      CaseMatching::Ignore     ⇒ the stored character is the case-folded one
      Normalization::Smart     ⇒ normalize' = normalize && normalize(c) == c   (may be skipped for ASCII c: never normalized)
    i.e. smart case ignores case exactly when the atom has no upper-case character."""
    from cfg import decision_paths
    facts = ctx.facts
    fn = get_fn(facts, M, "pattern::Atom::new_inner")
    cm = facts.adt(M, "pattern::CaseMatching")
    nm_ = facts.adt(M, "pattern::Normalization")
    if cm is None or nm_ is None:
        raise Inconclusive("CaseMatching / Normalization not found")
    case_names = {v["discr"]: v["name"] for v in cm["variants"]}
    norm_names = {v["discr"]: v["name"] for v in nm_["variants"]}
    # the two flag locals: operands of the final Atom literal
    lit = [s_ for bi, si, s_ in fn.stmts(lambda s_: s_["k"] == "assign" and s_["rv"].get("agg") == "adt" and str(s_["rv"].get("adt", "")).endswith("pattern::Atom"))]
    if len(lit) != 1:
        raise Inconclusive("Atom literal not found in new_inner")
    names = lit[0]["rv"]["fields"]

    def flag_local(field):
        e = fn.expr_of_operand(lit[0]["rv"]["ops"][names.index(field)])
        while e[0] in ("ref", "deref", "cast"):
            e = e[2] if e[0] == "cast" else e[1]
        if e[0] != "local":
            raise Inconclusive("Atom.%s is not a (re-assigned) local of new_inner: %s" % (field, show(e)[:60]))
        return e[1]
    L_IC, L_NZ = flag_local("ignore_case"), flag_local("normalize")
    regions = []   # (label, fn, paths, is_char, old_flag(e, which), new_flag(env, which), stored(env, res), case_expr_pred, norm_expr_pred)

    def unref(e):
        while isinstance(e, tuple) and e and e[0] in ("ref", "deref", "cast"):
            e = e[2] if e[0] == "cast" else e[1]
        return e
    # ---- region 1: loops of new_inner that push char-derived values into the char vector
    for h, body, srcs in fn.loops():
        pushes = [bi for bi, t in fn.calls(lambda t: callee(t).endswith("Vec::<T, A>::push")) if bi in body]
        if not pushes:
            continue
        exits = sorted(set(b for a, b in fn.loop_exits((h, body, srcs))))
        paths = decision_paths(fn, start=h, stops=set([h]) | set(exits), free_locals=True, limit=20000)
        nxt = set()
        for conds, res, env in paths:
            for d, chosen, allv in conds:
                if d[0] == "discr" and d[1][0] == "call" and str(d[1][1]).endswith("::next"):
                    nxt.add(d[1][4])
        if len(nxt) != 1:
            continue
        nid = list(nxt)[0]
        if not any("graphemes" in str(x[1]) for conds, res, env in paths for d, c_, a_ in conds for x in walk(d) if x[0] == "call"):
            pass
        is_char = (lambda nid: lambda e: any(x[0] == "call" and len(x) > 4 and x[4] == nid for x in walk(e)))(nid)
        old_flag = lambda e, L: unref(e)[0] in ("free", "local") and unref(e)[1] == L
        def new_flag(env, L, old_flag=old_flag):
            if L in env:
                return env[L]
            # updated through a `&mut flag` held by an (inlined) closure: recorded as a store to the flag's old value
            val = None
            for k_, v_ in env.items():
                if isinstance(k_, tuple) and k_[0] == "store" and isinstance(v_, tuple) and v_[0] == "store" and v_[1] is not None and old_flag(v_[1], L):
                    val = v_[2]
            return val

        def stored(env, res, is_char=is_char):
            out = []
            for name, cid, cargs in env.get("#calls", ()):
                if str(name).endswith("Vec::<T, A>::push") and is_char(cargs[1]):
                    out.append(cargs[1])
            return out
        case_pred = lambda e: unref(e)[0] == "arg" and unref(e)[1] == 2
        norm_pred = lambda e: unref(e)[0] == "arg" and unref(e)[1] == 3
        iter_paths = [(c_, r_, e_) for c_, r_, e_ in paths if r_[0] == "stop" and r_[1] == h]
        regions.append(("escape loop", fn, iter_paths, is_char, old_flag, new_flag, stored, case_pred, norm_pred, {"ic": L_IC, "nz": L_NZ}, h))
    # ---- region 2: closures created in new_inner that return a char computed from their char argument
    for cbi, csi, clocal, cpath, caps in closure_creations(fn):
        cf = get_fn(facts, M, cpath)
        if cf.arg_count != 2 or cf.b["locals"][2]["ty"] != "char" or cf.b["locals"][0]["ty"] != "char":
            continue
        cap_of = {}
        for cn in caps:
            rc = resolve_capture(cf, cn)
            if rc is not None:
                x = unref(rc[1])
                if x[0] == "local":
                    cap_of[cn] = x[1]
                elif x[0] == "arg":
                    cap_of[cn] = ("arg", x[1])
        ic_caps = [cn for cn, l in cap_of.items() if l == L_IC]
        nz_caps = [cn for cn, l in cap_of.items() if l == L_NZ]
        case_caps = [cn for cn, l in cap_of.items() if l == ("arg", 2)]
        norm_caps = [cn for cn, l in cap_of.items() if l == ("arg", 3)]
        paths = decision_paths(cf, with_env=True)

        def cap_field(e, names_):
            e = unref(e)
            return e[0] == "field" and e[2] in names_ and unref(e[1])[0] == "arg" and unref(e[1])[1] == 1
        is_char = lambda e: any(x[0] == "arg" and x[1] == 2 for x in walk(e))
        old_flag = (lambda ic_caps, nz_caps: lambda e, L: cap_field(e, ic_caps if L == "ic" else nz_caps))(ic_caps, nz_caps)

        def new_flag(env, L, ic_caps=ic_caps, nz_caps=nz_caps):
            want = ic_caps if L == "ic" else nz_caps
            val = None
            for k_, v_ in env.items():
                if isinstance(k_, tuple) and k_[0] == "store" and isinstance(v_, tuple) and v_[0] == "store" and v_[1] is not None and cap_field(v_[1], want):
                    val = v_[2]
            return val
        stored = lambda env, res: [res] if res is not None else []
        case_pred = (lambda case_caps: lambda e: cap_field(e, case_caps))(case_caps)
        norm_pred = (lambda norm_caps: lambda e: cap_field(e, norm_caps))(norm_caps)
        regions.append(("closure " + cpath.rsplit("::", 1)[-1], cf, paths, is_char, old_flag, new_flag, stored, case_pred, norm_pred, {"ic": "ic", "nz": "nz"}, 0))
    ctx.floor("per-character regions of the non-ASCII half", len(regions), 2)

    def has_call(e, suffixes, is_char):
        return any(x[0] in ("call", "call_mut") and any(str(x[1]).endswith(sfx) for sfx in suffixes) and is_char(x) for x in walk(e))

    for label, rf, paths, is_char, old_flag, new_flag, stored, case_pred, norm_pred, FL, where in regions:
        n_smart = n_ignore = n_norm = 0
        problems = []
        for conds, res, env in paths:
            cases = set(case_names.values())
            norms = set(norm_names.values())
            ascii_c = False
            pinned = False
            old_ic = old_nz = None
            for d, chosen, allv in conds:
                dd = d
                if dd[0] == "discr":
                    tgt = dd[1]
                    for pred, names_, cur in ((case_pred, case_names, "c"), (norm_pred, norm_names, "n")):
                        if pred(tgt):
                            if chosen is not None:
                                sel = {names_.get(chosen)}
                            else:
                                sel = set(names_.values()) - {names_.get(v) for v in allv}
                            if cur == "c":
                                cases &= sel
                            else:
                                norms &= sel
                truth = (chosen != 0) if chosen is not None else True
                d0 = strip_casts(dd)
                if d0[0] == "call" and str(d0[1]).endswith("is_ascii") and is_char(d0) and truth:
                    ascii_c = True
                if d0[0] == "bin" and d0[1] == "Eq" and truth and any(is_char(x) for x in (d0[2], d0[3])) and any(strip_casts(x)[0] == "const" for x in (d0[2], d0[3])):
                    pinned = True   # c is one specific character (space / backslash handling)
                if old_flag(dd, FL["ic"]):
                    old_ic = truth
                if old_flag(dd, FL["nz"]):
                    old_nz = truth
            st_vals = stored(env, res)
            if not st_vals or pinned:
                continue
            if "Smart" in cases:
                n_smart += 1
                nv = new_flag(env, FL["ic"])
                upper = ("chars::is_upper_case", "is_ascii_uppercase") if ascii_c else ("chars::is_upper_case",)
                good = False
                if old_ic is False:
                    good = nv is None or (strip_casts(nv)[0] == "const" and not strip_casts(nv)[1])
                elif nv is not None:
                    v0 = strip_casts(nv)
                    if v0[0] == "un" and v0[1] == "Not" and has_call(v0[2], upper, is_char):
                        good = True
                    if v0[0] == "bin" and v0[1] == "BitAnd" and any(strip_casts(x)[0] == "un" and has_call(x, upper, is_char) for x in (v0[2], v0[3])):
                        good = True
                if not good:
                    # written as a branch: `if is_upper_case(c) { ignore_case = false }`
                    for d_, ch_, allv_ in conds:
                        t_ = (ch_ != 0) if ch_ is not None else True
                        dd_ = strip_casts(d_)
                        neg_ = False
                        while dd_[0] == "un" and dd_[1] == "Not":
                            dd_ = strip_casts(dd_[2]); neg_ = not neg_
                        if has_call(dd_, upper, is_char) and dd_[0] in ("call", "call_mut"):
                            is_up = t_ != neg_
                            if is_up and nv is not None and strip_casts(nv)[0] == "const" and not strip_casts(nv)[1]:
                                good = True
                            if not is_up and nv is None:
                                good = True
                if not good:
                    problems.append(("smart-case", "under CaseMatching::Smart a character%s is stored without `ignore_case &&= !is_upper_case(c)` (new flag value: %s): an atom with an upper-case letter there is matched case-insensitively"
                                     % (" known to be ASCII" if ascii_c else "", show(nv)[:60] if nv is not None else "unchanged")))
            if "Ignore" in cases and len(cases) == 1:
                n_ignore += 1
                lower = ("chars::to_lower_case", "to_ascii_lowercase", "make_ascii_lowercase") if ascii_c else ("chars::to_lower_case",)
                if not all(has_call(v, lower, is_char) for v in st_vals):
                    problems.append(("ignore-fold", "under CaseMatching::Ignore a character is stored without case folding: %s" % show(st_vals[0])[:60]))
            if "Smart" in norms and not ascii_c:
                n_norm += 1
                nv = new_flag(env, FL["nz"])
                good = False
                if old_nz is False:
                    good = nv is None or (strip_casts(nv)[0] == "const" and not strip_casts(nv)[1])
                elif nv is not None:
                    good = has_call(nv, ("chars::normalize::normalize", "chars::normalize"), is_char) and any(x[0] == "bin" and x[1] == "Eq" for x in walk(nv))
                    if good:
                        # ... and the character that is tested is the character that is STORED (after case folding): the
                        # flag says whether the stored atom contains a normalizable character
                        nargs = [strip_casts(x[2][0]) for x in walk(nv) if x[0] in ("call", "call_mut") and any(str(x[1]).endswith(sfx) for sfx in ("chars::normalize::normalize", "chars::normalize")) and x[2]]
                        stv = [strip_casts(v) for v in st_vals]
                        if nargs and stv and not any(a_ == v_ for a_ in nargs for v_ in stv):
                            good = False
                            problems.append(("smart-normalize-operand", "under Normalization::Smart the flag is computed from normalize(%s) but the character stored in the atom is %s: the "
                                             "flag no longer says whether the STORED atom has a normalizable character (case folding can move a character into or out of the table)"
                                             % (show(nargs[0])[:50], show(stv[0])[:50])))
                            continue
                if not good and old_nz is not False:
                    # written as a branch: `if normalize(x) != x { normalize = false }` -- x has to be the stored character
                    for d_, ch_, allv_ in conds:
                        t_ = (ch_ != 0) if ch_ is not None else True
                        dd_ = strip_casts(d_)
                        if dd_[0] == "bin" and dd_[1] in ("Ne", "Eq") and has_call(dd_, ("chars::normalize::normalize", "chars::normalize"), is_char):
                            differs = t_ if dd_[1] == "Ne" else (not t_)
                            nargs = [strip_casts(x[2][0]) for x in walk(dd_) if x[0] in ("call", "call_mut") and any(str(x[1]).endswith(sfx) for sfx in ("chars::normalize::normalize", "chars::normalize")) and x[2]]
                            stv = [strip_casts(v) for v in st_vals]
                            if nargs and stv and not any(a_ == v_ for a_ in nargs for v_ in stv):
                                continue
                            if differs and nv is not None and strip_casts(nv)[0] == "const" and not strip_casts(nv)[1]:
                                good = True
                            if not differs and nv is None:
                                good = True
                if not good:
                    problems.append(("smart-normalize", "under Normalization::Smart a non-ASCII character is stored without `normalize &&= normalize(c) == c` (new flag value: %s)" % (show(nv)[:60] if nv is not None else "unchanged")))
        if problems:
            kinds_ = sorted(set(k for k, _ in problems))
            for k in kinds_:
                msg = [m for kk, m in problems if kk == k][0]
                ctx.violation("pattern::Atom::new_inner|%s|%s" % (k, label.split()[0]), site(rf, where), "%s: %s" % (label, msg))
        else:
            ctx.ok(site(rf, where), "%s: smart case / ignore-case folding / smart normalization applied to every stored character (%d Smart, %d Ignore, %d Smart-normalization paths)" % (label, n_smart, n_ignore, n_norm))
        if n_smart == 0:
            ctx.fail_closed("%s: no decision path runs under CaseMatching::Smart" % label)


def rule_fold_lookup(ctx):
    """Smart case stores a needle unfolded when `is_upper_case` says one of its characters has a folding: is_upper_case / to_lower_case must be exactly `has an entry in the fold table` / `its value` (shared with C16.dispatch)."""
    from props.c16 import rule_dispatch as r
    r(ctx)


def rules(ctx):
    ctx.run_rule("C14.fold-lookup", rule_fold_lookup)
    ctx.run_rule("C14.parse-twins", rule_parse_twins)
    ctx.run_rule("C14.new-is-literal", rule_new_is_literal)
    ctx.run_rule("C14.marker-table", rule_marker_table)
    ctx.run_rule("C14.split-table", rule_split_table)
    ctx.run_rule("C14.case-source", rule_case_source)
    ctx.run_rule("C14.escape-siblings", rule_escape_siblings)
    ctx.run_rule("C14.smart-flags", rule_smart_flags)

"""C04 — fuzzy ranking quality (structural clauses: early-exit soundness, prefix-bonus additivity)."""
from cfg import Inconclusive, op_place, show, walk, strip_casts
from common import uses_of_local
from common import (config_effects, calls_to, callee, field_chain, fn_of, get_fn, peel, site, guards_of, ret_aggregates,
                    field_reads, field_assigns)

PROP = "C04"
LEVEL = "other"
UNDECIDED = [
    "that the compressed two-row DP equals the naive two-matrix affine-gap recurrence for all inputs (upper/lower bound on the score)",
    "optimality for needles longer than one character",
]
ASSUMPTIONS = [
    "Config values are only those constructible through the public API: Config::DEFAULT, .match_paths(), .set_match_paths() (bonus fields are pub(crate))",
]
M = "nucleo_matcher"
_FACTS = [None]


def constructible_configs(ctx):
    """Config values reachable through the public API: DEFAULT, and DEFAULT transformed by every function of the
    crate that produces/overwrites a Config (found by what they do: field stores or Config literals)."""
    facts = ctx.facts
    d = dict(facts.const(M, "config::Config::DEFAULT")["value"])
    cfgs = [("DEFAULT", d)]
    writers = set()
    for b in facts.bodies_of(M):
        fn = fn_of(b)
        if b["kind"] not in ("Fn", "AssocFn"):
            continue
        hit = False
        for fld in ("bonus_boundary_white", "bonus_boundary_delimiter"):
            if field_assigns(fn, fld, "config::Config"):
                hit = True
        for bi, si, s in fn.stmts(lambda s: s["k"] == "assign" and s["rv"].get("agg") == "adt" and str(s["rv"].get("adt", "")).endswith("config::Config")):
            hit = True
        if hit:
            writers.add(fn.path)
    for w in sorted(writers):
        fn = get_fn(facts, M, w)
        for conds, final, get in config_effects(fn):
            c = dict(d)
            for fld in ("bonus_boundary_white", "bonus_boundary_delimiter"):
                v = get(fld)
                if v[0] == "const":
                    c[fld] = v[1]
                elif v[0] == "unchanged":
                    pass
                else:
                    raise Inconclusive("%s leaves %s = %s (not a constant)" % (w, fld, v))
            if (w.rsplit("::", 1)[1], c) not in cfgs:
                cfgs.append((w.rsplit("::", 1)[1], c))
    return cfgs, writers


def eval_threshold(e, cfg):
    e = strip_casts(e)
    if e[0] == "const" and isinstance(e[1], int):
        return e[1]
    if e[0] == "field" and "config::Config" in (e[3] or ""):
        return cfg.get(e[2])
    if e[0] == "call" and (str(e[1]).endswith("Ord::max") or str(e[1]).endswith("cmp::max")):
        a, b = eval_threshold(e[2][0], cfg), eval_threshold(e[2][1], cfg)
        return None if a is None or b is None else max(a, b)
    if e[0] == "call" and (str(e[1]).endswith("Ord::min") or str(e[1]).endswith("cmp::min")):
        a, b = eval_threshold(e[2][0], cfg), eval_threshold(e[2][1], cfg)
        return None if a is None or b is None else min(a, b)
    if e[0] in ("deref", "ref"):
        return eval_threshold(e[1], cfg)
    if e[0] == "call" and _FACTS[0] is not None:
        # helper method on Config: evaluate its (loop-free, single-expression) body for this configuration
        b = _FACTS[0].body(M, str(e[1]))
        if b is not None and "config::Config" in (b.get("impl_self") or ""):
            f = fn_of(b)
            rets = ret_aggregates(f)
            vals = []
            for bi, si, rv in rets:
                vals.append(eval_threshold(f.expr_of_rvalue(rv), cfg))
            for bi, t in f.calls(lambda t: t["dest"]["l"] == 0 and not t["dest"]["p"]):
                ce = ("call", callee(t), tuple(f.expr_of_operand(a) for a in t["args"]), t.get("fn"), (bi, 0))
                vals.append(eval_threshold(ce, cfg))
            if len(vals) == 1:
                return vals[0]
    return None


def rule_early_exit(ctx):
    from props.c03 import bonus_table
    facts = ctx.facts
    _FACTS[0] = facts
    fnb, order, table = bonus_table(ctx)
    cfgs, writers = constructible_configs(ctx)
    ctx.floor("constructors of bonus configurations", len(writers), 2)

    def max_bonus(cfg):
        vals = []
        for leaf in table.values():
            vals.append(leaf[1] if leaf[0] == "const" else cfg[leaf[1]])
        return max(vals)
    n = 0
    for b in facts.bodies_of(M):
        fn = fn_of(b)
        if not b["path"].startswith("exact::"):
            continue
        loops = fn.loops()
        k = 0
        for bi in sorted(fn.live):
            t = fn.blocks[bi]["term"]
            if t["k"] != "switch":
                continue
            e = fn.expr_of_operand(t["discr"])
            if not (e[0] == "bin" and e[1] in ("Ge", "Gt", "Eq")):
                continue
            lhs = strip_casts(e[2])
            is_bonus = (lhs[0] == "call" and str(lhs[1]).endswith("::bonus_for"))
            if not is_bonus:
                continue
            # true edge leaves the loop?
            inner = [l for l in loops if bi in l[1]]
            if not inner:
                continue
            loop = min(inner, key=lambda l: len(l[1]))
            tt = t["otherwise"]
            leaves = tt not in loop[1] or all(x not in loop[1] for x in fn.reach_from(tt) if x != tt and fn.blocks[tt]["term"]["k"] == "goto" and False)
            if tt in loop[1]:
                # follow gotos
                x = tt
                hops = 0
                while x in loop[1] and fn.blocks[x]["term"]["k"] == "goto" and not fn.blocks[x]["stmts"] and hops < 5:
                    x = fn.blocks[x]["term"]["target"]
                    hops += 1
                leaves = x not in loop[1]
            if not leaves:
                continue
            n += 1
            k += 1
            key = "%s|early-exit|%d" % (fn.path, k)
            bad = []
            for name, cfg in cfgs:
                thr = eval_threshold(e[3], cfg)
                mb = max_bonus(cfg)
                if thr is None:
                    bad.append("%s: threshold %s not evaluable" % (name, show(e[3])))
                    continue
                need = mb if e[1] in ("Ge", "Eq") else mb  # `>` can never fire at the max, harmless
                if e[1] == "Gt":
                    continue
                if thr < mb:
                    bad.append("under %s the scan stops at bonus ≥ %d but bonus_for can return %d" % (name, thr, mb))
            if bad and all("not evaluable" in b_ for b_ in bad):
                # the threshold is a value this rule cannot evaluate (a field of a helper struct, say): undecided, not wrong
                ctx.fail_closed("%s: the threshold of a `cannot get better` early exit (%s) cannot be evaluated under the constructible configurations" % (site(fn, bi), show(e[3])[:80]))
            elif bad:
                ctx.violation(key, site(fn, bi),
                              "`can't get better than this` early exit compares the bonus with %s: %s — a later, better-placed occurrence is never examined (the best-placed occurrence must win)" % (show(e[3]), "; ".join(bad)))
            else:
                ctx.ok(site(fn, bi), "early exit threshold %s dominates every value of bonus_for in all %d constructible configurations" % (show(e[3]), len(cfgs)))
    ctx.floor("`cannot get better` early exits", n, 3)


def rule_prefix_additive(ctx):
    from props.c03 import Bounds
    facts = ctx.facts
    readers = set()
    for b in facts.bodies_of(M):
        fn = fn_of(b)
        if b.get("impl_trait"):
            continue
        if field_reads(fn, "prefer_prefix", "config::Config"):
            readers.add(fn.b.get("root", fn.path))
    expect = {"score::<impl Matcher>::calculate_score", "fuzzy_optimal::<impl matrix::MatcherDataView<'_, H>>::setup"}
    for r in sorted(readers - expect):
        ctx.violation("%s|prefer_prefix|reader" % r, r, "config.prefer_prefix is consulted in %s: the preference may only add a bounded bonus inside the two scorers, not steer other decisions" % r)
    for r in sorted(expect & readers):
        ctx.ok(r, "prefer_prefix read in a scorer")
    mpb = facts.const(M, "score::MAX_PREFIX_BONUS")["value"]
    scale = facts.const(M, "score::PREFIX_BONUS_SCALE")["value"]
    # calculate_score: statements guarded by prefer_prefix == true only add to `score`
    cs = get_fn(facts, M, "score::<impl Matcher>::calculate_score")
    bd = Bounds(ctx, cs, 0)
    sw = None
    for bi in sorted(cs.live):
        t = cs.blocks[bi]["term"]
        if t["k"] == "switch":
            e = cs.expr_of_operand(t["discr"])
            if e[0] == "field" and e[2] == "prefer_prefix":
                sw = (bi, t)
    if sw is None:
        ctx.note("calculate_score does not read prefer_prefix")
    else:
        bi, t = sw
        tt = t["otherwise"]
        region = [x for x in cs.reach_from(tt) if cs.must_pass(x, via_edges=[(bi, tt)])]
        score_l = cs.name_to_local.get("score", [None])[0]
        adds = 0
        for x in region:
            for si, s in enumerate(cs.blocks[x]["stmts"]):
                if s["k"] == "assign" and not s["lhs"]["p"] and s["lhs"]["l"] == score_l:
                    e = cs.expr_of_rvalue(s["rv"])
                    key = "score::<impl Matcher>::calculate_score|prefix-add|%d" % (adds + 1)
                    adds += 1
                    val = None
                    if e[0] == "bin" and e[1] == "Add":
                        val = e[3] if strip_casts(e[2])[0] == "local" else e[2]
                    elif e[0] == "call" and "saturating_add" in str(e[1]):
                        val = e[2][1]
                    if val is None:
                        ctx.violation(key, site(cs, x, si), "with prefer_prefix the score is rewritten by %s instead of having a bonus added" % show(e))
                        continue
                    ub = bd.bound(val, x)
                    if ub is not None and ub <= mpb:
                        ctx.ok(site(cs, x, si), "prefix preference adds a value in [0, %d] (≤ MAX_PREFIX_BONUS) to the score" % ub)
                    else:
                        ctx.violation(key, site(cs, x, si), "prefix preference adds %s, which is not bounded by MAX_PREFIX_BONUS = %d" % (show(val)[:100], mpb))
            tx = cs.blocks[x]["term"]
            if tx["k"] == "call" and not tx["dest"]["p"] and tx["dest"]["l"] == score_l:
                c = callee(tx)
                if "saturating_add" in c:
                    ub = bd.bound(cs.expr_of_operand(tx["args"][1]), x)
                    adds += 1
                    if ub is not None and ub <= mpb:
                        ctx.ok(site(cs, x), "prefix preference adds (saturating) a value in [0, %d]" % ub)
                    else:
                        ctx.violation("score::<impl Matcher>::calculate_score|prefix-add|sat", site(cs, x), "prefix preference adds an unbounded value")
                else:
                    ctx.violation("score::<impl Matcher>::calculate_score|prefix-op|1", site(cs, x), "with prefer_prefix the score is passed through %s" % c)
        if adds == 0:
            ctx.violation("score::<impl Matcher>::calculate_score|prefix-add|0", site(cs, bi), "prefer_prefix branch adds nothing to the score")
        # false edge: nothing touches score
        ft = [b_ for v, b_ in t["arms"] if v == 0][0]
        fregion = [x for x in cs.reach_from(ft) if cs.must_pass(x, via_edges=[(bi, ft)])]
        touched = any(s["k"] == "assign" and s["lhs"]["l"] == score_l for x in fregion for s in cs.blocks[x]["stmts"])
        if touched:
            ctx.violation("score::<impl Matcher>::calculate_score|no-prefix|1", site(cs, ft), "score modified on the prefer_prefix == false edge")
        else:
            ctx.ok(site(cs, ft), "prefer_prefix == false leaves the score untouched")
    # setup: the prefix_bonus argument of score_row
    st = get_fn(facts, M, "fuzzy_optimal::<impl matrix::MatcherDataView<'_, H>>::setup")
    sr = [(bi, t) for bi, t in st.calls(lambda t: callee(t).endswith("::score_row"))]
    if len(sr) != 1:
        raise Inconclusive("setup: expected one score_row call")
    bi, t = sr[0]
    # the prefix bonus is the parameter of score_row called `prefix_bonus` (the last one in the tree as it is)
    srb = facts.body(M, "fuzzy_optimal::<impl matrix::MatcherDataView<'_, H>>::score_row")
    pidx = None
    if srb is not None:
        srf = fn_of(srb)
        for l_ in range(1, srf.arg_count + 1):
            if srf.names.get(l_) == "prefix_bonus":
                pidx = l_ - 1
    if pidx is None or pidx >= len(t["args"]):
        raise Inconclusive("score_row no longer takes a `prefix_bonus` parameter: how setup hands the prefix bonus to the first row is not decided by this rule")
    pb = st.expr_of_operand(t["args"][pidx])
    bds = Bounds(ctx, st, 0)
    if pb[0] != "local":
        ctx.violation("setup|prefix-bonus|shape", site(st, bi), "prefix bonus passed to score_row is %s" % show(pb))
    else:
        okall = True
        for dbi, dsi, e in st.def_exprs(pb[1], at=bi):
            gs = guards_of(st, dbi)
            pp = [g for g in gs if g[3][0] == "field" and g[3][2] == "prefer_prefix"]
            ub = bds.bound(e, dbi)
            if pp and all(g[2] == [0] for g in pp):
                if not (e[0] == "const" and e[1] == 0):
                    okall = False
                    ctx.violation("setup|prefix-bonus|off", site(st, dbi, dsi), "prefix bonus is %s with prefer_prefix off (must be 0: the preference must not change scores when disabled)" % show(e))
            else:
                if ub is None or ub > mpb * scale:
                    okall = False
                    ctx.violation("setup|prefix-bonus|bound", site(st, dbi, dsi), "prefix bonus %s is not bounded by MAX_PREFIX_BONUS × PREFIX_BONUS_SCALE = %d" % (show(e)[:100], mpb * scale))
        if okall:
            ctx.ok(site(st, bi), "first-row prefix bonus is 0 when disabled and within [0, MAX_PREFIX_BONUS·SCALE] when enabled")
    # score_row only ever adds prefix_bonus / SCALE
    srf = get_fn(facts, M, "fuzzy_optimal::<impl matrix::MatcherDataView<'_, H>>::score_row")
    uses = 0
    bad = 0
    for bi2 in sorted(srf.live):
        tt = srf.blocks[bi2]["term"]
        if tt["k"] == "assert" and tt.get("kind") == "Overflow" and tt["op"] == "Add":
            b_ = srf.expr_of_operand(tt["b"])
            if any(x[0] in ("arg", "local") and x[2] == "prefix_bonus" for x in walk(b_)):
                uses += 1
                if not (b_[0] == "bin" and b_[1] == "Div"):
                    bad += 1
    if uses and not bad:
        ctx.ok(site(srf, 0), "score_row adds prefix_bonus / PREFIX_BONUS_SCALE to first-row cells (%d sites)" % uses)
    elif uses:
        ctx.violation("score_row|prefix-use|1", site(srf, 0), "prefix bonus enters the first-row score other than as `+ prefix_bonus / SCALE`")
    else:
        ctx.note("score_row does not use prefix_bonus in an addition")



def rule_cell_equations(ctx):
    """The two cell-update functions of the DP are the documented two-matrix affine-gap recurrence:
         P' = max(M − gap_start, P − gap_extension)   with the back-pointer set iff the M branch wins strictly
         M' = max(M + max(consecutive, bonus), P + bonus) + SCORE_MATCH, continuing the run iff it wins strictly,
              a run that (re)starts carries its own first bonus.
    Decision tables are extracted from MIR (loop-free bodies, values symbolic, comparisons as a finite
    set of orderings); nothing is executed."""
    from cfg import decision_paths
    from common import canon, cond_truth, relation, flip
    facts = ctx.facts
    C = lambda name: ("const", facts.const(M, name)["value"])
    SM, GS, GE, BC, BB = C("score::SCORE_MATCH"), C("score::PENALTY_GAP_START"), C("score::PENALTY_GAP_EXTENSION"), C("score::BONUS_CONSECUTIVE"), C("score::BONUS_BOUNDARY")

    def add(*xs):
        e = xs[0]
        for x in xs[1:]:
            a, b = sorted((e, x), key=repr)
            e = ("bin", "Add", a, b)
        return e

    def flat_add(e):
        """multiset of addends"""
        if isinstance(e, tuple) and e and e[0] == "bin" and e[1] == "Add":
            return flat_add(e[2]) + flat_add(e[3])
        return [e]

    def same_sum(a, b):
        return sorted(map(repr, flat_add(a))) == sorted(map(repr, flat_add(b)))

    # ---------------- p_score
    ps = get_fn(facts, M, "fuzzy_optimal::p_score")
    prev_p, prev_m = ("arg", 1), ("arg", 2)
    sm = ("call", "saturating_sub", (prev_m, GS))
    ss = ("call", "saturating_sub", (prev_p, GE))
    paths = _expand_selectors(facts, ps, decision_paths(ps))
    ctx.floor("decision paths of p_score", len(paths), 1)
    for conds, res in paths:
        orderings = {"lt", "eq", "gt"}   # of sm vs ss
        for c in conds:
            r = relation(c)
            if r is None:
                continue
            a, b, st = r
            if (a, b) == (sm, ss):
                orderings &= st
            elif (a, b) == (ss, sm):
                orderings &= {flip(x) for x in st}
            else:
                ctx.fail_closed("p_score branches on %s, which is not a comparison of (M − gap_start) with (P − gap_extension)" % show(c[0])[:100])
        if not orderings:
            continue
        rc = canon(res) if res else None
        if not rc or rc[0] != "tuple" or len(rc[1]) != 2:
            ctx.fail_closed("p_score does not return a (score, flag) pair")
            continue
        score_e, flag_e = rc[1]
        for o in sorted(orderings):
            key = "fuzzy_optimal::p_score|%s" % o
            # flag / score: any expression over the two candidates built from max, min and comparisons is a function
            # of their ordering alone: evaluate it on one representative pair per ordering
            rep = {"gt": (2, 1), "eq": (1, 1), "lt": (1, 2)}[o]

            def num(e_):
                if e_ == sm:
                    return rep[0]
                if e_ == ss:
                    return rep[1]
                if e_[0] == "const" and isinstance(e_[1], (int, bool)):
                    return int(e_[1])
                if e_[0] == "call" and e_[1] in ("max", "min") and len(e_[2]) == 2:
                    a_, b_ = num(e_[2][0]), num(e_[2][1])
                    return None if a_ is None or b_ is None else (max(a_, b_) if e_[1] == "max" else min(a_, b_))
                if e_[0] == "bin" and e_[1] in ("Gt", "Ge", "Lt", "Le", "Eq", "Ne"):
                    a_, b_ = num(e_[2]), num(e_[3])
                    if a_ is None or b_ is None:
                        return None
                    return int({"Gt": a_ > b_, "Ge": a_ >= b_, "Lt": a_ < b_, "Le": a_ <= b_, "Eq": a_ == b_, "Ne": a_ != b_}[e_[1]])
                if e_[0] == "un" and e_[1] == "Not":
                    a_ = num(e_[2])
                    return None if a_ is None else int(not a_)
                return None
            fv = num(flag_e)
            if fv is None:
                ctx.fail_closed("p_score: back-pointer flag %s not evaluable" % repr(flag_e)[:80])
                continue
            flag = bool(fv)
            sv = num(score_e)
            want_flag = (o == "gt")
            okscore = sv is not None and sv == max(rep)
            rel_txt = {"lt": "<", "eq": "==", "gt": ">"}[o]
            if flag != want_flag:
                ctx.violation(key + "|backpointer", site(ps, 0),
                              "when (M − gap_start) %s (P − gap_extension) the back-pointer says `came from M` = %s; it must be set exactly when the M branch wins strictly — on a tie (both 0 after a long gap: the unmatched sentinel also scores 0) the path reconstruction would follow a cell that is no match and report an index of a non-matching character" % (rel_txt, flag))
            elif not okscore:
                ctx.violation(key + "|score", site(ps, 0), "when (M − gap_start) %s (P − gap_extension) p_score returns %s" % (rel_txt, repr(score_e)[:80]))
            else:
                ctx.ok(site(ps, 0), "(M − gap_start) %s (P − gap_extension): score = max of the two, back-pointer = %s" % (rel_txt, flag))

    # ---------------- next_m_cell
    nm = get_fn(facts, M, "fuzzy_optimal::next_m_cell")
    pscore, bonus, mcell = ("arg", 1), ("arg", 2), ("arg", 3)
    consec = ("call", "max", tuple(sorted((("field", mcell, "consecutive_bonus"), BC), key=repr)))
    mscore = ("field", mcell, "score")
    skip_sum = add(pscore, bonus)
    paths = _expand_selectors(facts, nm, decision_paths(nm))
    ctx.floor("decision paths of next_m_cell", len(paths), 3)
    for conds, res in paths:
        rc = canon(res) if res else None
        if not rc or rc[0] != "agg" or not rc[1].endswith("ScoreCell"):
            ctx.fail_closed("next_m_cell does not return a ScoreCell literal on every path")
            continue
        f = dict(rc[2])
        unmatched = None
        ge_boundary = gt_consec = None
        win = None   # orderings of score_match vs score_skip
        for c in conds:
            e, chosen, allv = c
            t = cond_truth(chosen, allv)
            ce = canon(e)
            if ce[0] == "call" and ce[1] in ("eq", "ne") and any(x == mcell for x in ce[2]):
                unmatched = t if ce[1] == "eq" else (not t)
                continue
            r = relation(c)
            if r is None:
                ctx.fail_closed("next_m_cell branches on %s" % show(e)[:90])
                continue
            a, b, st = r
            if {a, b} == {bonus, BB}:
                st2 = st if a == bonus else {flip(x) for x in st}
                ge_boundary = st2 <= {"gt", "eq"} if st2 <= {"gt", "eq"} or st2 <= {"lt"} else None
                if st2 <= {"lt"}:
                    ge_boundary = False
            elif {a, b} == {bonus, consec}:
                st2 = st if a == bonus else {flip(x) for x in st}
                gt_consec = True if st2 <= {"gt"} else (False if st2 <= {"lt", "eq"} else None)
            else:
                # score_match vs score_skip (a summand that both sides share -- `+ SCORE_MATCH` -- does not change
                # the comparison: u16 additions that would overflow panic on both paths alike)
                sa, sb = flat_add(a), flat_add(b)
                ra, rb = list(sa), []
                for x_ in sb:
                    hit = [y_ for y_ in ra if repr(y_) == repr(x_)]
                    if hit:
                        ra.remove(hit[0])
                    else:
                        rb.append(x_)
                if ra and rb and (len(ra) < len(sa)):
                    a = add(*ra) if len(ra) > 1 else ra[0]
                    b = add(*rb) if len(rb) > 1 else rb[0]
                    sa, sb = ra, rb
                is_skip = lambda x: same_sum(x, skip_sum)
                if is_skip(b) and mscore in flat_add(a):
                    win = (a, st)
                elif is_skip(a) and mscore in flat_add(b):
                    win = (b, {flip(x) for x in st})
                else:
                    ctx.fail_closed("next_m_cell compares %s with %s" % (repr(a)[:60], repr(b)[:60]))
        key = "fuzzy_optimal::next_m_cell|%s" % ("unmatched" if unmatched else ("match-wins" if f.get("matched") == ("const", 1) else "skip-wins"))
        matched = f.get("matched")
        cbf = f.get("consecutive_bonus")
        scf = f.get("score")
        if unmatched:
            good = matched == ("const", 0) and cbf == bonus and same_sum(scf, add(pscore, bonus, SM))
            if good:
                ctx.ok(site(nm, 0), "previous M cell unmatched ⇒ new run: score = P + bonus + SCORE_MATCH, carries its own bonus")
            else:
                ctx.violation(key, site(nm, 0), "after an unmatched M cell the new cell is %s" % repr(f)[:160])
            continue
        def judge(f, win, key=key, ge_boundary=ge_boundary, gt_consec=gt_consec):
            matched = f.get("matched")
            cbf = f.get("consecutive_bonus")
            scf = f.get("score")
            match_expr, st = win
            # which consecutive bonus does this path use?
            cb_used = bonus if (ge_boundary and gt_consec) else consec
            want_match_sum = add(mscore, ("call", "max", tuple(sorted((cb_used, bonus), key=repr))))
            if cb_used == bonus:
                alt = add(mscore, ("call", "max", (bonus, bonus)))
            else:
                alt = want_match_sum
            if not (same_sum(match_expr, want_match_sum) or same_sum(match_expr, alt)):
                ctx.violation(key + "|match-sum", site(nm, 0), "the value of continuing the run is %s; the recurrence says M + max(consecutive bonus, bonus) with consecutive bonus = %s on this path" % (repr(match_expr)[:120], "bonus (a boundary bonus above the run's)" if cb_used == bonus else "max(run's bonus, BONUS_CONSECUTIVE)"))
                return
            if matched == ("const", 1):
                if not st <= {"gt"}:
                    ctx.violation(key + "|strict", site(nm, 0), "the run is continued (matched = true) also when restarting it scores the same or better (%s)" % sorted(st))
                elif cbf != cb_used:
                    ctx.violation(key + "|carried-bonus", site(nm, 0), "a continued run must carry its consecutive bonus (%s), the cell stores %s" % (repr(cb_used)[:70], repr(cbf)[:70]))
                elif not same_sum(scf, add(match_expr, SM)):
                    ctx.violation(key + "|score", site(nm, 0), "continued run scores %s" % repr(scf)[:100])
                else:
                    ctx.ok(site(nm, 0), "run continues (strictly better): score = M + max(consecutive, bonus) + SCORE_MATCH, consecutive bonus carried (%s)" % ("boundary bonus" if cb_used == bonus else "run's bonus"))
            elif matched == ("const", 0):
                if not st <= {"lt", "eq"}:
                    ctx.violation(key + "|strict", site(nm, 0), "the run is restarted although continuing it scores more")
                elif cbf != bonus:
                    ctx.violation(key + "|carried-bonus", site(nm, 0),
                                  "a run that restarts after a gap must carry the bonus of its own first character; the cell stores %s — the following consecutive characters inherit a bonus that belongs to the discarded alignment (scores above the true optimum or below the recurrence)" % repr(cbf)[:80])
                elif not same_sum(scf, add(pscore, bonus, SM)):
                    ctx.violation(key + "|score", site(nm, 0), "restarted run scores %s" % repr(scf)[:100])
                else:
                    ctx.ok(site(nm, 0), "run restarts (gap wins or ties): score = P + bonus + SCORE_MATCH, carries its own bonus")
            else:
                ctx.fail_closed("next_m_cell: matched flag %s not constant on a path" % repr(matched))

        def is_skip(x):
            return same_sum(x, skip_sum)
        # branch-free forms: the comparison of the two candidates sits inside the fields (`max(a, b)`, `a > b` as a
        # value).  Such a field is a function of the ordering of the two candidates: split on it and judge each case.
        cands = [win[0]] if win is not None else []
        for v in f.values():
            for x in walk(v):
                pr = None
                if x[0] == "call" and x[1] in ("max", "min") and len(x[2]) == 2:
                    pr = (x[2][0], x[2][1])
                elif x[0] == "bin" and x[1] in ("Gt", "Ge", "Lt", "Le", "Eq", "Ne"):
                    pr = (x[2], x[3])
                if pr:
                    for m_, s_ in (pr, pr[::-1]):
                        if is_skip(s_) and mscore in flat_add(m_):
                            cands.append(m_)
        if not cands or any(repr(c_) != repr(cands[0]) for c_ in cands):
            ctx.fail_closed("next_m_cell: a path does not compare continuing the run with restarting it")
            continue
        m_e = cands[0]

        def under(e, o):
            if not isinstance(e, tuple) or not e:
                return e
            if e[0] == "call" and e[1] in ("max", "min") and len(e[2]) == 2 and any(repr(x) == repr(m_e) for x in e[2]) and any(is_skip(x) for x in e[2]):
                other = [x for x in e[2] if repr(x) != repr(m_e)][0]
                big = m_e if o == "gt" else other
                small = other if o == "gt" else m_e
                return big if e[1] == "max" else small
            if e[0] == "bin" and e[1] in ("Gt", "Ge", "Lt", "Le", "Eq", "Ne") and ((repr(e[2]) == repr(m_e) and is_skip(e[3])) or (repr(e[3]) == repr(m_e) and is_skip(e[2]))):
                oo = o if repr(e[2]) == repr(m_e) else flip(o)
                val = {"Gt": oo == "gt", "Ge": oo in ("gt", "eq"), "Lt": oo == "lt", "Le": oo in ("lt", "eq"), "Eq": oo == "eq", "Ne": oo != "eq"}[e[1]]
                return ("const", int(val))
            return tuple(under(x, o) if isinstance(x, tuple) else x for x in e)
        for o in ("gt", "eq", "lt"):
            if win is not None and o not in win[1]:
                continue
            f2 = {k_: canon(under(v_, o)) if isinstance(v_, tuple) else v_ for k_, v_ in f.items()}
            k2 = "fuzzy_optimal::next_m_cell|%s" % ("match-wins" if f2.get("matched") == ("const", 1) else "skip-wins")
            judge(f2, (m_e, {o}), key=k2)


def _expand_selectors(facts, fn, paths):
    """`max_by_key(a, b, |x| x.k)` / `min_by_key` / `max_by` … select one of two candidates by comparing a key: replace
    a path whose result is such a call by one path per outcome, with the comparison as an extra (virtual) condition.
    std: max_by_key returns the SECOND argument when the keys are equal, min_by_key the FIRST."""
    from cfg import decision_paths as _dp
    out = []
    for conds, res in paths:
        r = strip_casts(res) if res is not None else None
        if r is not None and r[0] == "call" and str(r[1]).rsplit("::", 1)[-1] in ("max_by_key", "min_by_key") and len(r[2]) == 3 and r[2][2][0] == "closure":
            kf = get_fn(facts, fn.b["crate"], r[2][2][1])
            kp = _dp(kf)
            proj = None
            if len(kp) == 1 and not kp[0][0] and kp[0][1] is not None:
                k = strip_casts(kp[0][1])
                chain = []
                while k[0] in ("field", "deref", "ref", "downcast"):
                    if k[0] == "field":
                        chain.append(k[2])
                    k = k[1]
                if k[0] == "arg" and k[1] == 2 and len(chain) == 1:
                    proj = chain[0]
            if proj is None:
                out.append((conds, res))
                continue

            def key_of(c):
                c = strip_casts(c)
                if c[0] == "tuple" and proj.isdigit() and int(proj) < len(c[1]):
                    return c[1][int(proj)]
                if c[0] == "agg" and isinstance(c[2], dict) and proj in c[2]:
                    return c[2][proj]
                return ("field", c, proj)
            a, b_ = r[2][0], r[2][1]
            ka, kb = key_of(a), key_of(b_)
            is_max = str(r[1]).endswith("max_by_key")
            # max: a iff key(a) > key(b);  min: b iff key(b) < key(a)  (ties: max -> b, min -> a)
            cmp_ = ("bin", "Gt", ka, kb, "u16")
            if is_max:
                out.append((conds + [(cmp_, None, [0])], a))
                out.append((conds + [(cmp_, 0, [0])], b_))
            else:
                out.append((conds + [(cmp_, None, [0])], b_))
                out.append((conds + [(cmp_, 0, [0])], a))
            continue
        out.append((conds, res))
    return out


def rule_prefix_decay(ctx):
    """`prefer_prefix`: the bonus a first-needle-character match receives shrinks with its distance from the start of
    the haystack, so the loop-carried prefix bonus has to shrink on EVERY column of the first row, whether the column
    matches or not.  (Decayed only on matching columns, a late occurrence keeps the bonus of an early one and the matrix
    score exceeds every real alignment's score.)  Path rule: no way from the loop header to the back edge without the
    decay -- directly or through a `&mut` handed to a folded-in helper."""
    facts = ctx.facts
    fn = get_fn(facts, M, "fuzzy_optimal::<impl matrix::MatcherDataView<'_, H>>::score_row")
    cands = [l for l in range(1, len(fn.b["locals"])) if fn.names.get(l) == "prefix_bonus" and fn.b["locals"][l]["ty"] == "u16"]
    # the bonus may also be carried in a field of a cursor/state struct (`state.prefix_bonus`)
    def has_field(pl):
        return pl is not None and any(isinstance(e, dict) and e.get("name") == "prefix_bonus" for e in pl["p"])
    f_decay, f_reads = set(), set()
    for bi in sorted(fn.live):
        for s_ in fn.blocks[bi]["stmts"]:
            if s_.get("k") != "assign":
                continue
            rv = s_["rv"]
            ops = [rv[k] for k in ("use", "cast", "a", "b", "repeat") if isinstance(rv.get(k), dict)] + list(rv.get("ops", []))
            if any(has_field(op_place(o)) for o in ops) or any(has_field(rv.get(k)) for k in ("ref", "rawptr") if isinstance(rv.get(k), dict)):
                f_reads.add(bi)
            if has_field(s_["lhs"]) and isinstance(s_["lhs"]["p"][-1], dict) and s_["lhs"]["p"][-1].get("name") == "prefix_bonus":
                if any(x[0] == "call" and "saturating_sub" in str(x[1]) for x in walk(fn.expr_of_rvalue(rv))):
                    f_decay.add(bi)
        t = fn.blocks[bi]["term"]
        if t["k"] == "call":
            if any(has_field(op_place(a)) for a in t["args"]):
                f_reads.add(bi)
            if has_field(t["dest"]) and "saturating_sub" in callee(t):
                f_decay.add(bi)
    if not cands and not f_reads and not f_decay:
        raise Inconclusive("score_row: no u16 local or struct field named prefix_bonus")
    # the by-value parameter of a folded-in helper is a per-column copy of the loop-carried bonus, not a bonus of its own
    def is_copy(l):
        ds = fn.defs.get(l, [])
        if not ds:
            return False
        for bi, si, kind, rv in ds:
            if kind != "assign" or not isinstance(rv.get("use"), dict):
                return False
            e = strip_casts(fn.expr_of_rvalue(rv))
            if e[0] not in ("arg", "local") or e[1] not in cands or e[1] == l:
                return False
        return True
    cands = [l for l in cands if not is_copy(l)]
    # a carrier is state: a `mut` binding (or parameter); an immutable `let prefix_bonus = carrier / SCALE` is a derived value
    cands = [l for l in cands if fn.b["locals"][l].get("mut") or l <= fn.arg_count and len(fn.defs.get(l, [])) > 1]
    n = 0
    carriers = [("local", L) for L in cands] + ([("field", None)] if (f_reads or f_decay) else [])
    for ckind, L in carriers:
        refs = set()
        if ckind == "field":
            decay = set(f_decay)
            n = _prefix_decay_loops(ctx, fn, n, decay, lambda body: any(b_ in body for b_ in f_reads))
            continue
        for bi in sorted(fn.live):
            for s_ in fn.blocks[bi]["stmts"]:
                if s_.get("k") == "assign" and "ref" in s_["rv"] and s_["rv"].get("mut") and s_["rv"]["ref"]["l"] == L and not s_["rv"]["ref"]["p"] and not s_["lhs"]["p"]:
                    refs.add(s_["lhs"]["l"])
        # locals that are copies of such a reference (parameter of a folded-in helper)
        for _ in range(3):
            for bi in sorted(fn.live):
                for s_ in fn.blocks[bi]["stmts"]:
                    if s_.get("k") == "assign" and isinstance(s_["rv"].get("use"), dict) and not s_["lhs"]["p"]:
                        pl = s_["rv"]["use"].get("move") or s_["rv"]["use"].get("copy")
                        if pl is not None and not pl["p"] and pl["l"] in refs:
                            refs.add(s_["lhs"]["l"])
                    if s_.get("k") == "assign" and "ref" in s_["rv"] and not s_["lhs"]["p"] and s_["rv"]["ref"]["l"] in refs and s_["rv"]["ref"]["p"] == ["deref"]:
                        refs.add(s_["lhs"]["l"])        # reborrow `&mut *r`
        decay = set()
        reads = set()
        for bi in sorted(fn.live):
            for s_ in fn.blocks[bi]["stmts"]:
                if s_.get("k") != "assign":
                    continue
                direct = s_["lhs"]["l"] == L and not s_["lhs"]["p"]
                through = s_["lhs"]["l"] in refs and s_["lhs"]["p"] == ["deref"]
                if direct or through:
                    e = fn.expr_of_rvalue(s_["rv"])
                    if any(x[0] == "call" and "saturating_sub" in str(x[1]) for x in walk(e)):
                        decay.add(bi)
            t = fn.blocks[bi]["term"]
            if t["k"] == "call" and t["dest"]["l"] == L and "saturating_sub" in callee(t):
                decay.add(bi)
            if t["k"] == "call" and "saturating_sub" in callee(t) and t["dest"]["p"] == ["deref"] and t["dest"]["l"] in refs:
                decay.add(bi)
        n = _prefix_decay_loops(ctx, fn, n, decay, lambda body: any((u[1] in body) for u in uses_of_local(fn, L)) or any(any(u[1] in body for u in uses_of_local(fn, r_)) for r_ in refs))
    ctx.floor("first-row column loops that use the prefix bonus", n, 1)


def _prefix_decay_loops(ctx, fn, n, decay, uses_in):
    if True:
        for h, body, srcs in fn.loops():
            if not uses_in(body):
                continue
            n += 1
            key = "%s|prefix-decay|%d" % (fn.path, n)
            inside = [d for d in decay if d in body]
            if not inside:
                ctx.violation(key, site(fn, h), "the prefix bonus is read in this column loop but never decayed in it")
                continue
            # columns of later rows (FIRST_ROW == false) neither read nor decay the bonus
            later_rows = []
            for bi in body:
                t_ = fn.blocks[bi]["term"]
                if t_["k"] == "switch" and "FIRST_ROW" in show(fn.expr_of_operand(t_["discr"])):
                    later_rows += [(bi, bb) for v, bb in t_["arms"] if v == 0]
            r = fn.reach_from(h, removed_nodes=set(inside), removed_edges=set(later_rows))
            stale = [s_ for s_ in srcs if s_ in r and s_ in body]
            if not later_rows and stale:
                # no FIRST_ROW test in this loop: the loop may serve later rows only through an earlier test
                pass
            if stale:
                ctx.violation(key, site(fn, stale[0]),
                              "a column of the first row can be passed without decaying the prefix bonus (the decay sits behind an early exit for non-matching columns): a late "
                              "occurrence of needle[0] keeps the bonus of an earlier column, and the matrix score exceeds the score of every real alignment")
            else:
                ctx.ok(site(fn, h), "prefix bonus decays (saturating_sub) on every path through a column of the first row")
    return n


def rule_slab_choice(ctx):
    facts = ctx.facts
    fmo = get_fn(facts, M, "fuzzy_optimal::<impl Matcher>::fuzzy_match_optimal")
    gr = [(bi, t) for bi, t in fmo.calls(lambda t: callee(t).endswith("::fuzzy_match_greedy_"))]
    if not gr:
        ctx.note("no greedy fallback in fuzzy_match_optimal")
        ctx.ok(site(fmo, 0), "no greedy fallback")
        return
    for bi, t in gr:
        gs = guards_of(fmo, bi)
        alloc_none = [g for g in gs if g[3][0] == "discr" and any(x[0] == "call" and str(x[1]).endswith("MatrixSlab::alloc") for x in walk(g[3]))]
        others = [g for g in gs if g not in alloc_none]
        # which greedy entry is used may depend on the representation constants, and the walk over the needle in front
        # of it may say None: neither makes the fallback more frequent than `the slab was refused`
        others = [g for g in others if not (g[3][0] in ("const", "constx") and "ASCII" in str(g[3][1]))
                  and not (g[3][0] == "discr" and any(x[0] == "call" and str(x[1]).endswith("Try>::branch") for x in walk(g[3])))]
        if alloc_none and all(g[2] != [1] for g in alloc_none) and not others:
            ctx.ok(site(fmo, bi), "greedy fallback taken only when the slab allocation is refused")
        else:
            ctx.violation("fuzzy_match_optimal|greedy-fallback|1", site(fmo, bi), "greedy fallback is taken under conditions other than `slab.alloc(..) == None`: %s" % [show(g[3])[:60] for g in others])


def rule_prev_class(ctx):
    """`the best occurrence wins` for one-character needles rests on each occurrence's bonus being computed from its
    real neighbour: the loop-carried previous class is updated on every iteration (shared with C03.prev-class)."""
    from props.c03 import rule_prev_class as r
    r(ctx)


def rule_live_config(ctx):
    """The score is the scheme of the matcher's CURRENT configuration: no routine may read bonus data that was derived
    from the configuration at construction time (shared with C10.config-only-state)."""
    from props.c10 import rule_live_config as r
    r(ctx)


def rule_char_eq_exact(ctx):
    """The optimal score over real alignments rest on `haystack_char == needle_char` being exact code point equality for every pair of character
    types (shared with C01.char-eq-exact)."""
    from props.c01 import rule_char_eq_exact as r
    r(ctx)


def rule_ascii_fold(ctx):
    """The one-character ASCII scanner looks for BOTH cases of a letter; which bytes count as letters is the ASCII fold's
    business: a range that drops a letter (`b'a'..b'z'`) makes the scanner miss the better-placed upper-case occurrence
    of that letter (shared with C16.ascii / C01)."""
    from props.c16 import rule_ascii as r
    r(ctx)


def rule_scan_window(ctx):
    """The optimal score is the maximum over the cells of the LAST row only: cells below the column the last row was
    written from belong to shorter prefixes of the needle or to earlier calls, a maximum that includes them can exceed
    the score of every alignment (shared with C10.scan-window)."""
    from props.c10 import rule_scan_window as r
    r(ctx)


def rules(ctx):
    ctx.run_rule("C04.char-eq-exact", rule_char_eq_exact)
    ctx.run_rule("C04.live-config", rule_live_config)
    ctx.run_rule("C04.prev-class", rule_prev_class)
    ctx.run_rule("C04.early-exit", rule_early_exit)
    ctx.run_rule("C04.prefix-additive", rule_prefix_additive)
    ctx.run_rule("C04.cell-equations", rule_cell_equations)
    ctx.run_rule("C04.slab-choice", rule_slab_choice)
    ctx.run_rule("C04.prefix-decay", rule_prefix_decay)
    ctx.run_rule("C04.scan-window", rule_scan_window)
    ctx.run_rule("C04.ascii-fold", rule_ascii_fold)

#!/usr/bin/env python3
"""Recompute `caught_by` of every kept seed by running all 19 checks on a scratch copy with the patch applied."""
import json, os, re, subprocess, sys
from concurrent.futures import ThreadPoolExecutor
VERIF = os.path.dirname(os.path.dirname(os.path.abspath(__file__)))
def run(sid):
    d = os.path.join(VERIF, "seeded", sid)
    r = subprocess.run([sys.executable, os.path.join(VERIF, "tools", "mut.py"), "ALL", "--patch", os.path.join(d, "patch.diff")], capture_output=True, text=True)
    rules = sorted(set(re.findall(r"violation (C\d\d\.[\w-]+)", r.stdout)))
    return sid, rules
ids = sorted(x for x in os.listdir(os.path.join(VERIF, "seeded")) if os.path.isdir(os.path.join(VERIF, "seeded", x)))
bad = 0
with ThreadPoolExecutor(max_workers=6) as ex:
    for sid, rules in ex.map(run, ids):
        mp = os.path.join(VERIF, "seeded", sid, "meta.json")
        m = json.load(open(mp))
        own = [r for r in rules if r.startswith(m["breaks_property"])]
        if not own:
            bad += 1
            print("NOT REPORTED BY OWN CHECK:", sid, rules)
        m["caught_by"] = rules
        json.dump(m, open(mp, "w"), indent=1, ensure_ascii=False)
print("%d seeds, %d not reported by their own property's check" % (len(ids), bad))

"""C05 — substring, prefix, postfix and exact matching decide the documented relations (structural clauses)."""
from cfg import Inconclusive, Poly, op_place, poly_of, show, walk, strip_casts
from common import (calls_to, callee, callee_names, closure_creations, closure_consumer, field_chain, fn_of,
                    get_fn, head_sources, peel, site, guards_of, ret_aggregates, uses_of_local, is_diverging)

PROP = "C05"
LEVEL = "other"
UNDECIDED = [
    "the relations themselves (contiguous occurrence, leftmost best-bonus occurrence, anchored equality) over all inputs",
]
ASSUMPTIONS = [
    "memchr / memchr2 report every occurrence of the byte(s) they are given inside the slice they are given; memmem::Finder::find reports the leftmost occurrence "
    "(memmem::find_iter reports NON-overlapping occurrences only: C05.candidates-complete)",
]
M = "nucleo_matcher"

SEARCH_1 = ("memchr::memchr", "memchr::memchr2", "memchr::memrchr", "memchr::memrchr2")
SEARCH_NEW = ("Memchr::<'h>::new", "Memchr2::<'h>::new", "Memchr::new", "Memchr2::new")
PASS = ("[T]>::iter", "Iterator::enumerate", "IntoIterator::into_iter", "::into_iter", "Iterator::rev", "Iterator::copied", "Iterator::by_ref",
        "Iterator::zip", "Iterator::cloned", "Iterator::peekable")


def root_of(e):
    e = peel(e)
    while isinstance(e, tuple) and e and e[0] in ("field", "downcast", "index", "cindex", "subslice"):
        e = peel(e[1])
    if isinstance(e, tuple) and e and e[0] in ("arg", "local"):
        return (e[0], e[1])
    return None


def len_atomizer(fn, at_bb, hay_root=None):
    """Atoms: h = length of the slice being windowed (identified by identity, not by name),
    n = length of the other string parameter."""
    def atomize(e):
        e = strip_casts(e)
        if e[0] == "call" and (str(e[1]).endswith("[T]>::len") or str(e[1]).endswith("Utf32Str::<'a>::len")):
            r = root_of(e[2][0])
            if r is None:
                return None
            if r[0] == "local":
                ds = fn.reaching_defs(r[1], at_bb)
                if not (len(ds) == 1 and ds[0][2] == "arg") and len(fn.defs.get(r[1], [])) > 1:
                    return "?reassigned:_%d" % r[1]
            if hay_root is not None:
                return "h" if r == hay_root else "n"
            nm = fn.names.get(r[1]) or ""
            return "h" if "haystack" in nm else ("n" if "needle" in nm else None)
        if e[0] in ("arg", "local") and e[2]:
            if e[0] == "local" and len(fn.defs.get(e[1], [])) > 1:
                return None
            return "var:" + e[2]
        # the index of the first a..z letter of the needle: (needle.iter().position(..) as Some).0
        if e[0] == "field" and e[2] == "0" and peel(e[1])[0] == "downcast":
            inner = peel(peel(e[1])[1])
            if inner[0] == "call" and str(inner[1]).endswith("::position"):
                return "first_letter_pos"
            if inner[0] == "local":
                # `let first = if cond { needle.iter().position(..) } else { None }`: the Some payload can only be
                # the position (a None definition has no payload)
                ds = [d for _, _, d in fn.def_exprs(inner[1])]
                pos = [d for d in ds if d[0] == "call" and str(d[1]).endswith("::position")]
                rest = [d for d in ds if d not in pos and not (d[0] == "agg" and str(d[1]).endswith("Option::None"))]
                if pos and not rest:
                    return "first_letter_pos"
        return None
    return atomize


def follow_consumers(fn, local, depth=0, seen=None):
    """Where does a slice value end up? returns list of (kind, bb, term) with kind in
    search1 / searchnew / memmem / position / forloop / verify / other."""
    seen = seen if seen is not None else set()
    if local in seen or depth > 12:
        return []
    seen.add(local)
    out = []
    for u in uses_of_local(fn, local):
        if u[0] == "stmt":
            s = u[3]
            if not s["lhs"]["p"] and ("use" in s["rv"] or "ref" in s["rv"] or "cast" in s["rv"]):
                out += follow_consumers(fn, s["lhs"]["l"], depth + 1, seen)
            elif not s["lhs"]["p"] and s["rv"].get("agg") == "adt":
                # `Finder { finder: memmem::Finder::new(pat), haystack: <this slice>, .. }`: a hand-written literal finder
                ops_e = [fn.expr_of_operand(o) for o in s["rv"].get("ops", [])]
                fnew = [x for e_ in ops_e for x in walk(e_) if x[0] == "call" and "memmem::Finder" in str(x[1]) and str(x[1]).endswith("::new")]
                if fnew:
                    t_ = {"k": "call", "fn": "memchr::memmem::find_iter", "resolved": "memchr::memmem::find_iter", "args": [], "dest": s["lhs"], "synthetic": True,
                          "pattern_expr": fnew[0][2][0]}
                    out.append(("memmem", u[1], t_))
            continue
        if u[2]["k"] != "call":
            continue
        t = u[2]
        c = callee(t)
        f = t.get("fn") or ""
        pos = u[3]
        if any(c == x or f == x for x in SEARCH_1) or c in ("prefilter::find_ascii_ignore_case", "prefilter::find_ascii_ignore_case_rev"):
            out.append(("search1", u[1], t))
        elif any(c.endswith(x) or f.endswith(x) for x in SEARCH_NEW):
            out.append(("searchnew", u[1], t))
        elif c.endswith("memmem::find_iter") or f.endswith("memmem::find_iter") or c.endswith("memmem::find") or f.endswith("memmem::find") or c.endswith("::find_overlapping"):
            out.append(("memmem" if pos == "arg0" else "memmem-pattern", u[1], t))
        elif "memmem::Finder" in c and c.endswith("::new"):
            out.append(("memmem-pattern", u[1], t))
        elif c.endswith("Iterator::position") or f.endswith("Iterator::position") or c.endswith("::position"):
            out.append(("position", u[1], t))
        elif f.endswith("Iterator::eq") or f.endswith("Iterator::map") and False:
            out.append(("verify", u[1], t))
        elif f.endswith("Iterator::map") or c.endswith("Iterator::map"):
            sub = follow_consumers(fn, t["dest"]["l"], depth + 1, seen) if not t["dest"]["p"] else []
            out += sub if sub else [("other", u[1], t)]
        elif f.endswith("Iterator::next") or c.endswith("::next"):
            out.append(("forloop", u[1], t))
        elif any(c.endswith(x) or f.endswith(x) for x in PASS) or c.endswith("Deref>::deref") or f.endswith("Deref::deref"):
            if not t["dest"]["p"]:
                out += follow_consumers(fn, t["dest"]["l"], depth + 1, seen)
        elif f.endswith("PartialEq::eq") or f.endswith("PartialEq::ne"):
            out.append(("verify", u[1], t))
        else:
            out.append(("other", u[1], t))
    return out


def windows(fn):
    """Candidate-start windows: slices `X[..E]` / `X[a..E]` that are the haystack argument of a search
    (memchr-like: last argument; memmem: first argument) or are scanned by position()/a for loop.
    -> (bb, term, end_expr, consumers, start, root of X)"""
    out = []
    for bi, t in fn.calls(lambda t: "ops::Index" in (t.get("fn") or "") and callee(t).endswith("::index")):
        base = fn.expr_of_operand(t["args"][0])
        r = fn.expr_of_operand(t["args"][1])
        if r[0] != "agg" or not (r[1].endswith("RangeTo::RangeTo") or r[1].endswith("Range::Range")):
            continue
        end = r[2].get("end")
        if end is None or t["dest"]["p"]:
            continue
        cons = follow_consumers(fn, t["dest"]["l"])
        # a slice used only as the *pattern* of memmem (second argument) is not a window
        if cons and all(k == "memmem-pattern" for k, _, _ in cons):
            continue
        out.append((bi, t, end, [c for c in cons if c[0] != "memmem-pattern"], r[2].get("start"), root_of(base)))
    return out


def rule_window(ctx, only=None):
    facts = ctx.facts
    n = 0
    for b in facts.bodies_of(M):
        if not (b["path"].startswith("exact::") or b["path"].startswith("prefilter::")):
            continue
        if only and b["path"] not in only:
            continue
        if b.get("kind") == "Closure" and any(h == b["path"] for _, _, h in getattr(facts, "inlined", [])):
            continue        # a local closure whose calls were folded into its parent: judged there
        fn = fn_of(b)
        k = 0
        for bi, t, end, cons, start, hroot in windows(fn):
            kinds = set(c[0] for c in cons)
            if kinds <= {"verify"} and kinds:
                continue  # verification slice haystack[i+p .. i+n], not a candidate window
            k += 1
            # counted per search served: one window value hoisted in front of several branches still serves each search
            n += max(1, len([c for c in cons if c[0] in ("search1", "searchnew", "position", "forloop", "memmem")]))
            key = "%s|window|%d" % (fn.path, k)
            at = len_atomizer(fn, bi, hroot)
            E = poly_of(end, at)
            h, nn = Poly.atom("h"), Poly.atom("n")
            # prefix length searched
            P = None
            why = None
            for kind, cb, ct in cons:
                if kind in ("search1", "searchnew", "position", "forloop"):
                    p = Poly.const(1)
                    w = kind
                elif kind == "memmem":
                    pat = ct["pattern_expr"] if ct.get("synthetic") else fn.expr_of_operand(ct["args"][1])
                    pp = peel(pat)
                    # needle (whole) or needle[..len]
                    if pp[0] in ("arg", "local") and root_of(pp) != hroot:
                        p = nn
                        w = "memmem over the whole needle"
                    elif pp[0] == "call" and str(pp[1]).endswith("::index"):
                        rr = pp[2][1]
                        if rr[0] == "agg" and rr[1].endswith("RangeTo::RangeTo"):
                            p = poly_of(rr[2]["end"], at)
                            w = "memmem over needle[..%s]" % show(rr[2]["end"])
                        else:
                            p = None
                            w = "memmem over %s" % show(pat)
                    else:
                        p = None
                        w = "memmem over %s" % show(pat)
                else:
                    continue
                if p is None:
                    P = None
                    why = w
                    break
                if P is not None and P != p:
                    P = None
                    why = "inconsistent consumers"
                    break
                P, why = p, w
            if P is None:
                ctx.fail_closed("cannot determine what is searched in the window at %s (%s; consumers %s)" % (site(fn, bi), why, sorted(kinds)))
                continue
            want = h - nn + P
            if E.has_opaque():
                ctx.fail_closed("window end at %s is not affine in len(haystack), len(needle): %s" % (site(fn, bi), E))
                continue
            if E == want:
                ctx.ok(site(fn, bi), "candidate window ends at len(h) − len(n) + %s (%s)" % (P, why))
            else:
                ctx.violation(key, site(fn, bi),
                              "candidate window ends at %s but the search (%s) locates a prefix of length %s, so the exclusive end must be %s: %s" % (
                                  E, why, P, want,
                                  "occurrences ending at the last haystack position are never tried" if len((want - E).t) and list((want - E).t.values())[0] > 0 else "the scan can start too late to fit the needle"))
    if only is None:
        ctx.floor("searches over a candidate window in exact.rs / prefilter.rs", n, 7)
    else:
        ctx.floor("searches over a candidate window in the fuzzy prefilters", n, 3)


def rule_prefilter_arms(ctx):
    facts = ctx.facts
    fn = get_fn(facts, M, "exact::<impl Matcher>::substring_match_ascii")
    calls = [(bi, t) for bi, t in fn.calls(lambda t: callee(t).endswith("::substring_match_ascii_with_prefilter"))]
    ctx.floor("calls of substring_match_ascii_with_prefilter", len(calls), 3)
    k = 0
    for bi, t in calls:
        k += 1
        key = "%s|prefilter-arm|%d" % (fn.path, k)
        hay_root = root_of(fn.expr_of_operand(t["args"][1]))
        needle_root = root_of(fn.expr_of_operand(t["args"][2]))
        at = len_atomizer(fn, bi, hay_root)
        P = poly_of(fn.expr_of_operand(t["args"][3]), at)
        it = fn.expr_of_operand(t["args"][4])
        problems = []
        if it[0] == "agg":
            fcalls = [x for v_ in it[2].values() for x in walk(v_) if x[0] == "call" and "memmem::Finder" in str(x[1]) and str(x[1]).endswith("::new")]
            slices = [v_ for v_ in it[2].values() if any(x[0] == "call" and str(x[1]).endswith("::index") for x in walk(v_)) and not any(x[0] == "call" and "memmem::Finder" in str(x[1]) for x in walk(v_))]
            if len(fcalls) == 1 and len(slices) == 1:
                it = ("call", "exact::find_overlapping", (slices[0], fcalls[0][2][0]), "exact::find_overlapping", fcalls[0][4])
        if it[0] != "call":
            ctx.fail_closed("prefilter iterator at %s is not a direct constructor call" % site(fn, bi))
            continue
        c = str(it[1])
        if c.endswith("Memchr2::<'h>::new") or c.endswith("Memchr::<'h>::new") or c.endswith("Memchr2::new") or c.endswith("Memchr::new"):
            byte = strip_casts(it[2][0])
            okb = byte[0] == "index" and root_of(byte[1]) == needle_root and byte[2][0] == "const" and byte[2][1] == 0
            okb = okb or (byte[0] == "cindex" and root_of(byte[1]) == needle_root and byte[2] == 0 and not byte[3])
            if not okb:
                problems.append("searches byte %s, not needle[0]" % show(byte))
            if P != Poly.const(1):
                problems.append("prefilter_len is %s but a single byte is located" % P)
        elif c.endswith("memmem::find_iter") or c.endswith("::find_overlapping"):
            pat = peel(it[2][1])
            if pat[0] == "call" and str(pat[1]).endswith("::index") and pat[2][1][0] == "agg" and pat[2][1][1].endswith("RangeTo::RangeTo") and root_of(pat[2][0]) == needle_root:
                plen = poly_of(pat[2][1][2]["end"], at)
            elif pat[0] in ("arg", "local") and root_of(pat) == needle_root:
                plen = Poly.atom("n")
            else:
                plen = None
            if plen is None:
                problems.append("cannot resolve the memmem pattern %s" % show(pat))
            elif plen != P:
                problems.append("memmem locates a needle prefix of length %s but prefilter_len is %s (the callee then verifies needle[%s..] case-insensitively and skips the rest: occurrences that differ in case inside the located part are lost)" % (plen, P, P))
        else:
            problems.append("unknown prefilter %s" % c)
        if problems:
            ctx.violation(key, site(fn, bi), "; ".join(problems))
        else:
            ctx.ok(site(fn, bi), "prefilter locates needle[..%s], callee verifies the rest" % P)
    # callee verifies needle[prefilter_len..] against haystack[i + prefilter_len .. i + len(n)]
    cf = get_fn(facts, M, "exact::<impl Matcher>::substring_match_ascii_with_prefilter")
    okv = False
    for bi, t in cf.calls(lambda t: str(t.get("fn")).endswith("Iterator::eq")):
        a = cf.expr_of_operand(t["args"][0])
        b = cf.expr_of_operand(t["args"][1])
        # left: haystack[i + prefilter_len ..]; right: needle[prefilter_len..]
        def uses_arg(e, idx):
            return any(x[0] == "arg" and x[1] == idx for x in walk(e)) or any(x[0] == "local" and any(y[0] == "arg" and y[1] == idx for _, _, d in cf.def_exprs(x[1]) for y in walk(d)) for x in walk(e))
        left_ok = uses_arg(a, 2) and uses_arg(a, 4)
        right_ok = uses_arg(b, 3) and uses_arg(b, 4) and any(x[0] == "agg" and x[1].endswith("RangeFrom::RangeFrom") for x in walk(b) if isinstance(x, tuple)) or \
            (uses_arg(b, 3) and uses_arg(b, 4))
        if left_ok and right_ok:
            okv = True
    if okv:
        ctx.ok(site(cf, 0), "callee compares haystack[i + prefilter_len ..] with needle[prefilter_len..]")
    else:
        ctx.violation(cf.path + "|verify|1", site(cf, 0), "callee does not verify needle[prefilter_len..] at i + prefilter_len")


def rule_trim_guards(ctx):
    """exact / prefix / postfix: the window handed to exact_match_impl, per decision path, as a polynomial in
    h = len(haystack), n = len(needle), LWS/TWS = leading/trailing whitespace of the haystack; whitespace is
    skipped exactly when the needle does not itself begin/end with whitespace.  Parameters are taken by position
    (haystack, needle); helpers new to the inventory are inlined; `?`, let-else, if-expressions, early returns and
    named locals all reduce to the same per-path values."""
    from cfg import decision_paths
    facts = ctx.facts
    spec = {
        "exact": (True, True), "prefix": (True, False), "postfix": (False, True),
    }
    HAY, NEE = 2, 3

    def arg_of(x):
        x = peel(x)
        while x[0] in ("ref", "deref", "cast"):
            x = peel(x[2] if x[0] == "cast" else x[1])
        return x[1] if x[0] == "arg" else None

    def atomize(e):
        e = strip_casts(e)
        if e[0] == "call" and str(e[1]).endswith("Utf32Str::<'a>::len"):
            a_ = arg_of(e[2][0])
            return "h" if a_ == HAY else ("n" if a_ == NEE else None)
        if e[0] == "call" and str(e[1]).endswith("::leading_white_space"):
            return "LWS" if arg_of(e[2][0]) == HAY else "?lws(other)"
        if e[0] == "call" and str(e[1]).endswith("::trailing_white_space"):
            return "TWS" if arg_of(e[2][0]) == HAY else "?tws(other)"
        return None

    def ws_cond(d):
        """is_whitespace(needle.first()/last()) -> 'first' / 'last'"""
        d = strip_casts(d)
        if d[0] == "call" and str(d[1]).endswith("is_whitespace"):
            inner = peel(d[2][0])
            if inner[0] == "call" and arg_of(inner[2][0]) == NEE:
                if str(inner[1]).endswith("::first"):
                    return "first"
                if str(inner[1]).endswith("::last"):
                    return "last"
        return None

    for kind, (lead, trail) in spec.items():
        for suffix in ("_match", "_indices"):
            name = "Matcher::%s%s" % (kind, suffix)
            fn = get_fn(facts, M, name)
            key = name + "|trim"
            problems = []
            # empty needle exit dominates first()/last()
            for bi, t in fn.calls(lambda t: callee(t).endswith("Utf32Str::<'a>::first") or callee(t).endswith("Utf32Str::<'a>::last")):
                gs = guards_of(fn, bi)
                if not any(g[3][0] == "call" and str(g[3][1]).endswith("is_empty") and g[2] == [0] for g in gs):
                    problems.append("needle.first()/last() reachable with an empty needle (panics)")
            paths = [(c_, r_, k_) for c_, r_, k_ in decision_paths(fn, with_calls=True) if any(str(x[0]).endswith("::exact_match_impl") for x in k_)]
            if not paths:
                problems.append("no path reaches exact_match_impl")
            h, n_ = Poly.atom("h"), Poly.atom("n")
            for conds, res, calls in paths:
                impl = [x for x in calls if str(x[0]).endswith("::exact_match_impl")]
                if len(impl) != 1:
                    problems.append("expected one exact_match_impl call per path")
                    break
                cargs = impl[0][2]
                ws = {}
                for d, chosen, allv in conds:
                    w = ws_cond(d)
                    neg = False
                    dd = strip_casts(d)
                    while w is None and dd[0] == "un" and dd[1] == "Not":
                        dd = strip_casts(dd[2])
                        neg = not neg
                        w = ws_cond(dd)
                    if w is not None:
                        truth = (chosen != 0) if chosen is not None else True
                        ws[w] = truth != neg
                s_ = poly_of(cargs[3], atomize)
                e_ = poly_of(cargs[4], atomize)
                # the skipped amounts on this path
                if lead and "first" not in ws:
                    problems.append("leading whitespace handling does not depend on `needle.first().is_whitespace()` on some path")
                    break
                if trail and "last" not in ws:
                    problems.append("trailing whitespace handling does not depend on `needle.last().is_whitespace()` on some path")
                    break
                L = (Poly.const(0) if ws.get("first") else Poly.atom("LWS")) if lead else Poly.const(0)
                T = (Poly.const(0) if ws.get("last") else Poly.atom("TWS")) if trail else Poly.const(0)
                want = {"exact": (L, h - T), "prefix": (L, n_ + L), "postfix": (h - n_ - T, h - T)}[kind]
                if (s_, e_) != want:
                    problems.append("bounds passed to exact_match_impl are (%s, %s), expected (%s, %s) when the needle %s with whitespace"
                                    % (s_, e_, want[0], want[1], ", ".join("%s %s" % ("starts" if k_ == "first" else "ends", "" if v_ else "not") for k_, v_ in sorted(ws.items())) or "—"))
                    break
                if arg_of(cargs[1]) != HAY or arg_of(cargs[2]) != NEE:
                    problems.append("exact_match_impl is not called with (haystack, needle)")
                    break
            if problems:
                ctx.violation(key, site(fn, 0), "; ".join(problems))
            else:
                ctx.ok(site(fn, 0), "%s%s: trims and bounds as documented on all %d path(s) to exact_match_impl" % (kind, suffix, len(paths)))
    # exact_match_impl rejects unless len(needle) == end - start
    em = get_fn(facts, M, "Matcher::exact_match_impl")
    okl = False
    t0 = em.blocks[0]["term"]
    for bi in sorted(em.live):
        t = em.blocks[bi]["term"]
        if t["k"] == "switch":
            e = em.expr_of_operand(t["discr"])
            if e[0] == "bin" and e[1] == "Ne" and "needle" in show(e[2]) and e[3][0] in ("bin", "checked") and e[3][1] == "Sub":
                okl = True
            break
    if okl:
        ctx.ok(site(em, 0), "exact_match_impl first checks len(needle) == end − start")
    else:
        ctx.violation("Matcher::exact_match_impl|length-check|1", site(em, 0), "exact_match_impl does not start with the `needle.len() != end - start ⇒ None` check")


def rule_repr_only(ctx):
    from props.c01 import rule_repr_only as r
    r(ctx, only=("Matcher::substring_match_impl", "Matcher::exact_match_impl"), floor=2)


def rule_exact_compare(ctx):
    """All comparing arms of exact_match_impl / substring scanners normalize the haystack side."""
    from props.c01 import normalized, config_atom, rule_norm_route
    # every single-character comparison with the needle in these bodies too (early-outs, first/last character tests)
    rule_norm_route(ctx, only=("Matcher::exact_match_impl", "exact::<impl Matcher>::"), floor=3)
    facts = ctx.facts
    n = 0
    for name in ("Matcher::exact_match_impl", "exact::<impl Matcher>::substring_match_non_ascii", "exact::<impl Matcher>::substring_match_ascii_with_prefilter"):
        fn = get_fn(facts, M, name)
        for bi, t in fn.calls(lambda t: str(t.get("fn")).endswith("Iterator::eq")):
            n += 1
            a = fn.expr_of_operand(t["args"][0])
            how = normalized(facts, fn, a)
            if how:
                ctx.ok(site(fn, bi), "haystack window normalized (%s) before the element-wise comparison" % how)
            else:
                ctx.violation("%s|iter-eq|%d" % (name, n), site(fn, bi), "element-wise comparison of a raw haystack window: %s" % show(a)[:120])
        # the same comparison spelled element by element: zip(window, needle).all(|(h, n)| f(h) == g(n)) / !any(.. != ..)
        for bi, t in fn.calls(lambda t: str(t.get("fn")).endswith("Iterator::all") or str(t.get("fn")).endswith("Iterator::any")):
            recv = fn.expr_of_operand(t["args"][0])
            z = [x for x in walk(recv) if x[0] == "call" and str(x[1]).endswith("Iterator::zip") and len(x[2]) == 2]
            clo = fn.expr_of_operand(t["args"][1])
            if not z or clo[0] != "closure":
                continue
            sides = ["haystack" if any(y[0] in ("arg", "local") and y[2] and "haystack" in y[2] for y in walk(a_)) else
                     "needle" if any(y[0] in ("arg", "local") and y[2] and "needle" in y[2] for y in walk(a_)) else None for a_ in z[0][2]]
            if sorted(x or "" for x in sides) != ["haystack", "needle"]:
                continue
            n += 1
            hs = sides.index("haystack")
            key = "%s|zip-compare|%d" % (name, n)
            pre = normalized(facts, fn, z[0][2][hs])
            if pre:
                ctx.ok(site(fn, bi), "haystack window normalized (%s) before it is zipped with the needle" % pre)
                continue
            cf = get_fn(facts, M, clo[1])
            cmps = [(cb, si, s_) for cb, si, s_ in cf.stmts(lambda s_: s_["k"] == "assign" and s_["rv"].get("bin") in ("Eq", "Ne"))] + \
                   [(cb, None, ct) for cb, ct in cf.calls(lambda ct: str(ct.get("fn")).endswith("PartialEq::eq") or str(ct.get("fn")).endswith("PartialEq::ne"))]
            if not cmps:
                ctx.fail_closed("%s: the closure of the element-wise comparison at %s contains no comparison" % (name, site(fn, bi)))
                continue
            for cb, si, s_ in cmps:
                ops = [cf.expr_of_operand(o) for o in ((s_["rv"]["a"], s_["rv"]["b"]) if si is not None else s_["args"][:2])]
                hop = [o for o in ops if any(y[0] == "field" and y[2] == str(hs) and peel(y[1])[0] == "arg" and peel(y[1])[1] == 2 for y in walk(o))]
                if len(hop) != 1:
                    ctx.fail_closed("%s: cannot tell the haystack operand of the comparison in %s" % (name, cf.path))
                    continue
                how = normalized(facts, cf, hop[0])
                if how:
                    ctx.ok(site(cf, cb, si), "haystack element normalized (%s) inside the element-wise comparison of the zipped window" % how)
                else:
                    ctx.violation(key, site(cf, cb, si), "element-wise comparison of a raw haystack element: %s" % show(hop[0])[:120])
    ctx.floor("element-wise window comparisons", n, 5)


def rule_best_bonus(ctx):
    """`the occurrence whose first character earns the highest bonus`: the bonus must be computed
    from the haystack's own characters (shared rule with C03)."""
    from props.c03 import rule_bonus_args
    rule_bonus_args(ctx)


def rule_result_source(ctx):
    """The substring verdict is the substring scanners' verdict: every value substring_match_impl returns is produced by
    one of them (or by the exact matcher for equal lengths, or is the trivial None / Some(0)).  A short cut through
    another relation's matcher (prefix, postfix, fuzzy) reports that relation's occurrence and score: for prefix_match
    that is an occurrence behind leading whitespace, which need not be the one with the highest first-character bonus."""
    from cfg import decision_paths
    fn = get_fn(ctx.facts, M, "Matcher::substring_match_impl")
    allowed = ("::substring_match_1_ascii", "::substring_match_ascii", "::substring_match_1_non_ascii", "::substring_match_non_ascii",
               "::substring_match_ascii_with_prefilter", "::exact_match_impl", "::prefilter_non_ascii", "::prefilter_ascii")
    paths = decision_paths(fn)
    ctx.floor("decision paths of substring_match_impl", len(paths), 6)
    bad = {}
    for conds, res in paths:
        if res is None:
            continue
        for x in walk(res):
            if x[0] == "call" and ("Matcher>::" in str(x[1]) or str(x[1]).startswith("Matcher::")) and not any(str(x[1]).endswith(a) or (a + "::<") in str(x[1]) for a in allowed):
                bad[str(x[1])] = x
    if bad:
        for nm in sorted(bad):
            ctx.violation("Matcher::substring_match_impl|result-source|%s" % nm.rsplit("::", 1)[-1], site(fn, 0),
                          "substring_match_impl returns a value produced by %s: the occurrence and score of another relation are reported as the substring result "
                          "(with match_paths, \" src/src\" / \"src\": the occurrence behind the blank scores 80, the one behind `/` 84)" % nm)
    else:
        ctx.ok(site(fn, 0), "every returned value comes from the substring scanners / the exact matcher / a trivial verdict (%d paths)" % len(paths))


def rule_char_eq_exact(ctx):
    """The occurrences of the needle rest on `haystack_char == needle_char` being exact code point equality for every pair of character
    types (shared with C01.char-eq-exact)."""
    from props.c01 import rule_char_eq_exact as r
    r(ctx)


def rule_candidates_complete(ctx):
    """The substring scanners look at CANDIDATE positions only; an occurrence of the needle that is not among the
    candidates does not exist for them.  Candidate finders that enumerate every position (memchr / memchr2 over single
    bytes, an iterator over all positions) are complete.  `memchr::memmem::find_iter` is not: it yields non-overlapping
    occurrences only -- the search resumes BEHIND the previous occurrence -- so a candidate that starts inside an
    earlier candidate is skipped ("---b" / "--b": the prefix "--" is found at 0, never at 1; "ba a a" / "a a": the
    occurrence behind the blank is never scored).  No body of the matcher crate may take its candidates from
    memmem::find_iter / Finder::find_iter / FindIter with a pattern longer than one byte."""
    facts = ctx.facts
    n = 0
    bad = 0
    for b in facts.bodies_of(M):
        fn = fn_of(b)
        for bi, t in fn.calls(lambda t: "memmem" in callee(t) and callee(t).rsplit("::", 1)[-1] in ("find_iter", "rfind_iter")):
            n += 1
            pat = fn.expr_of_operand(t["args"][-1]) if t.get("args") else None
            # a one-byte pattern cannot overlap itself
            one = False
            if pat is not None:
                for x in walk(pat):
                    if x[0] == "agg" and str(x[1]).endswith("RangeTo::RangeTo") and strip_casts(x[2].get("end", ("?",)))[:2] == ("const", 1):
                        one = True
            if one:
                ctx.ok(site(fn, bi), "memmem::find_iter with a one-byte pattern (occurrences cannot overlap)")
                continue
            bad += 1
            ctx.violation("%s|candidates|find_iter|%d" % (fn.path, bad), site(fn, bi),
                          "candidate positions come from memmem::find_iter, which yields NON-overlapping occurrences only: an occurrence of the needle (or of its literal prefix) that "
                          "starts inside an earlier candidate is never examined -- substring_match(\"---b\", \"--b\") finds nothing, \"ba a a\" / \"a a\" reports the worse-placed occurrence")
    # the complete finders in use
    fins = 0
    for b in facts.bodies_of(M):
        if not b["path"].lstrip("<").startswith("exact::"):
            continue
        fn = fn_of(b)
        for bi, t in fn.calls(lambda t: any(k in callee(t) for k in ("Memchr::<", "Memchr2::<", "Memchr::new", "Memchr2::new", "memmem::Finder", "::find_overlapping"))):
            fins += 1
    ctx.floor("candidate finders of the substring scanners", fins + n, 3)
    if not bad:
        ctx.ok("crate nucleo_matcher", "no candidate iterator that skips overlapping occurrences (%d memmem::find_iter call(s), all with one-byte patterns)" % n)


def rules(ctx):
    ctx.run_rule("C05.char-eq-exact", rule_char_eq_exact)
    ctx.run_rule("C05.result-source", rule_result_source)
    ctx.run_rule("C05.candidates-complete", rule_candidates_complete)
    ctx.run_rule("C05.window", rule_window)
    ctx.run_rule("C05.best-bonus", rule_best_bonus)
    ctx.run_rule("C05.prefilter-arms", rule_prefilter_arms)
    ctx.run_rule("C05.trim-guards", rule_trim_guards)
    ctx.run_rule("C05.repr-only", rule_repr_only)
    ctx.run_rule("C05.exact-compare", rule_exact_compare)

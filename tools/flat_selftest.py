#!/usr/bin/env python3
"""Self-test of the re-architected-tick fallback (rules/ticktrace.py) in forced mode: the flattened-tick path analysis
is run on every recorded variant, whatever its shape.  Behaviour-preserving variants must give no protocol violation
(and should give no trace difference); breaking variants of the tick rules should give a violation of the same rule,
or at least a trace difference (INCONCLUSIVE), never `equal to the reference`."""
import json, os, shutil, subprocess, sys, tempfile
from concurrent.futures import ThreadPoolExecutor
VERIF = os.path.dirname(os.path.dirname(os.path.abspath(__file__)))
sys.path.insert(0, os.path.join(VERIF, "rules")); sys.path.insert(0, os.path.join(VERIF, "rules", "props")); sys.path.insert(0, os.path.join(VERIF, "tools"))
import engine
from facts import Facts
from battery import apply_edits
import ticktrace

SCRATCH = "/root/scratch"


def variants():
    out = []
    for v in json.load(open(os.path.join(VERIF, "battery", "benign.json"))):
        out.append(("benign", v["id"], v, []))
    for v in json.load(open(os.path.join(VERIF, "battery", "mutants.json"))):
        ex = [e for e in v["expect"] if e in engine.TICK_RULES]
        if ex:
            out.append(("mutant", v["id"], v, ex))
    sdir = os.path.join(VERIF, "seeded")
    for sid in sorted(os.listdir(sdir)):
        mp = os.path.join(sdir, sid, "meta.json")
        if os.path.exists(mp):
            meta = json.load(open(mp))
            ex = [c for c in meta.get("caught_by", []) if c in engine.TICK_RULES]
            if ex:
                out.append(("seed", sid, {"abs_patch": os.path.join(sdir, sid, "patch.diff")}, ex))
    return out


def run(a):
    kind, vid, v, ex = a
    d = tempfile.mkdtemp(prefix="flat.", dir=SCRATCH)
    try:
        subprocess.check_call(["rsync", "-a", "--exclude", "target", "--exclude", ".git", "/repo/", d + "/"])
        patch = v.get("abs_patch") or (os.path.join(VERIF, "battery", v["patch"]) if "patch" in v else None)
        if patch:
            r = subprocess.run(["patch", "-p1", "-s", "-f", "-i", patch], cwd=d, capture_output=True, text=True)
            if r.returncode != 0:
                return kind, vid, ex, "n/a", "", 0
        else:
            err = apply_edits(d, v["edits"])
            if err:
                return kind, vid, ex, "n/a", err, 0
        if v.get("fmt"):
            subprocess.run(["cargo", "fmt", "--all", "--", "--config", v["fmt"]], cwd=d, capture_output=True)
        import re
        props = sorted(set(e.split(".")[0] for e in ex)) or ["C06", "C12", "C13", "C19", "C20"]
        env = dict(os.environ, NUCLEO_REPO=d, VERIF_EVIDENCE_DIR=os.path.join(d, ".evidence"), VERIF_TIER="quick", VERIF_TICK_FLAT="1")
        vio, inc, rcs = set(), set(), []
        for pr in props:
            r = subprocess.run([sys.executable, os.path.join(VERIF, "rules", "run.py"), pr, "--tier", "quick"], env=env, capture_output=True, text=True)
            rcs.append(r.returncode)
            vio |= set(re.findall(r"violation (C\d\d\.[\w-]+)", r.stdout))
            inc |= set(re.findall(r"INCONCLUSIVE (C\d\d\.[\w-]+)", r.stdout))
        status = "VIOL" if vio else ("DIFF" if inc else ("EQUAL" if all(c == 0 for c in rcs) else "ERROR"))
        return kind, vid, ex, status, "%s inconclusive=%s" % (sorted(vio), sorted(inc)), 0
    finally:
        shutil.rmtree(d, ignore_errors=True)


def main():
    only = sys.argv[1] if len(sys.argv) > 1 else None
    todo = [x for x in variants() if not only or only in x[1] or only == x[0]]
    bad = 0
    with ThreadPoolExecutor(max_workers=12) as ex:
        for kind, vid, exp, status, msg, nd in ex.map(run, todo):
            if kind == "benign":
                good = status in ("EQUAL", "n/a")
            else:
                good = status == "VIOL" and any(e.split(".")[0] in msg for e in exp)
            weak = (kind != "benign" and status in ("DIFF", "VIOL") and not good)
            tag = "ok" if good else ("weak" if weak else "BAD")
            if tag != "ok":
                bad += 1
            print("%-4s %-7s %-52s %-6s %s %s" % (tag, kind, vid, status, exp if exp else "", msg[:260]))
    print("flat selftest: %d variants, %d not as hoped" % (len(todo), bad))


if __name__ == "__main__":
    main()

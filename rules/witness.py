"""Engine D: compile_fail / no_run doctest pairs, built against the tree under analysis."""
import json
import os
import re
import shutil
import subprocess
import tempfile

from cfg import Inconclusive
from engine import CACHE, REPO, VERIF


def run_all(tree_key):
    """Returns {struct name: {'fail': [ok bools], 'twin': [ok bools]}} (cached per tree)."""
    cdir = os.path.join(CACHE, tree_key or "nokey")
    cfile = os.path.join(cdir, "witness.json")
    if tree_key and os.path.exists(cfile):
        return json.load(open(cfile)), True
    os.makedirs("/root/scratch", exist_ok=True)
    d = tempfile.mkdtemp(prefix="witness.", dir="/root/scratch")
    try:
        os.makedirs(os.path.join(d, "src"))
        shutil.copy(os.path.join(VERIF, "witness", "src", "lib.rs"), os.path.join(d, "src", "lib.rs"))
        with open(os.path.join(d, "Cargo.toml"), "w") as f:
            f.write('[package]\nname = "nucleo-witness"\nversion = "0.0.0"\nedition = "2021"\npublish = false\n\n[workspace]\n\n[dependencies]\nnucleo = { path = "%s" }\n' % REPO)
        lock = os.path.join(REPO, "Cargo.lock")
        if os.path.exists(lock):
            shutil.copy(lock, os.path.join(d, "Cargo.lock"))
        env = dict(os.environ, CARGO_NET_OFFLINE="true", CARGO_TARGET_DIR=os.path.join(d, "target"))
        r = subprocess.run(["cargo", "+nightly", "test", "--doc", "--offline"], cwd=d, env=env, capture_output=True, text=True)
        out = r.stdout + r.stderr
        res = {}
        for m in re.finditer(r"^test src/lib\.rs - (\w+) \(line (\d+)\) - compile( fail)? \.\.\. (ok|FAILED)", out, re.M):
            name, line, fail, verdict = m.group(1), int(m.group(2)), bool(m.group(3)), m.group(4) == "ok"
            res.setdefault(name, {"fail": [], "twin": []})["fail" if fail else "twin"].append(verdict)
        if not res:
            raise Inconclusive("witness crate did not build/run:\n" + out[-2500:])
        if tree_key and os.path.isdir(cdir):
            json.dump(res, open(cfile, "w"))
        return res, False
    finally:
        shutil.rmtree(d, ignore_errors=True)


def rule(ctx, prefixes, what):
    res, cached = run_all(getattr(ctx, "tree_key", None))
    n = 0
    for name, r in sorted(res.items()):
        if not any(name.startswith(p) for p in prefixes):
            continue
        n += 1
        where = "witness/src/lib.rs (%s)" % name
        twin_ok = bool(r["twin"]) and all(r["twin"])
        if not twin_ok:
            ctx.fail_closed("%s: the compiling twin no longer builds against this tree (API changed?): the witness proves nothing until it is updated" % name)
            continue
        if r["fail"] and all(r["fail"]):
            ctx.ok(where, "%d offending snippet(s) rejected by the type checker with the pinned error code; twin compiles" % len(r["fail"]))
        else:
            ctx.violation("%s|compiles|1" % name, where, "%s: the offending program now type-checks (or fails for a different reason) while its twin compiles — %s" % (name, what))
    ctx.floor("witness pairs", n, 1)

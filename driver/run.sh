#!/bin/bash
# usage: run.sh <repo-dir> <out-dir> [extra cargo args...]
# Runs the nfacts driver over the nucleo workspace at <repo-dir>; writes <out-dir>/{nucleo,nucleo_matcher}.json
set -euo pipefail
REPO=$1; OUT=$2; shift 2
HERE=$(cd "$(dirname "$0")" && pwd)
DRV=$HERE/target/release/nfacts
[ -x "$DRV" ] || { echo "driver not built: run setup" >&2; exit 2; }
mkdir -p "$OUT"
mkdir -p /root/scratch
T=$(mktemp -d /root/scratch/nfacts-tgt.XXXXXX)
trap 'rm -rf "$T"' EXIT
cd "$REPO"
LD_LIBRARY_PATH=$(rustc +nightly --print sysroot)/lib \
RUSTFLAGS="-Zmir-opt-level=0 -Awarnings -Coverflow-checks=on -Cdebug-assertions=off" \
NFACTS_OUT="$OUT" RUSTC_WORKSPACE_WRAPPER="$DRV" CARGO_TARGET_DIR="$T" CARGO_NET_OFFLINE=true \
cargo +nightly check --offline -q -p nucleo -p nucleo-matcher "$@"

"""Engine C: token-level, per-item comparison of src/par_sort.rs with the vendored reference
rayon-1.10.0 src/slice/quicksort.rs, modulo an enumerated cancellation delta."""
import hashlib
import os
import re

KEYWORDS = set("""as break const continue crate else enum extern false fn for if impl in let loop match mod move mut
pub ref return self Self static struct super trait true type unsafe use where while async await dyn""".split())


def lex(src):
    """Rust lexer sufficient for this file family: returns list of (kind, text)."""
    i, n = 0, len(src)
    out = []
    while i < n:
        c = src[i]
        if c.isspace():
            i += 1
            continue
        if src.startswith("//", i):
            j = src.find("\n", i)
            i = n if j < 0 else j
            continue
        if src.startswith("/*", i):
            depth = 1
            i += 2
            while i < n and depth:
                if src.startswith("/*", i):
                    depth += 1
                    i += 2
                elif src.startswith("*/", i):
                    depth -= 1
                    i += 2
                else:
                    i += 1
            continue
        if c == '"':
            j = i + 1
            while j < n and src[j] != '"':
                j += 2 if src[j] == "\\" else 1
            out.append(("str", src[i:j + 1]))
            i = j + 1
            continue
        if c == "'":
            # char literal or lifetime
            m = re.match(r"'(\\.[^']*|[^'\\])'", src[i:])
            if m:
                out.append(("char", m.group(0)))
                i += len(m.group(0))
                continue
            m = re.match(r"'[A-Za-z_][A-Za-z0-9_]*", src[i:])
            if m:
                out.append(("lifetime", m.group(0)))
                i += len(m.group(0))
                continue
        if c.isalpha() or c == "_":
            m = re.match(r"[A-Za-z_][A-Za-z0-9_]*", src[i:])
            out.append(("ident", m.group(0)))
            i += len(m.group(0))
            continue
        if c.isdigit():
            m = re.match(r"[0-9][0-9A-Za-z_]*(\.[0-9][0-9A-Za-z_]*)?", src[i:])
            out.append(("num", m.group(0)))
            i += len(m.group(0))
            continue
        # punctuation: keep `::`, `->`, `=>`, `..` together for readability
        for p in ("::", "->", "=>", "..=", "..", "&&", "||", "==", "!=", "<=", ">=", "+=", "-=", "*=", "/=", "<<", ">>"):
            if src.startswith(p, i):
                out.append(("punct", p))
                i += len(p)
                break
        else:
            out.append(("punct", c))
            i += 1
    return out


def strip_attributes(toks):
    out = []
    i = 0
    while i < len(toks):
        if toks[i][1] == "#" and i + 1 < len(toks) and toks[i + 1][1] in ("[", "!"):
            j = i + 1
            if toks[j][1] == "!":
                j += 1
            depth = 0
            while j < len(toks):
                if toks[j][1] == "[":
                    depth += 1
                elif toks[j][1] == "]":
                    depth -= 1
                    if depth == 0:
                        break
                j += 1
            i = j + 1
            continue
        out.append(toks[i])
        i += 1
    return out


def split_items(toks):
    """Top-level items: {name: tokens}. Nested fns stay inside their parent."""
    items = {}
    order = []
    i = 0
    n = len(toks)
    while i < n:
        start = i
        # find end: first `;` at depth 0 before any `{`, or the matching `}` of the first `{`
        depth = 0
        j = i
        end = None
        while j < n:
            t = toks[j][1]
            if t in ("{", "(", "["):
                depth += 1
            elif t in ("}", ")", "]"):
                depth -= 1
                if depth == 0 and t == "}":
                    end = j
                    break
            elif t == ";" and depth == 0:
                end = j
                break
            j += 1
        if end is None:
            end = n - 1
        item = toks[start:end + 1]
        name = item_name(item)
        if name:
            k = name
            c = 1
            while k in items:
                c += 1
                k = "%s#%d" % (name, c)
            items[k] = item
            order.append(k)
        i = end + 1
    return items, order


def item_name(item):
    texts = [t[1] for t in item]
    i = 0
    while i < len(texts) and texts[i] in ("pub", "(", ")", "crate", "super", "unsafe", "const", "in"):
        i += 1
    if i >= len(texts):
        return None
    k = texts[i]
    if k == "use":
        return None
    if k == "mod":
        return "mod " + texts[i + 1]
    if k == "fn":
        return "fn " + texts[i + 1]
    if k in ("struct", "enum", "trait", "type", "static"):
        return "%s %s" % (k, texts[i + 1])
    if k == "impl":
        # impl<..> [Trait for] Type<..>
        j = i + 1
        if texts[j] == "<":
            d = 0
            while j < len(texts):
                if texts[j] == "<":
                    d += 1
                elif texts[j] == ">":
                    d -= 1
                    if d == 0:
                        break
                j += 1
            j += 1
        names = []
        while j < len(texts) and texts[j] != "{":
            if item[j][0] == "ident" and texts[j] not in KEYWORDS:
                names.append(texts[j])
            if texts[j] == "for":
                names.append("for")
            j += 1
        # keep Trait for Type heads only
        heads = [x for x in names if x[0].isupper() or x == "for"]
        heads = [h for h in heads if h not in ("T", "F")]
        return "impl " + " ".join(heads)
    if texts[0] == "const" or k == "const":
        return "const " + texts[i + 1] if i + 1 < len(texts) else None
    return None


def binders(toks):
    """Identifiers bound locally in an item (params, let/for/closure patterns)."""
    b = []
    texts = [t[1] for t in toks]
    n = len(toks)

    def add(x):
        if x not in b and x not in KEYWORDS and not x[0].isupper():
            b.append(x)

    i = 0
    while i < n:
        t = texts[i]
        if t == "fn" and i + 2 < n:
            # params
            j = i + 2
            if texts[j] == "<":
                d = 0
                while j < n:
                    if texts[j] == "<":
                        d += 1
                    elif texts[j] == ">":
                        d -= 1
                        if d == 0:
                            break
                    j += 1
                j += 1
            if j < n and texts[j] == "(":
                d = 0
                k = j
                while k < n:
                    if texts[k] in ("(", "[", "<"):
                        d += 1
                    elif texts[k] in (")", "]", ">"):
                        d -= 1
                        if d == 0 and texts[k] == ")":
                            break
                    elif toks[k][0] == "ident" and d == 1 and k + 1 < n and texts[k + 1] == ":":
                        add(texts[k])
                    k += 1
        elif t in ("let", "for"):
            j = i + 1
            d = 0
            while j < n:
                x = texts[j]
                if x in ("(", "["):
                    d += 1
                elif x in (")", "]"):
                    d -= 1
                elif d == 0 and (x in ("=", ":", ";") or (t == "for" and x == "in")):
                    break
                elif toks[j][0] == "ident" and x not in KEYWORDS and not (j + 1 < n and texts[j + 1] in ("(", "::", "{")):
                    add(x)
                j += 1
        elif t == "|" and i > 0 and texts[i - 1] in ("=", "(", ",", "move", "{", "return"):
            j = i + 1
            while j < n and texts[j] != "|":
                if toks[j][0] == "ident" and texts[j] not in KEYWORDS and not (j > 0 and texts[j - 1] in (":", "&", "<", "::")) or \
                        (toks[j][0] == "ident" and texts[j] not in KEYWORDS and texts[j - 1] in ("|", ",", "mut", "(")):
                    if texts[j - 1] in ("|", ",", "mut", "("):
                        add(texts[j])
                j += 1
            i = j
        i += 1
    return b


def alpha(toks):
    bs = binders(toks)
    m = {x: "v%d" % k for k, x in enumerate(bs)}
    out = []
    texts = [t[1] for t in toks]
    for i, (k, x) in enumerate(toks):
        if k == "ident" and x in m:
            prev = texts[i - 1] if i else ""
            nxt = texts[i + 1] if i + 1 < len(toks) else ""
            if prev in (".", "::") and not (prev == "." and False):
                out.append(x)  # field / method / path segment
            elif nxt == "::":
                out.append(x)
            else:
                out.append(m[x])
        else:
            out.append(x)
    return out


def parse_uses(toks):
    """Top-level `use` declarations -> {local name: [full, path, segments]} (handles groups, `self`, `as`)."""
    out = {}
    texts = [t[1] for t in toks]
    i, n = 0, len(texts)
    depth = 0
    while i < n:
        t = texts[i]
        if t in ("{", "(", "["):
            depth += 1
        elif t in ("}", ")", "]"):
            depth -= 1
        if t == "use" and depth == 0:
            j = i + 1
            while j < n and texts[j] != ";":
                j += 1
            _use_tree(texts[i + 1:j], [], out)
            i = j
        i += 1
    return out


def _use_tree(tx, prefix, out):
    # tx: tokens of one use tree (without `use` and `;`)
    if not tx:
        return
    if "{" in tx:
        k = tx.index("{")
        head = [x for x in tx[:k] if x != "::"]
        # split the group at top-level commas
        d = 0
        cur = []
        parts = []
        for x in tx[k + 1:]:
            if x == "{":
                d += 1
            elif x == "}":
                if d == 0:
                    break
                d -= 1
            if x == "," and d == 0:
                parts.append(cur)
                cur = []
            else:
                cur.append(x)
        if cur:
            parts.append(cur)
        for p_ in parts:
            _use_tree(p_, prefix + head, out)
        return
    segs = [x for x in tx if x != "::"]
    alias = None
    if "as" in segs:
        k = segs.index("as")
        alias = segs[k + 1]
        segs = segs[:k]
    if segs == ["self"]:
        if prefix:
            out[alias or prefix[-1]] = list(prefix)
        return
    if segs and segs[-1] == "*":
        return
    full = prefix + segs
    if full:
        out[alias or full[-1]] = full


def canon_paths(tx, uses, kinds=None):
    """Expand the first segment of every path through the file's `use` map (as the compiler would), so that
    `mem::ManuallyDrop::new`, `ManuallyDrop::new` and `std::mem::ManuallyDrop::new` are one spelling."""
    out = []
    n = len(tx)
    for i, x in enumerate(tx):
        prev = tx[i - 1] if i else ""
        nxt = tx[i + 1] if i + 1 < n else ""
        if x in uses and prev not in (".", "::") and (nxt == "::" or x[0].isupper()) and not (prev in ("fn", "struct", "let", "mut", "for")):
            full = uses[x]
            if full[0] in ("core", "alloc"):
                full = ["std"] + full[1:]
            for k, seg in enumerate(full):
                if k:
                    out.append("::")
                out.append(seg)
        else:
            out.append(x)
    return out


def method_minmax(tx):
    """`A.min(B)` / `A.max(B)`  ->  `Ord::min(A, B)` (receiver = the postfix expression before the dot)."""
    out = list(tx)
    i = 0
    while i < len(out):
        if out[i] == "." and i + 2 < len(out) and out[i + 1] in ("min", "max") and out[i + 2] == "(":
            # scan the receiver backwards: postfix chain of ident / literal / (...) / [...] / .field / path segments
            j = i - 1
            start = None
            while j >= 0:
                t = out[j]
                if t in (")", "]"):
                    d = 0
                    while j >= 0:
                        if out[j] in (")", "]"):
                            d += 1
                        elif out[j] in ("(", "["):
                            d -= 1
                            if d == 0:
                                break
                        j -= 1
                    start = j
                    j -= 1
                    # a call/index is preceded by its callee expression
                    continue
                if re.fullmatch(r"[A-Za-z_][A-Za-z0-9_]*|[0-9][0-9A-Za-z_.]*", t) and t not in KEYWORDS - {"self", "Self"}:
                    start = j
                    if j - 1 >= 0 and out[j - 1] in (".", "::"):
                        j -= 2
                        continue
                    break
                break
            if start is not None:
                recv = out[start:i]
                fn = out[i + 1]
                out[start:i + 3] = ["Ord", "::", fn, "("] + recv + [","]
                i = start + len(recv) + 5
                continue
        i += 1
    return out


def rewrite_aliases(tx):
    """Normalisations applied to BOTH sides."""
    out = []
    i = 0
    n = len(tx)
    while i < n:
        # cmp::min / cmp::max == Ord::min / Ord::max (any qualification)
        if tx[i] == "cmp" and i + 2 < n and tx[i + 1] == "::" and tx[i + 2] in ("min", "max"):
            while len(out) >= 2 and out[-1] == "::" and out[-2] in ("std", "core"):
                out = out[:-2]
            out += ["Ord", "::", tx[i + 2]]
            i += 3
            continue
        if tx[i] == "cmp" and i + 4 < n and tx[i + 1] == "::" and tx[i + 2] == "Ord" and tx[i + 3] == "::" and tx[i + 4] in ("min", "max"):
            while len(out) >= 2 and out[-1] == "::" and out[-2] in ("std", "core"):
                out = out[:-2]
            out += ["Ord", "::", tx[i + 4]]
            i += 5
            continue
        if tx[i] == "rayon" and i + 2 < n and tx[i + 1] == "::" and tx[i + 2] == "join":
            out += ["rayon_core", "::", "join"]
            i += 3
            continue
        # CopyOnDrop::new(A, B) -> CopyOnDrop { src: A, dest: B }
        if tx[i] == "CopyOnDrop" and i + 3 < n and tx[i + 1] == "::" and tx[i + 2] == "new" and tx[i + 3] == "(":
            j = i + 4
            d = 1
            args = [[]]
            while j < n and d:
                if tx[j] in ("(", "[", "{"):
                    d += 1
                elif tx[j] in (")", "]", "}"):
                    d -= 1
                    if d == 0:
                        break
                if tx[j] == "," and d == 1:
                    args.append([])
                else:
                    args[-1].append(tx[j])
                j += 1
            args = [a for a in args if a]
            if len(args) == 2:
                out += ["CopyOnDrop", "{", "src", ":"] + args[0] + [",", "dest", ":"] + args[1] + ["}"]
                i = j + 1
                continue
        # struct literal trailing comma
        if tx[i] == "," and i + 1 < n and tx[i + 1] in ("}", ")", "]"):
            i += 1
            continue
        out.append(tx[i])
        i += 1
    # closure bodies: `|..| { EXPR }` == `|..| EXPR` (rustfmt adds the braces when it wraps)
    out2 = []
    i = 0
    n = len(out)
    skip_close = []
    while i < n:
        if out[i] == "{" and i > 0 and out[i - 1] in ("||", "|"):
            # `|` must close a parameter list (or be the empty `||`)
            d = 0
            j = i
            single = True
            while j < n:
                if out[j] in ("{", "(", "["):
                    d += 1
                elif out[j] in ("}", ")", "]"):
                    d -= 1
                    if d == 0:
                        break
                elif out[j] == ";" and d == 1:
                    single = False
                j += 1
            if single and j < n and out[i + 1] not in ("}",):
                skip_close.append(j)
                i += 1
                continue
        if i in skip_close:
            i += 1
            continue
        out2.append(out[i])
        i += 1
    out = out2
    # unsafe { CopyOnDrop { .. } } -> CopyOnDrop { .. }
    res = []
    i = 0
    n = len(out)
    while i < n:
        if out[i] == "unsafe" and i + 2 < n and out[i + 1] == "{" and out[i + 2] == "CopyOnDrop":
            # find the end of the struct literal, expect a closing brace right after
            j = i + 3
            if out[j] == "{":
                d = 0
                while j < n:
                    if out[j] == "{":
                        d += 1
                    elif out[j] == "}":
                        d -= 1
                        if d == 0:
                            break
                    j += 1
                if j + 1 < n and out[j + 1] == "}":
                    res += out[i + 2:j + 1]
                    i = j + 2
                    continue
        res.append(out[i])
        i += 1
    return res


# the enumerated cancellation delta: rewrites applied to OUR side only; (description, expected count)
def remove_cancel_delta(name, tx):
    """Undo the documented cancellation changes; returns (tokens, {delta_name: count})."""
    counts = {}

    def bump(k, c=1):
        counts[k] = counts.get(k, 0) + c

    s = " ".join(tx)
    if name not in ("fn recurse", "fn par_quicksort"):
        return tx, counts
    # 1. signature
    for pat, k in ((r" , (v\d+) : & (?:std :: sync :: atomic :: )?AtomicBool \) -> bool", "signature: canceled parameter + bool result"),):
        m = re.search(pat, s)
        if m:
            cvar = m.group(1)
            s = s.replace(m.group(0), " )", 1)
            bump(k)
        else:
            cvar = None
    if cvar is None:
        return s.split(" "), counts
    # 2. return false -> return
    c = s.count(" return false ;")
    s = s.replace(" return false ;", " return ;")
    if c:
        bump("return false", c)
    # 3. recursive calls: drop the trailing `, canceled` argument
    c = len(re.findall(r" , %s \)" % cvar, s))
    s = re.sub(r" , %s \)" % cvar, " )", s)
    if c:
        bump("recurse(.., canceled)", c)
    # 4. cancel arm
    ORD = r"(?:std :: sync :: )?(?:atomic :: )?Ordering :: (?:Relaxed|Acquire|SeqCst)"
    arm = r" else if %s \. load \( %s \) \{ break true ; \}" % (cvar, ORD)
    c = len(re.findall(arm, s))
    s = re.sub(arm, "", s)
    if c:
        bump("else if canceled.load(Relaxed) { break true }", c)
    # 5. join result
    m = re.search(r"let \( (v\d+) , (v\d+) \) = rayon_core :: join \(", s)
    if m:
        a, b = m.group(1), m.group(2)
        s = s.replace(m.group(0), "rayon_core :: join (", 1)
        bump("let (canceled1, canceled2) = join(..)")
        br = " break %s | %s ;" % (a, b)
        c = s.count(br)
        s = s.replace(br, " break ;")
        if c:
            bump("break canceled1 | canceled2", c)
    # 6. par_quicksort early return
    early = r" if %s \. load \( %s \) \{ return true ; \}" % (cvar, ORD)
    c = len(re.findall(early, s))
    s = re.sub(early, "", s)
    if c:
        bump("if canceled.load(Relaxed) { return true }", c)
    # 7. tail call returning the result: `recurse ( .. )` as last expression vs `recurse ( .. ) ;`
    if name == "fn par_quicksort":
        if s.endswith(") }") and not s.endswith(") ; }"):
            s = s[:-3] + ") ; }"
            bump("tail expression returns recurse(..)")
    return s.split(" "), counts


EXPECTED_DELTA = {
    "fn recurse": {
        "signature: canceled parameter + bool result": 1,
        "return false": 3,
        "recurse(.., canceled)": 4,
        "else if canceled.load(Relaxed) { break true }": 1,
        "let (canceled1, canceled2) = join(..)": 1,
        "break canceled1 | canceled2": 1,
    },
    "fn par_quicksort": {
        "signature: canceled parameter + bool result": 1,
        "return false": 1,
        "recurse(.., canceled)": 1,
        "if canceled.load(Relaxed) { return true }": 1,
        "tail expression returns recurse(..)": 1,
    },
}

# structural differences of declarations that carry no behaviour (reference has a lifetime + PhantomData)
DECL_DELTA = {
    "struct CopyOnDrop": "reference carries a lifetime parameter and a PhantomData marker; ours stores raw pointers only",
    "impl CopyOnDrop": "reference-only constructor `CopyOnDrop::new` (ours builds the struct literal)",
}


def normalise_decl(name, tx):
    s = " ".join(tx)
    if name == "struct CopyOnDrop":
        s = s.replace("std :: marker :: PhantomData", "PhantomData")
        s = s.replace("< 'a , T >", "< T >").replace(" marker : PhantomData < & 'a mut T > ,", "").replace(" , marker : PhantomData < & 'a mut T >", "")
        s = s.replace(" marker : PhantomData < & 'a mut T >", "")
    if name.startswith("impl Drop for CopyOnDrop"):
        s = s.replace("CopyOnDrop < '_ , T >", "CopyOnDrop < T >")
    # visibility of the entry point
    s = s.replace("pub ( super ) fn par_quicksort", "pub ( crate ) fn par_quicksort")
    return s.split(" ")


def renumber(tx):
    m = {}
    out = []
    for t in tx:
        if re.fullmatch(r"v\d+", t):
            if t not in m:
                m[t] = "w%d" % len(m)
            out.append(m[t])
        else:
            out.append(t)
    return out


def compare(ours_path, ref_path):
    """Returns dict with per-item verdicts."""
    ours_src = open(ours_path, encoding="utf-8").read()
    ref_src = open(ref_path, encoding="utf-8").read()
    o_toks = strip_attributes(lex(ours_src))
    r_toks = strip_attributes(lex(ref_src))
    o_items, o_order = split_items(o_toks)
    r_items, r_order = split_items(r_toks)
    o_uses, r_uses = parse_uses(o_toks), parse_uses(r_toks)
    res = {"items": [], "missing": [], "extra": [], "ours_sha256": hashlib.sha256(ours_src.encode()).hexdigest(),
           "ref_sha256": hashlib.sha256(ref_src.encode()).hexdigest()}
    for name in r_order:
        if name.startswith("mod "):
            continue
        if name == "impl CopyOnDrop":
            continue
        if name not in o_items:
            res["missing"].append(name)
            continue
        r = normalise_decl(name, method_minmax(rewrite_aliases(canon_paths(alpha(r_items[name]), r_uses))))
        o = method_minmax(rewrite_aliases(canon_paths(alpha(o_items[name]), o_uses)))
        o = normalise_decl(name, o)
        o, delta = remove_cancel_delta(name, o)
        o = renumber(o)
        r = renumber(r)
        ok = (o == r)
        first = None
        if not ok:
            for i in range(max(len(o), len(r))):
                a = o[i] if i < len(o) else "<end>"
                b = r[i] if i < len(r) else "<end>"
                if a != b:
                    first = {"token_index": i, "ours": " ".join(o[max(0, i - 6):i + 7]), "reference": " ".join(r[max(0, i - 6):i + 7])}
                    break
        exp = EXPECTED_DELTA.get(name, {})
        # every delta kind found must be an enumerated one; counts may be lower (a dropped cancellation
        # check only makes the sort less cancellable, which the property allows)
        delta_ok = all(k in exp and delta[k] <= exp[k] for k in delta)
        changed = 0
        if not ok:
            import difflib
            sm = difflib.SequenceMatcher(None, o, r, autojunk=False)
            ops = [(tag, i1, i2, j1, j2) for tag, i1, i2, j1, j2 in sm.get_opcodes() if tag != "equal"]
            changed = sum(max(i2 - i1, j2 - j1) for tag, i1, i2, j1, j2 in ops)
            # separate places that differ (variable renumbering after an insertion shows up as 1-token replacements
            # of one `wN` by another: those do not count as places of their own)
            regions = 0
            for tag, i1, i2, j1, j2 in ops:
                a_, b_ = o[i1:i2], r[j1:j2]
                if tag == "replace" and len(a_) == len(b_) and all(x.startswith("w") and x[1:].isdigit() and y.startswith("w") and y[1:].isdigit() for x, y in zip(a_, b_)):
                    continue
                regions += 1
        res["items"].append({"name": name, "equal": ok, "tokens": len(r), "delta": delta, "delta_expected": exp,
                             "delta_ok": delta_ok, "first_difference": first, "changed_tokens": changed, "changed_regions": (regions if not ok else 0)})
    for name in o_order:
        if name not in r_items and not name.startswith("mod "):
            res["extra"].append(name)
    return res


if __name__ == "__main__":
    import json
    import sys
    print(json.dumps(compare(sys.argv[1], sys.argv[2]), indent=1))

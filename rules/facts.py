"""Fact base loading, indexing and a MIR pretty printer (for diagnostics and rule development)."""
import json, os


class Facts:
    def __init__(self, directory):
        self.dir = directory
        self.crates = {}
        for name in ("nucleo", "nucleo_matcher"):
            p = os.path.join(directory, name + ".json")
            if not os.path.exists(p):
                raise FileNotFoundError(p)
            with open(p) as f:
                self.crates[name] = json.load(f)
        self.bodies = {}
        self.inlined = []     # (crate, caller, helper) triples of the normalisation pass
        self.absorbed = {}    # crate -> paths of new private helpers that were inlined everywhere
        import inline
        inv = inline.load_inventory()
        for cname, c in self.crates.items():
            if inv is not None and cname in inv.get("crates", {}):
                mv = inline.module_moves(c["bodies"], set(inv["crates"][cname]))
                if mv:
                    c = inline.apply_module_moves(c, mv)
                    self.crates[cname] = c
                    self.renamed = dict(getattr(self, "renamed", {}), **{cname + "::" + k: v for k, v in mv.items()})
                al = inline.rename_aliases(c["bodies"], set(inv["crates"][cname]), inv.get("detail", {}).get(cname, {}))
                if al:
                    c = inline.apply_aliases(c, al)
                    self.crates[cname] = c
                    self.renamed = dict(getattr(self, "renamed", {}), **{cname + "::" + k: v for k, v in al.items()})
                absorbed, rep = inline.normalise(cname, c["bodies"], set(inv["crates"][cname]))
                self.absorbed[cname] = sorted(absorbed)
                self.inlined += [(cname, a, b) for a, b in rep]
                if absorbed:
                    c["bodies"] = [b for b in c["bodies"] if b["path"] not in absorbed]
            # closures that were written inside an absorbed helper now live (through inlining) in the helper's
            # callers: re-home their root/parent to the inventory function that absorbed the helper
            absorbed_set = set(self.absorbed.get(cname, []))
            if absorbed_set:
                callers = {}
                for cn_, caller, helper in self.inlined:
                    if cn_ == cname:
                        callers.setdefault(helper, set()).add(caller)

                def home(p_, depth=0):
                    if p_ not in absorbed_set or depth > 6:
                        return {p_}
                    out_ = set()
                    for c_ in callers.get(p_, ()):
                        c_root = c_.split("::{closure")[0]
                        out_ |= home(c_root, depth + 1)
                    return out_ or {p_}
                for b in c["bodies"]:
                    if b.get("kind") == "Closure" and b.get("root") in absorbed_set:
                        homes = sorted(home(b["root"]))
                        b["root_original"] = b["root"]
                        b["roots"] = homes
                        if len(homes) == 1:
                            b["root"] = homes[0]
                            if b.get("parent") in absorbed_set:
                                b["parent"] = homes[0]
            self._expand_struct_consts(c)
            for b in c["bodies"]:
                b["crate"] = cname
                self.bodies[(cname, b["path"])] = b

    @staticmethod
    def _expand_struct_consts(c):
        """Normalisation: `x = NAMED_CONST` where the constant is a plain struct of scalars (const-evaluated by the
        driver to {field: value}) becomes the struct literal it stands for, so that rules which look at literals
        (placeholders, sentinels) see through a named constant."""
        def scalar(v):
            return isinstance(v, (int, bool)) or (isinstance(v, dict) and set(v.keys()) == {"variant", "discr"})
        vals = {k["path"]: k for k in c.get("consts", []) if isinstance(k.get("value"), dict) and k["value"]
                and "variant" not in k["value"] and all(scalar(v) for v in k["value"].values())}
        if not vals:
            return
        adts = {a["path"]: a for a in c.get("adts", [])}

        def literal(k):
            kv = vals[k["def"]]
            adt = adts.get(kv["ty"]) or adts.get(kv["ty"].split("<")[0])
            if adt is None or adt.get("kind") != "Struct" or len(adt["variants"]) != 1:
                return None
            flds = adt["variants"][0]["fields"]
            if [f["name"] for f in flds] != list(kv["value"].keys()) and set(f["name"] for f in flds) != set(kv["value"].keys()):
                return None
            ops = []
            for f in flds:
                v = kv["value"][f["name"]]
                if isinstance(v, dict):
                    ops.append({"const": {"ty": f["ty"], "text": "%s::%s (%s.%s)" % (f["ty"], v["variant"], k["def"], f["name"]), "val": {"variant": v["variant"]}}})
                else:
                    ops.append({"const": {"ty": f["ty"], "text": "%s (%s.%s)" % (v, k["def"], f["name"]), "val": int(v)}})
            return {"agg": "adt", "adt": adt["path"], "variant": adt["variants"][0]["name"], "vidx": 0,
                    "fields": [f["name"] for f in flds], "ops": ops, "from_const": k["def"]}

        for b in c["bodies"]:
            for blk in b["blocks"]:
                for s_ in blk["stmts"]:
                    if s_.get("k") != "assign" or "use" not in s_["rv"]:
                        continue
                    k = s_["rv"]["use"].get("const") if isinstance(s_["rv"]["use"], dict) else None
                    if not k or k.get("def") not in vals:
                        continue
                    lit = literal(k)
                    if lit is not None:
                        s_["rv"] = lit
                # the constant handed to a call directly: bound to a fresh local first
                t = blk["term"]
                if t.get("k") == "call":
                    for i, a in enumerate(t.get("args", [])):
                        k = a.get("const") if isinstance(a, dict) else None
                        if not k or k.get("def") not in vals:
                            continue
                        lit = literal(k)
                        if lit is None:
                            continue
                        nl = len(b["locals"])
                        b["locals"].append({"ty": vals[k["def"]]["ty"], "mut": False})
                        blk["stmts"].append({"k": "assign", "line": t.get("line", 0), "exp": False, "lhs": {"l": nl, "p": []}, "rv": lit})
                        t["args"][i] = {"move": {"l": nl, "p": []}}

    def crate(self, name):
        return self.crates[name]

    def body(self, crate, path):
        return self.bodies.get((crate, path))

    def find_bodies(self, crate, pred):
        return [b for (c, p), b in self.bodies.items() if c == crate and pred(b)]

    def bodies_of(self, crate):
        return [b for (c, p), b in self.bodies.items() if c == crate]

    def const(self, crate, path):
        for k in self.crates[crate]["consts"]:
            if k["path"] == path:
                return k
        return None

    def adt(self, crate, path):
        for a in self.crates[crate]["adts"]:
            if a["path"] == path:
                return a
        return None

    def inventory(self):
        inv = {}
        for cname, c in self.crates.items():
            nblocks = sum(len(b["blocks"]) for b in c["bodies"])
            ncalls = sum(1 for b in c["bodies"] for blk in b["blocks"] if blk["term"]["k"] == "call")
            inv[cname] = {
                "bodies": len(c["bodies"]),
                "blocks": nblocks,
                "call_sites": ncalls,
                "consts": len(c["consts"]),
                "adts": len(c["adts"]),
                "impls": len(c["impls"]),
                "unsafe_blocks": len(c["unsafe_blocks"]),
                "helpers_inlined": self.absorbed.get(cname, []),
            }
        return inv


# ---------------------------------------------------------------- pretty printer

def fmt_place(p, body=None):
    s = "_%d" % p["l"]
    for e in p["p"]:
        if e == "deref":
            s = "(*%s)" % s
        elif isinstance(e, dict):
            if "f" in e:
                s = "%s.%s" % (s, e["name"])
            elif "index" in e:
                s = "%s[_%d]" % (s, e["index"])
            elif "cindex" in e:
                s = "%s[%s%d]" % (s, "-" if e["from_end"] else "", e["cindex"])
            elif "subslice" in e:
                s = "%s[%d..%s%d]" % (s, e["subslice"][0], "-" if e["from_end"] else "", e["subslice"][1])
            elif "downcast" in e:
                s = "(%s as %s)" % (s, e["variant"] or e["downcast"])
        else:
            s = "%s.<%s>" % (s, e)
    return s


def fmt_const(c):
    if "fn" in c:
        return "fn:" + c["fn"]
    if "static" in c:
        return "&static " + c["static"]
    if "def" in c and "val" in c:
        return "%s(=%s)" % (c["def"], json.dumps(c["val"]))
    if "def" in c:
        return c["def"]
    if "param" in c:
        return "param:" + c["param"]
    if "val" in c:
        v = c["val"]
        if isinstance(v, dict):
            return "%s::%s" % (c["ty"], v.get("variant"))
        return "%s_%s" % (json.dumps(v), c["ty"])
    return "const(%s)" % c["text"]


def fmt_op(o):
    if "copy" in o:
        return fmt_place(o["copy"])
    if "move" in o:
        return "move " + fmt_place(o["move"])
    if "const" in o:
        return fmt_const(o["const"])
    return "rt:" + str(o.get("rt"))


def fmt_rv(rv):
    if "use" in rv:
        return fmt_op(rv["use"])
    if "ref" in rv:
        return "&%s%s" % ("mut " if rv["mut"] else "", fmt_place(rv["ref"]))
    if "rawptr" in rv:
        return "&raw %s%s" % ("mut " if rv["mut"] else "const ", fmt_place(rv["rawptr"]))
    if "cast" in rv:
        return "%s as %s (%s)" % (fmt_op(rv["cast"]), rv["to"], rv["kind"])
    if "bin" in rv:
        return "%s(%s, %s)" % (rv["bin"], fmt_op(rv["a"]), fmt_op(rv["b"]))
    if "un" in rv:
        return "%s(%s)" % (rv["un"], fmt_op(rv["a"]))
    if "discr" in rv:
        return "discriminant(%s)" % fmt_place(rv["discr"])
    if "agg" in rv:
        k = rv["agg"]
        ops = rv["ops"]
        if k == "adt":
            names = rv.get("fields", [])
            inner = ", ".join("%s: %s" % (names[i] if i < len(names) else i, fmt_op(o)) for i, o in enumerate(ops))
            return "%s::%s { %s }" % (rv["adt"], rv["variant"], inner)
        if k == "closure":
            names = rv.get("fields", [])
            inner = ", ".join("%s: %s" % (names[i] if i < len(names) else i, fmt_op(o)) for i, o in enumerate(ops))
            return "closure %s { %s }" % (rv["closure"], inner)
        return "%s(%s)" % (k, ", ".join(fmt_op(o) for o in ops))
    if "repeat" in rv:
        return "[%s; %s]" % (fmt_op(rv["repeat"]), rv["n"])
    return json.dumps(rv)


def fmt_term(t):
    k = t["k"]
    if k == "goto":
        return "goto bb%d" % t["target"]
    if k == "switch":
        arms = ", ".join("%d: bb%d" % (v, bb) for v, bb in t["arms"])
        return "switch(%s: %s) [%s, otherwise: bb%d]" % (fmt_op(t["discr"]), t["ty"], arms, t["otherwise"])
    if k == "call":
        f = t.get("fn") or ("(" + fmt_op(t["fn_operand"]) + ")")
        r = t.get("resolved")
        extra = ""
        if r and r != t.get("fn"):
            extra = " [=> %s]" % r
        tgt = "bb%s" % t["target"] if t["target"] is not None else "!"
        return "%s = %s(%s)%s -> %s unwind %s" % (
            fmt_place(t["dest"]), f, ", ".join(fmt_op(a) for a in t["args"]), extra, tgt, t["unwind"])
    if k == "assert":
        extra = ""
        if t.get("kind") == "Overflow":
            extra = " %s(%s, %s): %s" % (t["op"], fmt_op(t["a"]), fmt_op(t["b"]), t["ty"])
        elif t.get("kind") == "BoundsCheck":
            extra = " len=%s index=%s" % (fmt_op(t["len"]), fmt_op(t["index"]))
        return "assert(%s == %s) %s%s -> bb%d unwind %s" % (
            fmt_op(t["cond"]), t["expected"], t.get("kind"), extra, t["target"], t["unwind"])
    if k == "drop":
        return "drop(%s: %s) -> bb%d unwind %s" % (fmt_place(t["place"]), t["ty"], t["target"], t["unwind"])
    if k == "other":
        return "other " + t["text"]
    return k


def fmt_body(b):
    out = []
    out.append("fn %s  [%s] %s:%d" % (b["path"], b["kind"], b["loc"]["file"], b["loc"]["line"]))
    names = {}
    for d in b["debug"]:
        if "place" in d:
            names.setdefault(fmt_place(d["place"]), d["name"])
    for i, l in enumerate(b["locals"]):
        nm = names.get("_%d" % i)
        out.append("  let _%d: %s%s" % (i, l["ty"], "  // " + nm if nm else ""))
    for d in b["debug"]:
        if "place" in d and d["place"]["p"]:
            out.append("  debug %s => %s" % (d["name"], fmt_place(d["place"])))
    for i, blk in enumerate(b["blocks"]):
        out.append("  bb%d%s:" % (i, " (cleanup)" if blk["cleanup"] else ""))
        for s in blk["stmts"]:
            if s["k"] == "assign":
                out.append("    %s = %s;  // L%d" % (fmt_place(s["lhs"]), fmt_rv(s["rv"]), s["line"]))
            else:
                out.append("    %s  // L%d" % (json.dumps(s), s["line"]))
        out.append("    %s;  // L%d" % (fmt_term(blk["term"]), blk["term"]["line"]))
    return "\n".join(out)


if __name__ == "__main__":
    import sys
    f = Facts(sys.argv[1])
    pat = sys.argv[2]
    for (c, p), b in f.bodies.items():
        if pat in p:
            print("// crate", c)
            print(fmt_body(b))
            print()

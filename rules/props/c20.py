"""C20 — active_injectors counts the live injectors of the current stream (accounting argument)."""
from cfg import Inconclusive, op_place, show, walk, strip_casts, decision_paths, poly_of, Poly
from common import (enum_fn_table, calls_to, callee, field_chain, fn_of, get_fn, peel, site, guards_of, field_assigns,
                    ret_aggregates)

PROP = "C20"
LEVEL = "other"
UNDECIDED = [
    "the count over all histories of injector()/clone/drop/restart/tick from several threads (history quantifier)",
    "Arc::strong_count being read while other threads clone/drop injectors (inherently a racy snapshot)",
]
ASSUMPTIONS = [
    "Arc::strong_count is the number of live Arc handles to the stream",
    "state transitions are exactly those found by WHO-WRITES(Nucleo.state)",
]

AI = "Nucleo::<T>::active_injectors"


def arc_holders(facts):
    out = []
    for a in facts.crate("nucleo")["adts"]:
        for v in a["variants"]:
            for f in v["fields"]:
                if f["ty"].startswith("std::sync::Arc<boxcar::Vec<"):
                    out.append((a["path"], f["name"]))
    return out


def flatten_sub(e):
    """a - b - c  ->  (a, [b, c])"""
    subs = []
    while e[0] in ("bin", "checked") and e[1] == "Sub":
        subs.append(e[3])
        e = e[2]
    subs.reverse()
    return e, subs


def rule_holders(ctx):
    facts = ctx.facts
    hs = arc_holders(facts)
    expect = {("Injector", "items"), ("Nucleo", "items"), ("Snapshot", "items"), ("worker::Worker", "items")}
    for h in hs:
        if h in expect:
            ctx.ok("%s.%s" % h, "holder of an Arc to the item stream")
        else:
            ctx.violation("%s|field %s|holder" % h, h[0], "new owner of an Arc<boxcar::Vec<T>> (%s.%s): active_injectors subtracts exactly one term per non-injector holder and would over-count" % h)
    for h in sorted(expect - set(hs)):
        ctx.violation("%s|field %s|gone" % h, h[0], "%s.%s no longer holds the stream: the subtraction in active_injectors no longer matches the holders" % h)
    # closures that take a handle to a stream BY VALUE are holders too (e.g. a handle parked in the closure spawned
    # on the pool): strong_count sees them, the subtraction does not
    for b in facts.bodies_of("nucleo"):
        if b.get("kind") != "Closure":
            continue
        for c in b.get("captures", []):
            ty = c.get("ty", "")
            if "Arc<boxcar::Vec<" in ty and str(c.get("by", "")).startswith("ByValue"):
                ctx.violation("%s|capture %s|holder" % (b["path"], c.get("var") or c.get("name")), "%s:%d" % (b["loc"]["file"], b["loc"]["line"]),
                              "closure %s owns an `%s` (captured by value): one more live handle to an item stream than active_injectors subtracts" % (b["path"], ty))
    # a holder that can be cloned duplicates its handle: strong_count sees the copy, the subtraction does not.  Injector is the
    # one holder whose copies are meant to be counted.
    for im in facts.crate("nucleo")["impls"]:
        if im.get("trait") == "std::clone::Clone" and any(im.get("self_ty", "").split("<")[0] == h_ for h_ in ("Snapshot", "Nucleo", "worker::Worker")):
            ctx.violation("%s|Clone|holder" % im["self_ty"].split("<")[0], im["self_ty"],
                          "%s holds a handle to the item stream and implements Clone: every live copy that refers to the current stream is counted by active_injectors as an injector" % im["self_ty"])
    # statics holding one
    for k in facts.crate("nucleo")["consts"]:
        if k["kind"] == "static" and "boxcar::Vec" in (k.get("ty") or ""):
            ctx.violation("%s|static|1" % k["path"], k["path"], "static holds the item stream")
    if facts.body("nucleo", "State::matcher_item_refs") is None:
        formula_by_state(ctx)
        return
    fn = get_fn(facts, "nucleo", AI)
    key = AI + "|formula|1"

    def is_ptr_eq(x):
        x = strip_casts(x)
        if x[0] == "call" and (str(x[1]).endswith("From<bool>>::from") or str(x[1]).endswith("::from")) and len(x[2]) == 1:
            x = strip_casts(x[2][0])
        if x[0] == "call" and str(x[1]).endswith("::ptr_eq"):
            a_ = field_chain(x[2][0])[1]
            b_ = field_chain(x[2][1])[1]
            return sorted([a_, b_]) == sorted([["snapshot", "items"], ["items"]])
        return False

    def atomizer(x):
        x0 = x
        x = strip_casts(x)
        if x[0] == "call" and str(x[1]).endswith("::strong_count"):
            fc = field_chain(x[2][0])
            if fc[1] == ["items"] and fc[0][0] == "arg":
                return "STRONG(self.items)"
            return "?strong_count(%s)" % show(x[2][0])[:40]
        if x[0] == "call" and x[1] == "State::matcher_item_refs":
            if field_chain(x[2][0])[1] == ["state"]:
                return "REFS(self.state)"
        if is_ptr_eq(x0):
            return "PEQ"
        return None

    # per return path (whatever the statement shapes: `as usize`, usize::from, if/else 1/0, named locals):
    # value = strong_count(self.items) − matcher_item_refs(self.state) − [snapshot.items is self.items]
    paths = decision_paths(fn)
    want_base = Poly.atom("STRONG(self.items)") - Poly.atom("REFS(self.state)")
    n = 0
    for conds, res in paths:
        if res is None:
            raise Inconclusive("active_injectors: return path without a value")
        got = poly_of(res, atomizer)
        peq = None
        for d, chosen, allv in conds:
            dd = strip_casts(d)
            neg = False
            while dd[0] == "un" and dd[1] == "Not":
                dd = strip_casts(dd[2])
                neg = not neg
            if is_ptr_eq(dd):
                truth = (chosen != 0) if chosen is not None else True
                peq = truth != neg
        n += 1
        if peq is None:
            want = want_base - Poly.atom("PEQ")
        else:
            want = want_base - Poly.const(1 if peq else 0)
        if got == want:
            continue
        if "STRONG(self.items)" not in got.atoms():
            ctx.violation(key, site(fn, 0), "the count does not start from Arc::strong_count(&self.items) (the CURRENT stream): %s" % got)
        else:
            ctx.violation(key, site(fn, 0), "subtracted terms do not match the three non-injector holders: the count is %s, the holders give %s" % (got, want))
        break
    else:
        ctx.ok(site(fn, 0), "strong_count(self.items) − matcher_item_refs(state) [Nucleo + Worker] − ptr_eq(snapshot.items, self.items) [Snapshot] on all %d return paths" % n)


def formula_by_state(ctx):
    """active_injectors, decided per state: the method is made one loop-free body (State's and Nucleo's private helpers
    spliced in), its return paths are enumerated, and on each path the value must be
        strong_count(self.items) - (1 + [the worker holds the current stream in this state]) - [snapshot.items is self.items]
    for every State variant the path admits (Init, Fresh: worker on the current stream; Cleared: worker still on the old one)."""
    import ticktrace as T
    facts = ctx.facts
    fn, nraw, paths = T.canonical_paths(facts, path=AI)
    if not paths:
        raise Inconclusive("active_injectors: no return path")
    worker_on_current = {"Init": 1, "Cleared": 0, "Fresh": 1}
    st = facts.adt("nucleo", "State")
    names = [v["name"] for v in st["variants"]]
    for nme in names:
        if nme not in worker_on_current:
            raise Inconclusive("new State variant %s: not covered by the accounting table" % nme)

    def is_peq(x):
        if x[0] == "call" and x[1] == "from" and len(x[2]) == 1:
            x = x[2][0]
        if x[0] == "call" and x[1] == "ptr_eq" and len(x[2]) == 2:
            a_, b_ = x[2]
            flat = sorted([T.fmt(a_), T.fmt(b_)])
            return "snapshot" in flat[0] + flat[1] and ("(self items)" in flat[0] or "(self items)" in flat[1])
        return False

    def atomizer(x):
        if x[0] == "call" and x[1] == "strong_count" and len(x[2]) == 1:
            return "STRONG(self.items)" if x[2][0] == ("init", ("self", "items")) else "?strong_count(%s)" % T.fmt(x[2][0])[:40]
        if is_peq(x):
            return "PEQ"
        return None

    def poly(e):
        a = atomizer(e)
        if a is not None:
            return Poly.atom(a)
        if e[0] == "const" and isinstance(e[1], int):
            return Poly.const(e[1])
        if e[0] == "bin" and e[1] in ("Add", "Sub", "Mul"):
            x, y = poly(e[2]), poly(e[3])
            return x + y if e[1] == "Add" else (x - y if e[1] == "Sub" else x * y)
        return Poly.atom("?" + T.fmt(e)[:60])

    bad = None
    n = 0
    for known, events in paths:
        res = events[-1][1]
        # a test of ptr_eq on the path fixes the bracket
        k2 = dict(known)
        peq_known = None
        for a_, v_ in known.items():
            if isinstance(a_, tuple) and is_peq(a_) and isinstance(v_, int):
                peq_known = v_
        got = poly(T.subst(res, k2))
        states = known.get(("init", ("self", "state")), frozenset(names))
        for sname in sorted(states):
            n += 1
            want = Poly.atom("STRONG(self.items)") - Poly.const(1 + worker_on_current[sname])
            want = want - (Poly.const(peq_known) if peq_known is not None else Poly.atom("PEQ"))
            if got != want and bad is None:
                bad = (sname, got, want)
    key = AI + "|formula|1"
    if bad:
        sname, got, want = bad
        if "STRONG(self.items)" not in got.atoms():
            ctx.violation(key, site(fn, 0), "the count does not start from Arc::strong_count(&self.items) (the CURRENT stream): %s" % got)
        else:
            ctx.violation(key, site(fn, 0), "in state %s the count is %s, the holders give %s (Nucleo.items%s, and the snapshot when it points at the current stream)"
                          % (sname, got, want, " + Worker.items" if worker_on_current[sname] else "; the worker still holds the OLD stream"))
    else:
        ctx.ok(site(fn, 0), "per state and return path (%d cases): strong_count(self.items) - 1 - [worker on the current stream] - [snapshot on the current stream]" % n)


def rule_refs_table(ctx):
    facts = ctx.facts
    if facts.body("nucleo", "State::matcher_item_refs") is None:
        # the table has been folded into active_injectors: decided there, state by state
        formula_by_state(ctx)
        return
    fn = get_fn(facts, "nucleo", "State::matcher_item_refs")
    st = facts.adt("nucleo", "State")
    variants = {v["discr"]: v["name"] for v in st["variants"]}
    table = enum_fn_table(facts, fn, "nucleo", "State")
    # expected = 1 (Nucleo.items) + [Worker.items is the current stream], bracket justified by C20.transitions
    expected = {"Init": 2, "Cleared": 1, "Fresh": 2}
    for k, want in expected.items():
        got = table.get(k)
        if got == want:
            ctx.ok("State::%s" % k, "matcher_item_refs = %d = 1 + [worker points at the current stream]" % want)
        else:
            ctx.violation("State::matcher_item_refs|%s" % k, site(fn, 0),
                          "matcher_item_refs(%s) = %s, but in that state the matcher itself holds %d handle(s) to the current stream (Nucleo.items%s)" % (k, got, want, " + Worker.items" if want == 2 else "; the worker still holds the OLD stream"))
    for k in table:
        if k not in expected:
            ctx.fail_closed("new State variant %s: not covered by the accounting table" % k)


def rule_transitions(ctx):
    facts = ctx.facts
    writers = {}
    for b in facts.bodies_of("nucleo"):
        fn = fn_of(b)
        for bi, si, s in field_assigns(fn, "state", "Nucleo<"):
            e = fn.expr_of_rvalue(s["rv"]) if si != "term" else ("?",)
            v = e[1].rsplit("::", 1)[1] if e[0] == "agg" else None
            writers.setdefault(fn.path, []).append((fn, bi, si, v))
        for bi, si, s in fn.stmts(lambda s: s["k"] == "assign" and s["rv"].get("agg") == "adt" and s["rv"].get("adt") == "Nucleo"):
            names = s["rv"]["fields"]
            e = fn.expr_of_operand(s["rv"]["ops"][names.index("state")])
            v = e[1].rsplit("::", 1)[1] if e[0] == "agg" else None
            writers.setdefault(fn.path, []).append((fn, bi, si, v))
            # Init: items is a clone of the worker's stream => worker points at current stream => 2
            it = fn.expr_of_operand(s["rv"]["ops"][names.index("items")])
            sn = fn.expr_of_operand(s["rv"]["ops"][names.index("snapshot")])
            if it[0] == "call" and str(it[1]).endswith("Clone>::clone") and field_chain(it[2][0])[1][-1:] == ["items"]:
                ctx.ok(site(fn, bi, si), "new(): Nucleo.items is a clone of the worker's stream (Init ⇒ 2 matcher refs)")
            else:
                ctx.violation("%s|new-items|1" % fn.path, site(fn, bi, si), "Nucleo.items is not a clone of the worker's stream in new(): Init ⇒ 2 refs no longer holds")
    allowed = {"Nucleo::<T>::new": "Init", "Nucleo::<T>::restart": "Cleared", "Nucleo::<T>::tick": "Fresh"}
    for path, lst in writers.items():
        for fn, bi, si, v in lst:
            if allowed.get(path) == v:
                ctx.ok(site(fn, bi, si), "state := %s in %s" % (v, path.rsplit("::", 1)[1]))
            else:
                ctx.violation("%s|state-write|%s" % (path, v), site(fn, bi, si), "unexpected state transition to %s in %s" % (v, path))
    for p in allowed:
        if p not in writers:
            ctx.violation("%s|state-write|missing" % p, p, "%s no longer sets the state to %s" % (p, allowed[p]))
    # Worker.items written only in tick_inner (under cleared) — C12.stream-switch checks the guard; here: who
    for b in facts.bodies_of("nucleo"):
        fn = fn_of(b)
        for bi, si, s in field_assigns(fn, "items", "worker::Worker<"):
            if fn.blocks[bi]["cleanup"]:
                continue
            if fn.path == "Nucleo::<T>::tick_inner":
                ctx.ok(site(fn, bi, si), "Worker.items re-pointed only in tick_inner")
            else:
                ctx.violation("%s|Worker.items|write" % fn.path, site(fn, bi, si), "Worker.items written outside tick_inner")
        for bi, si, s in field_assigns(fn, "items", "Nucleo<"):
            if fn.blocks[bi]["cleanup"]:
                continue
            if fn.path == "Nucleo::<T>::restart":
                ctx.ok(site(fn, bi, si), "Nucleo.items replaced only in restart (together with state := Cleared, see C12.restart-shape)")
            else:
                ctx.violation("%s|Nucleo.items|write" % fn.path, site(fn, bi, si), "Nucleo.items written outside restart")
    # Cleared ⇒ worker still holds the OLD stream: restart must not touch the worker's handle
    rs = get_fn(facts, "nucleo", "Nucleo::<T>::restart")
    if any(callee(t).endswith("::lock") or callee(t).endswith("::lock_arc") for bi, t in rs.calls()):
        ctx.violation("Nucleo::<T>::restart|locks-worker|1", site(rs, 0), "restart takes the worker lock: the Cleared ⇒ 1 accounting assumes the worker handle is untouched until the next tick")
    else:
        ctx.ok(site(rs, 0), "restart leaves the worker's handle alone (Cleared ⇒ 1 matcher ref to the new stream)")


def rule_restart_fresh(ctx):
    """Premise of `injectors of a previous stream are never counted`: restart ALWAYS installs a freshly allocated
    stream (shared with C12.restart-shape)."""
    from props.c12 import rule_restart_shape
    rule_restart_shape(ctx)


def rules(ctx):
    ctx.run_rule("C20.restart-fresh", rule_restart_fresh)
    ctx.run_rule("C20.holders", rule_holders)
    ctx.run_rule("C20.refs-table", rule_refs_table)
    ctx.run_rule("C20.transitions", rule_transitions)

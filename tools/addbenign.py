#!/usr/bin/env python3
"""addbenign.py <prefix> <dir with r*.diff>: copy refactoring diffs into battery/benign/, register them in
battery/benign.json (origin: sub-agent refactoring that keeps every property true) and run all checks on each."""
import json, os, shutil, subprocess, sys, glob
VERIF = os.path.dirname(os.path.dirname(os.path.abspath(__file__)))
prefix, src = sys.argv[1], sys.argv[2]
bdir = os.path.join(VERIF, "battery", "benign")
os.makedirs(bdir, exist_ok=True)
jp = os.path.join(VERIF, "battery", "benign.json")
ben = json.load(open(jp))
ids = {b["id"] for b in ben}
for f in sorted(glob.glob(os.path.join(src, "r*.diff"))):
    n = os.path.splitext(os.path.basename(f))[0]
    vid = "%s-%s" % (prefix, n)
    shutil.copy(f, os.path.join(bdir, vid + ".diff"))
    if vid not in ids:
        ben.append({"id": vid, "patch": "benign/%s.diff" % vid, "origin": "sub-agent refactoring (told to keep every property true; baseline tests green)"})
json.dump(ben, open(jp, "w"), indent=1, ensure_ascii=False)
sys.exit(subprocess.call([sys.executable, os.path.join(VERIF, "tools", "battery.py"), "benign", "--only", prefix + "-", "-j", "6"]))

#!/bin/bash
# usage: seedcheck.sh <worktree> <demo relative path> <demo test name (file stem)> [miri]
# Confirms a seeded change in its scratch worktree: baseline tests green with the change,
# demo fails with the change, demo passes without it. Prints a summary.
set -u
W=$1; DEMO=$2; NAME=$3; MODE=${4:-plain}
cd "$W" || exit 2
export CARGO_NET_OFFLINE=true
git stash list >/dev/null 2>&1
run_demo() {
  if [ "$MODE" = miri ]; then
    MIRIFLAGS="-Zmiri-ignore-leaks -Zmiri-disable-isolation -Zmiri-disable-stacked-borrows" timeout 1800 cargo +nightly miri test --offline --test "$NAME" $PKG 2>&1 | tail -40
  else
    timeout 1800 cargo test --offline --test "$NAME" $PKG 2>&1 | tail -15
  fi
}
PKG=""
case "$DEMO" in matcher/*) PKG="-p nucleo-matcher";; esac
echo "== 1. baseline suite WITH the change (demo moved aside)"
mv "$DEMO" /tmp/_demo_aside.rs
cargo test --workspace --offline 2>&1 | grep -E "test result|FAILED|error(\[|:)" | head -12
mv /tmp/_demo_aside.rs "$DEMO"
echo "== 2. demo WITH the change (must fail)"
run_demo | grep -E "test result|FAILED|panicked|Undefined|error:|Data race" | head -8
echo "== 3. demo WITHOUT the change (must pass)"
cp "$DEMO" /tmp/_demo_keep.rs
git stash -q -- $(git diff --name-only | grep -v "^SEED") 2>/dev/null
run_demo | grep -E "test result|FAILED|panicked|Undefined|error:|Data race" | head -8
git stash pop -q
cp /tmp/_demo_keep.rs "$DEMO"
echo "== done"

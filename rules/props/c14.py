"""C14 — pattern text is parsed by one grammar (narrow structural claim)."""
from cfg import Inconclusive, op_place, show, walk, strip_casts
from common import (calls_to, callee, closure_creations, closure_consumer, field_chain, fn_of, get_fn, peel, site,
                    guards_of, ret_aggregates, field_assigns)

from common import iter_pipeline, closure_tree, resolve_capture

PROP = "C14"
LEVEL = "other"
UNDECIDED = [
    "the grammar as a function from strings to atoms: escape handling inside Atom::new_inner, in particular agreement of its ASCII and non-ASCII halves on backslashes (the word splitter's decision table IS decided)",
    "smart-case / smart-normalization decisions for all strings",
]
ASSUMPTIONS = [
    "the byte decision trees of Atom::parse are read off the MIR switch structure (rustc's match lowering)",
]
M = "nucleo_matcher"
PARSE = "pattern::Atom::parse"


def atoms_pipeline(facts, pf):
    """The iterator chain that turns the pattern text into atoms in `pf` (consumed by collect / extend):
    (sink_bb, stages) or None."""
    for bi, t in pf.calls(lambda t: callee(t).endswith("Iterator::collect") or str(t.get("fn")).endswith("Iterator::collect")
                          or callee(t).endswith("::extend") or str(t.get("fn")).endswith("Extend::extend")):
        for ai in range(len(t["args"])):
            try:
                st = iter_pipeline(pf, t, ai)
            except Exception:
                continue
            if st and st[0][0] == "unknown:pattern_atoms":
                return bi, st
    return None


def rule_parse_twins(ctx):
    facts = ctx.facts
    info = {}
    for parent in ("pattern::Pattern::parse", "pattern::Pattern::reparse"):
        pf = get_fn(facts, M, parent)
        key = "%s|pipeline" % parent
        # delegation: parse = reparse on a fresh, empty Pattern with the same arguments
        if parent.endswith("::parse"):
            dl = [(bi, t) for bi, t in pf.calls(lambda t: callee(t) == "pattern::Pattern::reparse")]
            if dl:
                bi, t = dl[0]
                a = [peel(pf.expr_of_operand(x)) for x in t["args"][1:]]
                inorder = [x[0] == "arg" and x[1] == i + 1 for i, x in enumerate(a)]
                if all(inorder) and len(a) == 3:
                    ctx.ok(site(pf, bi), "parse delegates to reparse with (text, case, normalization) in order: the two cannot disagree")
                else:
                    ctx.violation(key, site(pf, bi), "parse delegates to reparse with permuted or foreign arguments")
                continue
        pl = atoms_pipeline(facts, pf)
        if pl is None:
            raise Inconclusive("%s: no `pattern_atoms(text)…collect/extend` pipeline found" % parent)
        sink, stages = pl
        src_ok = peel(stages[0][2][2][0])[0] == "arg"
        trunc = [st[0] for st in stages[1:] if st[0].startswith(("truncating:", "unknown:")) or st[0].startswith("zip")]
        ctor = None
        filt = False
        for st in stages[1:]:
            if not st[1]:
                continue
            cf = get_fn(facts, M, st[1])
            pc = [(bi, t) for bi, t in cf.calls(lambda t: callee(t) == PARSE)]
            if pc:
                ctor = (cf, pc)
            for b_, t_ in cf.calls(lambda t: callee(t).endswith("Utf32String::is_empty")):
                recv = cf.expr_of_operand(t_["args"][0])
                if any(x[0] == "field" and x[2] == "needle" for x in walk(recv)):
                    if st[0] == "subset:filter":
                        from cfg import decision_paths
                        ps = decision_paths(cf)
                        filt = len(ps) == 1 and ps[0][1] is not None and ps[0][1][0] == "un" and ps[0][1][1] == "Not"
                    else:
                        filt = True
        if ctor is None or len(ctor[1]) != 1:
            ctx.violation(key + "|parse-call", site(pf, sink), "%s's per-word closure does not call Atom::parse exactly once" % parent)
            continue
        cf, pc = ctor
        bi, t = pc[0]
        a = [cf.expr_of_operand(x) for x in t["args"]]

        def cap_param(e):
            """captured variable of the closure -> index of the parent's parameter it holds"""
            base, names = field_chain(e)
            if names and peel(base)[0] == "arg" and peel(base)[1] == 1:
                rc = resolve_capture(cf, names[0])
                if rc is not None:
                    x = peel(rc[1])
                    while x[0] in ("ref", "deref"):
                        x = peel(x[1])
                    return x[1] if x[0] == "arg" else None
            return None
        okargs = peel(a[0])[0] == "arg" and peel(a[0])[1] == 2 and cap_param(a[1]) is not None and cap_param(a[2]) is not None \
            and cap_param(a[1]) < cap_param(a[2])
        cap_ok = okargs
        info[parent] = (okargs, cap_ok, filt, src_ok)
        if okargs and cap_ok and filt and src_ok and not trunc:
            ctx.ok(site(cf, bi), "%s: pattern_atoms(text) → Atom::parse(word, case, normalization) → drop empty needles (%s)" % (parent.rsplit("::", 1)[1], " → ".join(st[0] for st in stages)))
        else:
            ctx.violation(key, site(cf, bi), "%s pipeline deviates (args in order %s, captures are the caller's parameters %s, empty-needle filter %s, source is pattern_atoms(text) %s, truncating stages %s): reparse and parse can produce different atoms" % (parent, okargs, cap_ok, filt, src_ok, trunc))
    # reparse clears before extending
    rp = get_fn(facts, M, "pattern::Pattern::reparse")
    clr = [bi for bi, t in rp.calls(lambda t: callee(t).endswith("Vec::<T, A>::clear"))]
    ext = [bi for bi, t in rp.calls(lambda t: callee(t).endswith("::extend"))]
    if clr and ext and all(rp.dominates(clr[0], e) for e in ext):
        ctx.ok(site(rp, clr[0]), "reparse clears the old atoms before extending")
    else:
        ctx.violation("pattern::Pattern::reparse|clear|1", site(rp, 0), "reparse does not clear self.atoms before adding the new atoms: atoms of the previous text survive")


def rule_new_is_literal(ctx):
    facts = ctx.facts
    callers = calls_to(facts, M, lambda t: callee(t) == PARSE)
    allowed_roots = ("pattern::Pattern::parse", "pattern::Pattern::reparse")
    for fn, bi, t in callers:
        if fn.b.get("kind") == "Closure" and fn.b.get("root") in allowed_roots:
            ctx.ok(site(fn, bi), "Atom::parse called from %s" % fn.path.split("::")[2])
        else:
            ctx.violation("%s|Atom::parse|caller" % fn.path, site(fn, bi), "the marker parser is reached from %s: literal construction must not interpret ! ^ ' $" % fn.path)
    ctx.floor("callers of Atom::parse", len(callers), 1)
    pn = None
    nc = []
    for f_ in closure_tree(facts, M, "pattern::Pattern::new")[1:]:
        c_ = [(bi, t) for bi, t in f_.calls(lambda t: callee(t) == "pattern::Atom::new")]
        if c_:
            pn, nc = f_, c_
    if pn is None:
        pn = get_fn(facts, M, "pattern::Pattern::new")
    if len(nc) == 1:
        esc = pn.const_of_operand(nc[0][1]["args"][4])
        ctx.ok(site(pn, nc[0][0]), "Pattern::new builds atoms with Atom::new (escape_whitespace = %s)" % esc)
    else:
        ctx.violation("pattern::Pattern::new|Atom::new|1", site(pn, 0), "Pattern::new does not build its atoms with Atom::new")
    an = get_fn(facts, M, "pattern::Atom::new")
    ic = [(bi, t) for bi, t in an.calls(lambda t: callee(t) == "pattern::Atom::new_inner")]
    if len(ic) == 1 and an.const_of_operand(ic[0][1]["args"][5]) == 0:
        ctx.ok(site(an, ic[0][0]), "Atom::new → new_inner(.., append_dollar = false)")
    else:
        ctx.violation("pattern::Atom::new|new_inner|1", site(an, 0), "Atom::new does not delegate to new_inner with append_dollar = false")
    # marker bytes are inspected only in Atom::parse
    markers = {33, 94, 39, 36}
    for b in facts.bodies_of(M):
        if not b["path"].startswith("pattern::") or b["path"] == PARSE:
            continue
        fn = fn_of(b)
        for bi in sorted(fn.live):
            t = fn.blocks[bi]["term"]
            if t["k"] == "switch" and t["ty"] in ("u8", "char"):
                vals = set(v for v, _ in t["arms"])
                if vals & markers:
                    ctx.violation("%s|marker-test|1" % fn.path, site(fn, bi), "%s tests for marker characters %s outside Atom::parse" % (fn.path, sorted(chr(v) for v in vals & markers)))
    ctx.ok("pattern.rs", "marker bytes ! ^ ' $ are matched only inside Atom::parse")


# ---------------------------------------------------------------- marker table

def byte_test(fn, t):
    """For a switch on (*bytes)[i] return (index, from_end) else None."""
    p = op_place(t["discr"])
    if p is None or not p["p"]:
        return None
    last = p["p"][-1]
    if isinstance(last, dict) and "cindex" in last:
        return (last["cindex"], last["from_end"])
    return None


def enumerate_paths(fn, start, stops, limit=200):
    """All acyclic paths from `start` until a block in `stops`; each path = list of (bb, edge_info)."""
    out = []

    def go(bb, path, seen):
        if len(out) > limit:
            raise Inconclusive("too many paths in Atom::parse")
        if bb in stops and path:
            out.append(path)
            return
        if bb in seen:
            return
        t = fn.blocks[bb]["term"]
        succs = fn.succ[bb]
        if not succs:
            return
        for s in succs:
            info = None
            if t["k"] == "switch":
                vals = [v for v, b_ in t["arms"] if b_ == s]
                info = (bb, vals if vals else None, [v for v, b_ in t["arms"]])
            go(s, path + [(bb, s, info)], seen | {bb})

    go(start, [], frozenset())
    return out


def stage_summary(fn, path):
    """Constraints and effects along a path."""
    cons = {}   # (idx, from_end) -> ('eq', v) | ('ne', set)
    minlen = 0
    maxlen = None
    eff = {"slice": None, "kind": None, "invert": None, "append_dollar": None}
    for bb, s, info in path:
        blk = fn.blocks[bb]
        t = blk["term"]
        if info is not None:
            bt = byte_test(fn, t)
            if bt is not None:
                sw, vals, allvals = info
                old = cons.get(bt)
                if vals:
                    if old is not None and ((old[0] == "eq" and not (old[1] & set(vals))) or (old[0] == "ne" and set(vals) <= old[1])):
                        eff["infeasible"] = True
                    cons[bt] = ("eq", set(vals) if old is None or old[0] == "ne" else (old[1] & set(vals)))
                else:
                    if old is not None and old[0] == "eq" and old[1] <= set(allvals):
                        eff["infeasible"] = True
                    elif old is None or old[0] == "ne":
                        cons[bt] = ("ne", (set(old[1]) if old else set()) | set(allvals))
            else:
                e = fn.expr_of_operand(t["discr"])
                if e[0] == "bin" and e[1] == "Ge" and e[3][0] == "const":
                    k = e[3][1]
                    sw, vals, allvals = info
                    if vals == [0]:
                        maxlen = k - 1 if maxlen is None else min(maxlen, k - 1)
                    else:
                        minlen = max(minlen, k)
                elif e[0] == "call" and (str(e[3]).endswith("PartialEq::eq") or str(e[3]).endswith("PartialEq::ne")):
                    other = peel(e[2][1])
                    sw, vals, allvals = info
                    if other[0] == "agg" and "AtomKind::" in other[1]:
                        var = other[1].rsplit("::", 1)[1]
                        truth = vals != [0]
                        is_eq = str(e[3]).endswith("eq")
                        poss = eff.setdefault("kinds", {"Fuzzy", "Prefix", "Substring"})
                        if is_eq == truth:
                            poss &= {var}
                        else:
                            poss -= {var}
                        eff["kinds"] = poss
                        cons[("kind-test",)] = ("eq", {1})
        # effects in the successor block are attributed when visiting it; here collect effects of bb
        for st in blk["stmts"]:
            if st["k"] != "assign" or st["lhs"]["p"]:
                continue
            nm = fn.names.get(st["lhs"]["l"])
            e = fn.expr_of_rvalue(st["rv"])
            if e[0] == "agg" and "AtomKind::" in e[1]:
                eff["kind"] = e[1].rsplit("::", 1)[1]
            elif e[0] == "const" and nm in ("invert", "append_dollar"):
                eff[nm] = bool(e[1])
            elif e[0] == "const" and nm is None and fn.b["locals"][st["lhs"]["l"]]["ty"] == "bool":
                # unnamed bool temp that becomes `invert` (match result)
                eff.setdefault("_bool", bool(e[1]))
                eff["_bool"] = bool(e[1])
        if t["k"] == "call" and callee(t).endswith("::index") and "str" in callee(t):
            r = fn.expr_of_operand(t["args"][1])
            if r[0] == "agg" and r[1].endswith("RangeFrom::RangeFrom") and r[2]["start"][0] == "const":
                eff["slice"] = "[%d..]" % r[2]["start"][1]
            elif r[0] == "agg" and r[1].endswith("RangeTo::RangeTo"):
                e2 = r[2]["end"]
                if e2[0] in ("bin", "checked") and e2[1] == "Sub" and e2[3][0] == "const":
                    eff["slice"] = "[..len-%d]" % e2[3][1]
    return cons, minlen, maxlen, eff


def known(cons, key):
    """('eq', byte) / ('ne', set) / None"""
    c = cons.get(key)
    if c is None:
        return None
    if c[0] == "eq" and len(c[1]) == 1:
        return ("eq", list(c[1])[0])
    if c[0] == "eq":
        return ("in", c[1])
    return c


def is_byte(cons, key, b, minlen, maxlen, need_len):
    """three-valued: True / False / None"""
    if maxlen is not None and maxlen < need_len:
        return False
    k = known(cons, key)
    if k is None:
        return None
    if k[0] == "eq":
        return k[1] == b
    if k[0] == "in":
        return True if k[1] == {b} else (None if b in k[1] else False)
    if k[0] == "ne":
        return False if b in k[1] else None
    return None


def rule_marker_table(ctx):
    facts = ctx.facts
    fn = get_fn(facts, M, PARSE)
    ab = [bi for bi, t in fn.calls(lambda t: callee(t).endswith("str>::as_bytes"))]
    ni = [bi for bi, t in fn.calls(lambda t: callee(t) == "pattern::Atom::new_inner")]
    if len(ab) != 3 or len(ni) != 1:
        raise Inconclusive("Atom::parse no longer has three byte-matching stages followed by one new_inner call (found %d/%d)" % (len(ab), len(ni)))
    ab.sort()
    # stage 3 ends where the `invert && kind == Fuzzy` post-processing starts
    inv_sw = set()
    for bi in sorted(fn.live):
        t = fn.blocks[bi]["term"]
        if t["k"] == "switch" and bi > ab[2]:
            e = fn.expr_of_operand(t["discr"])
            if e[0] == "local" and e[2] == "invert":
                inv_sw.add(bi)
    stages = [(ab[0], {ab[1]}), (ab[1], {ab[2]}), (ab[2], inv_sw | {ni[0]})]
    B = {"!": 33, "\\": 92, "^": 94, "'": 39, "$": 36}
    total = 0
    for si, (start, stops) in enumerate(stages):
        paths = enumerate_paths(fn, fn.blocks[start]["term"]["target"], stops)
        if not paths:
            raise Inconclusive("stage %d: no paths" % (si + 1))
        for path in paths:
            cons, minlen, maxlen, eff = stage_summary(fn, path)
            if eff.get("infeasible") or (maxlen is not None and maxlen < minlen):
                continue  # contradictory tests along this CFG path: not an execution
            total += 1
            key = "%s|stage%d|%s" % (PARSE, si + 1, ",".join("%s%s%s" % (k, v[0], sorted(v[1])) for k, v in sorted(cons.items(), key=str)))
            where = site(fn, path[0][0])
            if si == 0:
                b0 = is_byte(cons, (0, False), B["!"], minlen, maxlen, 1)
                e0 = is_byte(cons, (0, False), B["\\"], minlen, maxlen, 2)
                e1 = is_byte(cons, (1, False), B["!"], minlen, maxlen, 2)
                inv = eff.get("invert")
                if inv is None:
                    inv = eff.get("_bool")
                if b0 is True:
                    want = ("[1..]", True)
                elif b0 is False and e0 is True and e1 is True:
                    want = ("[1..]", False)
                elif b0 is False and (e0 is False or e1 is False):
                    want = (None, False)
                else:
                    ctx.fail_closed("stage 1 path with undetermined bytes: %s" % cons)
                    continue
                got = (eff["slice"], inv)
            elif si == 1:
                c = is_byte(cons, (0, False), B["^"], minlen, maxlen, 1)
                q = is_byte(cons, (0, False), B["'"], minlen, maxlen, 1)
                e0 = is_byte(cons, (0, False), B["\\"], minlen, maxlen, 2)
                e1c = is_byte(cons, (1, False), B["^"], minlen, maxlen, 2)
                e1q = is_byte(cons, (1, False), B["'"], minlen, maxlen, 2)
                if c is True:
                    want = ("[1..]", "Prefix")
                elif q is True:
                    want = ("[1..]", "Substring")
                elif c is False and q is False and e0 is True and (e1c is True or e1q is True or (known(cons, (1, False)) or ("", ""))[0] == "in"):
                    want = ("[1..]", "Fuzzy")
                elif c is False and q is False and (e0 is False or (e1c is False and e1q is False)):
                    want = (None, "Fuzzy")
                else:
                    ctx.fail_closed("stage 2 path with undetermined bytes: %s" % cons)
                    continue
                got = (eff["slice"], eff["kind"])
            else:
                d = is_byte(cons, (1, True), B["$"], minlen, maxlen, 1)
                e = is_byte(cons, (2, True), B["\\"], minlen, maxlen, 2)
                kinds = eff.get("kinds")
                if d is True and e is True:
                    want = ("[..len-2]", True, None)
                elif d is True and e is False:
                    poss = kinds if kinds is not None else {"Fuzzy", "Prefix", "Substring"}
                    outs = set("Postfix" if k == "Fuzzy" else "Exact" for k in poss)
                    if len(outs) != 1:
                        want = ("[..len-1]", None, "Postfix for a fuzzy atom / Exact for ^ or ' atoms (this path does not distinguish %s)" % sorted(poss))
                    else:
                        want = ("[..len-1]", None, list(outs)[0])
                elif d is False:
                    want = (None, None, None)
                else:
                    ctx.fail_closed("stage 3 path with undetermined bytes: %s" % cons)
                    continue
                ad = eff.get("append_dollar")
                got = (eff["slice"], True if ad else None, eff["kind"])
            if got == want:
                ctx.ok(where, "stage %d, bytes %s ⇒ %s" % (si + 1, {str(k): (v[0], sorted(v[1])) for k, v in cons.items()}, got))
            else:
                ctx.violation(key, where, "marker grammar deviates in stage %d (%s): for bytes %s the parser does %s, the documented grammar says %s" % (
                    si + 1, ["leading !", "leading ^ / '", "trailing $"][si], {str(k): (v[0], sorted(chr(x) if isinstance(x, int) and 32 <= x < 127 else x for x in v[1])) for k, v in cons.items()}, got, want))
    ctx.floor("decision paths through the three marker stages", total, 12)
    # negative fuzzy ⇒ substring
    okn = False
    for bi, si_, s in fn.stmts(lambda s: s["k"] == "assign" and s["rv"].get("agg") == "adt" and s["rv"].get("variant") == "Substring"):
        gs = guards_of(fn, bi)
        inv = any(g[3][0] == "local" and g[3][2] == "invert" and g[2] in ([None], [1]) for g in gs) or any(show(g[3]).startswith("invert") for g in gs)
        fz = any(g[3][0] == "call" and str(g[3][3]).endswith("PartialEq::eq") and peel(g[3][2][1])[0] == "agg" and peel(g[3][2][1])[1].endswith("Fuzzy") and g[2] in ([None], [1]) for g in gs)
        if fz and (inv or True):
            inv2 = [g for g in gs if g[3][0] == "local"]
            if inv2 or inv:
                okn = True
    if okn:
        ctx.ok(site(fn, 0), "negated fuzzy atoms become substring atoms")
    else:
        ctx.violation(PARSE + "|negative-fuzzy|1", site(fn, 0), "`!word` is no longer turned into a negated substring atom")
    # pattern.negative = invert
    neg = field_assigns(fn, "negative", "pattern::Atom")
    if neg and all(fn.expr_of_rvalue(s["rv"])[0] == "local" for bi, si_, s in neg if si_ != "term"):
        ctx.ok(site(fn, neg[0][0], neg[0][1]), "atom.negative := the leading-! flag")
    else:
        ctx.violation(PARSE + "|negative-flag|1", site(fn, 0), "atom.negative is not set from the leading-! flag")
    # new_inner called with escape_whitespace = true and the append_dollar flag
    t = fn.blocks[ni[0]]["term"]
    esc = fn.const_of_operand(t["args"][4])
    ad = fn.expr_of_operand(t["args"][5])
    if esc == 1 and ad[0] == "local" and ad[2] == "append_dollar":
        ctx.ok(site(fn, ni[0]), "new_inner(atom, case, normalize, kind, escape_whitespace = true, append_dollar)")
    else:
        ctx.violation(PARSE + "|new_inner-args|1", site(fn, ni[0]), "new_inner called with escape_whitespace=%s append_dollar=%s" % (esc, show(ad)))



# ---------------------------------------------------------------- word splitting

class _Bail(Exception):
    pass


def eval_split_closure(fn, ws, bs, saw):
    """Evaluate the split predicate abstractly for one point of the finite domain
    (c is whitespace?, c is a backslash?, state flag) -> (split?, new state flag)."""
    C = ("c",)
    env = {2: C}
    state = {}
    cap_fields = [c["name"] for c in fn.b.get("captures", [])]
    if len(cap_fields) != 1:
        raise _Bail("expected exactly one captured state flag, found %s" % cap_fields)
    state[cap_fields[0]] = saw

    def place_val(p):
        if p["l"] == 1 and p["p"]:
            for el in p["p"]:
                if isinstance(el, dict) and "f" in el:
                    return state.get(el["name"])
            raise _Bail("unknown capture access")
        v = env.get(p["l"], "undef")
        if v == "undef":
            raise _Bail("read of unassigned local _%d" % p["l"])
        if any(el == "deref" for el in p["p"]):
            if isinstance(v, tuple) and v[0] == "ref":
                v = v[1]
        return v

    def op_val(o):
        if "const" in o:
            v = o["const"].get("val")
            if isinstance(v, bool):
                return v
            if isinstance(v, int):
                return v
            return ("unit",)
        return place_val(o.get("copy") or o.get("move"))

    bb = 0
    steps = 0
    while True:
        steps += 1
        if steps > 200:
            raise _Bail("no termination")
        blk = fn.blocks[bb]
        for st in blk["stmts"]:
            if st["k"] != "assign":
                continue
            rv = st["rv"]
            if "use" in rv:
                v = op_val(rv["use"])
            elif "ref" in rv:
                v = ("ref", place_val(rv["ref"]))
            elif "un" in rv and rv["un"] == "Not":
                a = op_val(rv["a"])
                if not isinstance(a, bool):
                    raise _Bail("Not of a non-boolean")
                v = not a
            elif "bin" in rv and rv["bin"] in ("Eq", "Ne", "BitAnd", "BitOr"):
                a, b = op_val(rv["a"]), op_val(rv["b"])
                if rv["bin"] in ("Eq", "Ne") and (a == C or b == C):
                    k = b if a == C else a
                    if k == 92:
                        v = bs
                    elif isinstance(k, int) and k in (32, 9, 10, 13):
                        v = ws and False if False else None
                    else:
                        v = False if bs or ws else None
                    if v is None:
                        raise _Bail("comparison of c with %s" % k)
                    if rv["bin"] == "Ne":
                        v = not v
                elif isinstance(a, bool) and isinstance(b, bool):
                    v = {"Eq": a == b, "Ne": a != b, "BitAnd": a and b, "BitOr": a or b}[rv["bin"]]
                else:
                    raise _Bail("unsupported comparison")
            elif "agg" in rv and rv["agg"] == "tuple" and not rv["ops"]:
                v = ("unit",)
            else:
                raise _Bail("unsupported statement %s" % str(rv)[:60])
            lhs = st["lhs"]
            if lhs["l"] == 1 and lhs["p"]:
                for el in lhs["p"]:
                    if isinstance(el, dict) and "f" in el:
                        if not isinstance(v, bool):
                            raise _Bail("state flag assigned a non-boolean")
                        state[el["name"]] = v
            elif lhs["p"]:
                raise _Bail("projected assignment")
            else:
                env[lhs["l"]] = v
        t = blk["term"]
        if t["k"] == "goto":
            bb = t["target"]
        elif t["k"] == "return":
            r = env.get(0)
            if not isinstance(r, bool):
                raise _Bail("predicate does not return a boolean")
            return r, state[cap_fields[0]]
        elif t["k"] == "call":
            c = callee(t)
            if c.endswith("char>::is_whitespace") and op_val(t["args"][0]) == C:
                env[t["dest"]["l"]] = ws
                bb = t["target"]
            else:
                raise _Bail("call of %s" % c)
        elif t["k"] == "switch":
            d = op_val(t["discr"])
            if d == C:
                arms = {v: b_ for v, b_ in t["arms"]}
                if set(arms) == {92}:
                    bb = arms[92] if bs else t["otherwise"]
                else:
                    raise _Bail("match on c with arms %s" % sorted(arms))
            elif isinstance(d, bool):
                tgt = None
                for v, b_ in t["arms"]:
                    if v == int(d):
                        tgt = b_
                bb = tgt if tgt is not None else t["otherwise"]
            else:
                raise _Bail("switch on %s" % str(d))
        else:
            raise _Bail("terminator %s" % t["k"])


def rule_split_table(ctx):
    """pattern_atoms splits at whitespace that is not preceded by a backslash; a backslash always
    escapes the next character (the atom constructor turns every `\\ ` into a space and keeps
    every other backslash). Decision table of the split predicate over its finite domain."""
    facts = ctx.facts
    pa = get_fn(facts, M, "pattern::pattern_atoms")
    sp = [(bi, t) for bi, t in pa.calls(lambda t: callee(t).endswith("str>::split"))]
    if len(sp) != 1:
        raise Inconclusive("pattern_atoms is not a single str::split")
    clo = pa.expr_of_operand(sp[0][1]["args"][1])
    if clo[0] != "closure":
        raise Inconclusive("split predicate is not a closure literal")
    init = list(clo[2].values())
    if len(init) != 1 or not (init[0][0] == "const" and init[0][1] == 0):
        ctx.violation("pattern::pattern_atoms|initial-state|1", site(pa, sp[0][0]), "the escape state does not start as `not escaped`")
    cf = get_fn(facts, M, clo[1])
    n = 0
    for ws, bs in ((True, False), (False, True), (False, False)):
        for saw in (False, True):
            try:
                got = eval_split_closure(cf, ws, bs, saw)
            except _Bail as e:
                raise Inconclusive("split predicate is not a decision table over (is_whitespace, is backslash, state): %s" % e)
            want = (True, False) if (ws and not saw) else (False, bs)
            n += 1
            what = "c is %s, previous character %s a backslash" % ("whitespace" if ws else ("a backslash" if bs else "any other character"), "was" if saw else "was not")
            if got == want:
                ctx.ok(site(cf, 0), "%s ⇒ split=%s, escaping-next=%s" % (what, got[0], got[1]))
            else:
                ctx.violation("pattern::pattern_atoms|split-table|%d%d%d" % (ws, bs, saw), site(cf, 0),
                              "%s: the splitter answers (split=%s, next character escaped=%s), the grammar says (split=%s, escaped=%s) — the word splitter and the atom constructor (which unescapes every `\\ `) disagree about which spaces are literal" % (what, got[0], got[1], want[0], want[1]))
    ctx.floor("split decision table points", n, 6)


def rule_case_source(ctx):
    """ignore_case flag: Ignore ⇒ true, Respect ⇒ false, Smart ⇒ no upper-case char; Ignore folds the needle."""
    facts = ctx.facts
    fn = get_fn(facts, M, "pattern::Atom::new_inner")
    lower = [bi for bi, t in fn.calls(lambda t: callee(t).endswith("make_ascii_lowercase"))]
    low2 = [bi for bi, t in fn.calls(lambda t: callee(t) == "chars::to_lower_case")]
    clo = facts.body(M, "pattern::Atom::new_inner::{closure#1}")
    low3 = []
    if clo is not None:
        cf = fn_of(clo)
        low3 = [bi for bi, t in cf.calls(lambda t: callee(t) == "chars::to_lower_case")]
    if lower and (low2 or low3):
        ctx.ok(site(fn, lower[0]), "CaseMatching::Ignore folds the stored needle in both halves (make_ascii_lowercase / chars::to_lower_case)")
    else:
        ctx.violation("pattern::Atom::new_inner|fold-needle|1", site(fn, 0), "an ignore-case needle is not stored case-folded in %s" % ("the ASCII half" if not lower else "the non-ASCII half"))
    up1 = [bi for bi, t in fn.calls(lambda t: callee(t).endswith("::any"))]
    up2 = [bi for bi, t in fn.calls(lambda t: callee(t) == "chars::is_upper_case")]
    up3 = []
    if clo is not None:
        up3 = [bi for bi, t in fn_of(clo).calls(lambda t: callee(t) == "chars::is_upper_case")]
    if up1 and (up2 or up3):
        ctx.ok(site(fn, up1[0]), "smart case looks for an upper-case character in both halves")
    else:
        ctx.violation("pattern::Atom::new_inner|smart-case|1", site(fn, 0), "smart case does not test for upper-case characters in both halves")


def rules(ctx):
    ctx.run_rule("C14.parse-twins", rule_parse_twins)
    ctx.run_rule("C14.new-is-literal", rule_new_is_literal)
    ctx.run_rule("C14.marker-table", rule_marker_table)
    ctx.run_rule("C14.split-table", rule_split_table)
    ctx.run_rule("C14.case-source", rule_case_source)

"""Per-body analyses over the MIR fact base: CFG, dominators, reachability with removal,
control dependence, loops, def-use chasing into expression trees, polynomial forms."""
from collections import defaultdict
from fractions import Fraction

from facts import fmt_place, fmt_op


class Inconclusive(Exception):
    """Raised when a rule cannot analyse the code it finds (fail closed, never a violation)."""


def place_key(p):
    """Hashable key of a place (projection elems reduced to names)."""
    out = [p["l"]]
    for e in p["p"]:
        if e == "deref":
            out.append("*")
        elif isinstance(e, dict):
            if "f" in e:
                out.append("." + str(e["name"]))
            elif "index" in e:
                out.append("[_%d]" % e["index"])
            elif "cindex" in e:
                out.append("[c%s%d]" % ("-" if e["from_end"] else "", e["cindex"]))
            elif "subslice" in e:
                out.append("[s%d:%d%s]" % (e["subslice"][0], e["subslice"][1], "e" if e["from_end"] else ""))
            elif "downcast" in e:
                out.append("@" + str(e["variant"] or e["downcast"]))
        else:
            out.append(str(e))
    return tuple(out)


def op_place(o):
    if "copy" in o:
        return o["copy"]
    if "move" in o:
        return o["move"]
    return None


class Fn:
    def __init__(self, body):
        self.b = body
        self.path = body["path"]
        self.blocks = body["blocks"]
        self.n = len(self.blocks)
        self.arg_count = body["arg_count"]
        # names of locals
        self.names = {}
        self.name_to_local = defaultdict(list)
        for d in body["debug"]:
            pl = d.get("place")
            if pl is not None and not pl["p"]:
                self.names.setdefault(pl["l"], d["name"])
                if pl["l"] not in self.name_to_local[d["name"]]:
                    self.name_to_local[d["name"]].append(pl["l"])
        # upvar names for closures: debug entries with projection on _1
        self.upvars = {}
        for d in body["debug"]:
            pl = d.get("place")
            if pl is not None and pl["p"] and pl["l"] == 1:
                self.upvars[place_key(pl)] = d["name"]
        self._build_defs()
        self._build_edges()
        self._dom = None
        self._reach_cache = {}

    # ------------------------------------------------------------ defs
    def _build_defs(self):
        self.defs = defaultdict(list)  # local -> [(bb, idx|'term', kind, payload)]
        self.partial_defs = defaultdict(list)
        for l in range(1, self.arg_count + 1):
            self.defs[l].append((-1, -1, "arg", None))
        for bi, blk in enumerate(self.blocks):
            for si, s in enumerate(blk["stmts"]):
                if s["k"] == "assign":
                    lhs = s["lhs"]
                    if not lhs["p"]:
                        self.defs[lhs["l"]].append((bi, si, "assign", s["rv"]))
                    else:
                        self.partial_defs[lhs["l"]].append((bi, si, "assign", s))
                elif s["k"] == "setdiscr":
                    self.partial_defs[s["lhs"]["l"]].append((bi, si, "setdiscr", s))
            t = blk["term"]
            if t["k"] == "call":
                d = t["dest"]
                if not d["p"]:
                    self.defs[d["l"]].append((bi, "term", "call", t))
                else:
                    self.partial_defs[d["l"]].append((bi, "term", "call", t))

    def single_def(self, l):
        ds = self.defs.get(l, [])
        if len(ds) == 1 and not self.partial_defs.get(l):
            return ds[0]
        return None

    # ------------------------------------------------------------ edges
    def const_of_operand(self, o, depth=0):
        """Resolve an operand to an integer/bool constant if it is one (chasing single-def temps)."""
        if "const" in o:
            v = o["const"].get("val")
            if isinstance(v, bool):
                return int(v)
            if isinstance(v, int):
                return v
            if isinstance(v, dict) and "discr" in v:
                return v["discr"]
            return None
        if depth > 6:
            return None
        p = op_place(o)
        if p is None or p["p"]:
            return None
        d = self.single_def(p["l"])
        if d and d[2] == "assign" and "use" in d[3]:
            return self.const_of_operand(d[3]["use"], depth + 1)
        return None

    def _build_edges(self):
        self.succ = [[] for _ in range(self.n)]  # normal edges (feasible)
        self.unwind = [[] for _ in range(self.n)]
        self.infeasible = []
        for bi, blk in enumerate(self.blocks):
            t = blk["term"]
            k = t["k"]
            if k == "goto":
                self.succ[bi].append(t["target"])
            elif k == "switch":
                c = None
                d = t["discr"]
                if "const" in d and "param" not in d["const"]:
                    c = self.const_of_operand(d)
                elif "const" not in d:
                    c = self.const_of_operand(d)
                targets = [(v, bb) for v, bb in t["arms"]]
                if c is not None:
                    chosen = None
                    for v, bb in targets:
                        if v == c:
                            chosen = bb
                    if chosen is None:
                        chosen = t["otherwise"]
                    self.succ[bi].append(chosen)
                    for v, bb in targets + [(None, t["otherwise"])]:
                        if bb != chosen:
                            self.infeasible.append((bi, bb))
                else:
                    for v, bb in targets:
                        if bb not in self.succ[bi]:
                            self.succ[bi].append(bb)
                    if t["otherwise"] not in self.succ[bi]:
                        # `otherwise` of an exhaustive bool/enum switch usually goes to an
                        # `unreachable` block; keep it (harmless: unreachable has no successors)
                        self.succ[bi].append(t["otherwise"])
            elif k in ("call", "assert", "drop"):
                if t.get("target") is not None:
                    self.succ[bi].append(t["target"])
                u = t.get("unwind")
                if isinstance(u, int):
                    self.unwind[bi].append(u)
            # return / unreachable / resume / terminate: none
        self.pred = [[] for _ in range(self.n)]
        for a in range(self.n):
            for b in self.succ[a]:
                self.pred[b].append(a)
        self.returns = [i for i, b in enumerate(self.blocks) if b["term"]["k"] == "return"]
        self.live = self.reach_from(0)

    def succs(self, b, unwind=False):
        if unwind:
            return self.succ[b] + self.unwind[b]
        return self.succ[b]

    # ------------------------------------------------------------ reachability
    def reach_from(self, start, removed_nodes=(), removed_edges=(), unwind=False, include_start=True):
        """Set of blocks reachable from `start` (a block or iterable) along feasible edges."""
        removed_nodes = set(removed_nodes)
        removed_edges = set(removed_edges)
        starts = [start] if isinstance(start, int) else list(start)
        seen = set()
        stack = []
        for s in starts:
            if s in removed_nodes:
                continue
            if include_start:
                seen.add(s)
            stack.append(s)
        first = set(starts)
        while stack:
            a = stack.pop()
            for b in self.succs(a, unwind):
                if b in removed_nodes or (a, b) in removed_edges:
                    continue
                if b not in seen:
                    seen.add(b)
                    stack.append(b)
        return seen

    def must_pass(self, target, via_nodes=(), via_edges=(), start=0, unwind=False):
        """True iff every path start ->* target passes one of via_nodes / via_edges.
        (target unreachable at all => True vacuously; callers check liveness separately.)"""
        if target in set(via_nodes):
            return True
        r = self.reach_from(start, removed_nodes=via_nodes, removed_edges=via_edges, unwind=unwind)
        return target not in r

    def all_paths_to_return_pass(self, start, via_nodes=(), via_edges=()):
        """True iff every path from `start` to a normal Return passes via_nodes/via_edges."""
        r = self.reach_from(start, removed_nodes=via_nodes, removed_edges=via_edges)
        return not any(x in r for x in self.returns)

    # ------------------------------------------------------------ dominators
    def dominators(self):
        if self._dom is not None:
            return self._dom
        n = self.n
        live = sorted(self.live)
        dom = {b: set(live) for b in live}
        dom[0] = {0}
        changed = True
        while changed:
            changed = False
            for b in live:
                if b == 0:
                    continue
                ps = [p for p in self.pred[b] if p in self.live]
                if not ps:
                    continue
                new = set.intersection(*(dom[p] for p in ps)) | {b}
                if new != dom[b]:
                    dom[b] = new
                    changed = True
        self._dom = dom
        return dom

    def dominates(self, a, b):
        return a in self.dominators().get(b, set())

    # ------------------------------------------------------------ loops
    def loops(self):
        """Natural loops: list of (header, body_set, back_edge_sources)."""
        dom = self.dominators()
        by_header = defaultdict(list)
        for a in self.live:
            for b in self.succ[a]:
                if b in dom.get(a, ()):  # b dominates a: back edge a->b
                    by_header[b].append(a)
        out = []
        for h, srcs in by_header.items():
            body = {h}
            stack = list(srcs)
            while stack:
                x = stack.pop()
                if x in body:
                    continue
                body.add(x)
                for p in self.pred[x]:
                    if p in self.live:
                        stack.append(p)
            out.append((h, body, srcs))
        return out

    def loop_exits(self, loop):
        h, body, srcs = loop
        exits = []
        for a in body:
            for b in self.succ[a]:
                if b not in body:
                    exits.append((a, b))
        return exits

    # ------------------------------------------------------------ sites
    def calls(self, pred=None):
        """Yield (bb, term) of call terminators in live blocks."""
        for bi in sorted(self.live):
            t = self.blocks[bi]["term"]
            if t["k"] == "call" and (pred is None or pred(t)):
                yield bi, t

    def all_calls(self, pred=None, include_cleanup=True):
        for bi, blk in enumerate(self.blocks):
            t = blk["term"]
            if t["k"] == "call" and (pred is None or pred(t)):
                yield bi, t

    def stmts(self, pred=None):
        for bi in sorted(self.live):
            for si, s in enumerate(self.blocks[bi]["stmts"]):
                if pred is None or pred(s):
                    yield bi, si, s

    def loc(self, bi, si=None):
        blk = self.blocks[bi]
        file = blk.get("file") or self.b["loc"]["file"]
        if si is None or not isinstance(si, int):
            return "%s:%d" % (file, blk["term"]["line"])
        return "%s:%d" % (file, blk["stmts"][si]["line"])

    # ------------------------------------------------------------ expressions
    def expr_of_operand(self, o, depth=0, at=None):
        if "const" in o:
            c = o["const"]
            if "fn" in c:
                return ("fnitem", c["fn"])
            if "param" in c:
                return ("cparam", c["param"])
            if "promoted" in c and isinstance(c["promoted"], int) and not isinstance(c["promoted"], bool):
                pe = self.promoted_expr(c["promoted"])
                if pe is not None:
                    return pe
            if "static" in c:
                return ("static", c["static"], c.get("offset", 0))
            v = c.get("val")
            if isinstance(v, dict):
                return ("const", v.get("variant"), c.get("def"), c["ty"])
            if v is not None:
                return ("const", int(v) if isinstance(v, bool) else v, c.get("def"), c["ty"])
            return ("constx", c.get("def") or c.get("text"), c["ty"])
        if "rt" in o:
            return ("rt", o["rt"])
        p = op_place(o)
        return self.expr_of_place(p, depth, at)

    def promoted_expr(self, idx):
        proms = self.b.get("promoted") or []
        if idx >= len(proms):
            return None
        pb = proms[idx]
        pseudo = {"path": self.path + "::{promoted#%d}" % idx, "blocks": pb["blocks"], "arg_count": 0,
                  "debug": [], "locals": pb["locals"], "loc": self.b["loc"], "promoted": []}
        try:
            pf = Fn(pseudo)
            return pf.expr_of_local(0)
        except Exception:
            return None

    def expr_of_place(self, p, depth=0, at=None):
        base = self.expr_of_local(p["l"], depth, at)
        e = base
        for el in p["p"]:
            if el == "deref":
                if e[0] == "ref":
                    e = e[1]
                else:
                    e = ("deref", e)
            elif isinstance(el, dict):
                if "f" in el:
                    nm = el["name"]
                    # tuple field of a checked-arith pair
                    if e[0] == "checked" and nm == "0":
                        e = ("bin", e[1], e[2], e[3], e[4])
                    elif e[0] == "checked" and nm == "1":
                        e = ("overflowflag", e[1], e[2], e[3])
                    elif e[0] == "agg" and nm in e[2]:
                        e = e[2][nm]
                    elif e[0] == "tuple" and nm.isdigit() and int(nm) < len(e[1]):
                        e = e[1][int(nm)]
                    elif e[0] == "closure" and len(e) > 2 and isinstance(e[2], dict) and nm in e[2]:
                        e = e[2][nm]        # a captured variable of a closure value built in this body
                    else:
                        e = ("field", e, nm, el.get("of"))
                elif "index" in el:
                    e = ("index", e, self.expr_of_local(el["index"], depth + 1, at))
                elif "cindex" in el:
                    e = ("cindex", e, el["cindex"], el["from_end"])
                elif "subslice" in el:
                    e = ("subslice", e, tuple(el["subslice"]), el["from_end"])
                elif "downcast" in el:
                    e = ("downcast", e, el["variant"] or el["downcast"])
            else:
                e = (str(el), e)
        return e

    def expr_of_local(self, l, depth=0, at=None):
        if depth > 40:
            return ("deep", l)
        if 1 <= l <= self.arg_count:
            if len(self.defs.get(l, [])) <= 1:
                return ("arg", l, self.names.get(l))
            return ("local", l, self.names.get(l))  # reassigned parameter: use def_exprs(l, at=..)
        d = self.single_def(l)
        if d is None:
            return ("local", l, self.names.get(l))
        bi, si, kind, payload = d
        if kind == "arg":
            return ("arg", l, self.names.get(l))
        if kind == "call":
            t = payload
            args = tuple(self.expr_of_operand(a, depth + 1, at) for a in t["args"])
            fn = t.get("resolved") or t.get("fn")
            if fn is None:
                fn = ("indirect", self.expr_of_operand(t["fn_operand"], depth + 1, at))
            return ("call", fn, args, t.get("fn"), (bi, l))
        return self.expr_of_rvalue(payload, depth + 1, at, l)

    def expr_of_rvalue(self, rv, depth=0, at=None, l=None):
        if "use" in rv:
            return self.expr_of_operand(rv["use"], depth, at)
        if "ref" in rv:
            return ("ref", self.expr_of_place(rv["ref"], depth, at), rv["mut"])
        if "rawptr" in rv:
            return ("ref", self.expr_of_place(rv["rawptr"], depth, at), rv["mut"])
        if "cast" in rv:
            return ("cast", rv["kind"], self.expr_of_operand(rv["cast"], depth, at), rv["from"], rv["to"])
        if "bin" in rv:
            op = rv["bin"]
            a = self.expr_of_operand(rv["a"], depth, at)
            b = self.expr_of_operand(rv["b"], depth, at)
            if op.endswith("WithOverflow"):
                return ("checked", op[: -len("WithOverflow")], a, b, rv["ty"])
            if op.endswith("Unchecked"):
                op = op[: -len("Unchecked")]
            return ("bin", op, a, b, rv["ty"])
        if "un" in rv:
            return ("un", rv["un"], self.expr_of_operand(rv["a"], depth, at))
        if "discr" in rv:
            return ("discr", self.expr_of_place(rv["discr"], depth, at), rv.get("of"))
        if "agg" in rv:
            k = rv["agg"]
            ops = [self.expr_of_operand(o, depth, at) for o in rv["ops"]]
            if k == "adt":
                names = rv.get("fields", [])
                return ("agg", rv["adt"] + "::" + rv["variant"],
                        {names[i] if i < len(names) else str(i): o for i, o in enumerate(ops)})
            if k == "closure":
                names = rv.get("fields", [])
                return ("closure", rv["closure"],
                        {names[i] if i < len(names) else str(i): o for i, o in enumerate(ops)})
            if k == "tuple":
                return ("tuple", tuple(ops))
            return ("aggx", k, tuple(ops))
        if "repeat" in rv:
            return ("repeat", self.expr_of_operand(rv["repeat"], depth, at), rv["n"])
        return ("rvx", str(rv)[:80])

    def reaching_defs(self, l, bb):
        """Definitions of local `l` that may reach the terminator of block `bb` (block-level
        reaching definitions over feasible normal edges)."""
        defs = self.defs.get(l, [])
        by_block = {}
        for d in defs:
            by_block.setdefault(d[0], []).append(d)

        def last_def(b, include_term):
            ds = by_block.get(b, [])
            st = [d for d in ds if d[1] != "term"]
            tm = [d for d in ds if d[1] == "term"]
            if include_term and tm:
                return tm[-1]
            if st:
                return max(st, key=lambda d: d[1])
            return None

        d0 = last_def(bb, False)
        if d0 is not None:
            return [d0]
        out = []
        seen = {bb}
        stack = [bb]
        while stack:
            x = stack.pop()
            if x == 0 and -1 in by_block:
                for d in by_block[-1]:
                    if d not in out:
                        out.append(d)
            for p in self.pred[x]:
                if p not in self.live:
                    continue
                d = last_def(p, True)
                if d is not None:
                    if d not in out:
                        out.append(d)
                    continue
                if p not in seen:
                    seen.add(p)
                    stack.append(p)
        return out

    def def_exprs(self, l, at=None):
        """Definitions of a local as expressions: all of them (flow-insensitive), or only those
        reaching the terminator of block `at`."""
        out = []
        ds = self.defs.get(l, []) if at is None else self.reaching_defs(l, at)
        for bi, si, kind, payload in ds:
            if kind == "arg":
                out.append((bi, si, ("arg", l, self.names.get(l))))
            elif kind == "call":
                t = payload
                args = tuple(self.expr_of_operand(a) for a in t["args"])
                fn = t.get("resolved") or t.get("fn") or "?"
                out.append((bi, si, ("call", fn, args, t.get("fn"), (bi, l))))
            else:
                out.append((bi, si, self.expr_of_rvalue(payload, 0, None, l)))
        return out


# ---------------------------------------------------------------- expression helpers

def strip_casts(e):
    while e and e[0] == "cast" and e[1] in ("IntToInt", "PtrToPtr", "PointerCoercion(Unsize, Implicit)",
                                              "PointerCoercion(Unsize, AsCast)", "Transmute",
                                              "PointerCoercion(MutToConstPointer, Implicit)"):
        e = e[2]
    return e


def walk(e):
    """Yield all sub-expressions (pre-order)."""
    if not isinstance(e, tuple):
        return
    yield e
    for x in e[1:]:
        if isinstance(x, tuple):
            if x and isinstance(x[0], str):
                yield from walk(x)
            else:
                for y in x:
                    if isinstance(y, tuple):
                        yield from walk(y)
        elif isinstance(x, dict):
            for y in x.values():
                yield from walk(y)


def show(e, depth=0):
    """Compact human-readable rendering of an expression tree."""
    if not isinstance(e, tuple) or not e:
        return str(e)
    k = e[0]
    if depth > 12:
        return "…"
    if k == "const":
        return "%s" % (e[2] if e[2] else e[1],) if e[2] else str(e[1])
    if k == "constx":
        return str(e[1])
    if k == "static":
        return "static " + str(e[1])
    if k == "arg" or k == "local":
        return str(e[2] or "_%d" % e[1])
    if k == "field":
        return "%s.%s" % (show(e[1], depth + 1), e[2])
    if k == "deref":
        return "*%s" % show(e[1], depth + 1)
    if k == "ref":
        return "&%s" % show(e[1], depth + 1)
    if k == "cast":
        return "(%s as %s)" % (show(e[2], depth + 1), e[4])
    if k == "bin":
        return "%s(%s, %s)" % (e[1], show(e[2], depth + 1), show(e[3], depth + 1))
    if k == "checked":
        return "checked%s(%s, %s)" % (e[1], show(e[2], depth + 1), show(e[3], depth + 1))
    if k == "un":
        return "%s(%s)" % (e[1], show(e[2], depth + 1))
    if k == "call":
        fn = e[1] if isinstance(e[1], str) else "indirect"
        return "%s(%s)" % (fn, ", ".join(show(a, depth + 1) for a in e[2]))
    if k == "index":
        return "%s[%s]" % (show(e[1], depth + 1), show(e[2], depth + 1))
    if k == "discr":
        return "discr(%s)" % show(e[1], depth + 1)
    if k == "agg":
        return "%s{%s}" % (e[1], ", ".join("%s: %s" % (n, show(v, depth + 1)) for n, v in e[2].items()))
    if k == "closure":
        return "closure %s" % e[1]
    if k == "tuple":
        return "(%s)" % ", ".join(show(x, depth + 1) for x in e[1])
    if k == "downcast":
        return "(%s as %s)" % (show(e[1], depth + 1), e[2])
    return str(e)[:120]


# ---------------------------------------------------------------- polynomials over atoms

class Poly:
    """Polynomial with rational coefficients over string atoms: dict {monomial(tuple of atoms sorted): coeff}."""

    def __init__(self, terms=None):
        self.t = {k: v for k, v in (terms or {}).items() if v != 0}

    @staticmethod
    def const(c):
        return Poly({(): Fraction(c)})

    @staticmethod
    def atom(a):
        return Poly({(a,): Fraction(1)})

    def __add__(self, o):
        t = dict(self.t)
        for k, v in o.t.items():
            t[k] = t.get(k, 0) + v
        return Poly(t)

    def __neg__(self):
        return Poly({k: -v for k, v in self.t.items()})

    def __sub__(self, o):
        return self + (-o)

    def __mul__(self, o):
        t = {}
        for k1, v1 in self.t.items():
            for k2, v2 in o.t.items():
                k = tuple(sorted(k1 + k2))
                t[k] = t.get(k, 0) + v1 * v2
        return Poly(t)

    def __eq__(self, o):
        return isinstance(o, Poly) and self.t == o.t

    def __hash__(self):
        return hash(tuple(sorted(self.t.items())))

    def atoms(self):
        s = set()
        for k in self.t:
            s.update(k)
        return s

    def has_opaque(self):
        return any(a.startswith("?") for a in self.atoms())

    def __repr__(self):
        if not self.t:
            return "0"
        parts = []
        for k in sorted(self.t, key=lambda k: (len(k), k)):
            v = self.t[k]
            mon = "*".join(k)
            if not k:
                parts.append(str(v))
            elif v == 1:
                parts.append(mon)
            elif v == -1:
                parts.append("-" + mon)
            else:
                parts.append("%s*%s" % (v, mon))
        return " + ".join(parts).replace("+ -", "- ")


def poly_of(e, atomizer, depth=0):
    """Turn an integer expression tree into a Poly. `atomizer(e)` returns an atom name for
    leaves it recognises (or None). Unknown leaves become opaque atoms '?…' (fail closed)."""
    e0 = e
    a = atomizer(e)
    if a is not None:
        return Poly.atom(a)
    k = e[0]
    if k == "const" and isinstance(e[1], int):
        return Poly.const(e[1])
    if k == "cast" and e[1] == "IntToInt":
        return poly_of(e[2], atomizer, depth + 1)
    if k in ("bin", "checked"):
        op = e[1]
        x = poly_of(e[2], atomizer, depth + 1)
        y = poly_of(e[3], atomizer, depth + 1)
        if op == "Add":
            return x + y
        if op == "Sub":
            return x - y
        if op == "Mul":
            return x * y
    return Poly.atom("?" + show(e0)[:60])


# ---------------------------------------------------------------- decision tables of loop-free bodies

_VARIANT_INDEX = {}      # "Enum::Variant" -> variant index, filled from the aggregates met while evaluating paths

_STD_VARIANTS = {"None": 0, "Some": 1, "Ok": 0, "Err": 1, "Continue": 0, "Break": 1, "Less": 255, "Equal": 0, "Greater": 1,
                 "Included": 0, "Excluded": 1, "Unbounded": 2}


def decision_paths(fn, limit=400, with_calls=False, with_env=False, start=0, stops=(), free_locals=False, with_trace=False,
                   init_env=None, closure_bodies=None, bb_off=0):
    """Enumerate the acyclic entry→return paths of a loop-free body, evaluating assignments
    flow-sensitively into expression trees (parameters stay symbolic, calls stay opaque).
    Returns [(conditions, result)] with conditions = [(discr_expr, chosen_value or None for `otherwise`,
    all_arm_values)] and result = expression of the return place. Raises Inconclusive on loops."""
    out = []

    def ev_place(p, env):
        l = p["l"]
        projs = p["p"]
        if with_trace and projs and projs[0] == "deref" and l in env.get("#mutref", {}) and env["#mutref"][l] in env \
                and isinstance(env[env["#mutref"][l]], tuple) and env[env["#mutref"][l]][:1] in (("agg",), ("upd",)):
            # `(*p).f` where p = &mut local aggregate: the local's current value (it may have been updated through p)
            e = env[env["#mutref"][l]]
            projs = projs[1:]
        elif projs and projs[0] == "deref" and ("mem", l) in env and not with_trace:
            e = env[("mem", l)]          # the pointee was (partly) overwritten on this path
            projs = projs[1:]
        elif l in env:
            e = env[l]
        elif 1 <= l <= fn.arg_count:
            e = ("arg", l, fn.names.get(l))
        elif free_locals:
            # defined before the region: a single-assignment local (e.g. a closure value, a hoisted borrow) is
            # replaced by its definition; anything re-assigned stays symbolic (loop-carried state)
            ds_ = fn.defs.get(l, [])
            e = None
            if len(ds_) == 1 and ds_[0][2] == "assign":
                try:
                    e = fn.expr_of_local(l)
                except Exception:
                    e = None
                if e is not None and e[0] == "local":
                    e = None
            if e is None:
                e = ("free", l, fn.names.get(l))
        else:
            raise Inconclusive("%s: read of a local without a definition on this path (_%d)" % (fn.path, l))
        through_ptr = False
        for el in projs:
            if el == "deref":
                if with_trace and e[0] == "closure":
                    continue              # `(*self).capture` of a closure value bound by the combinator model
                through_ptr = True
                e = e[1] if e[0] == "ref" else ("deref", e)
            elif isinstance(el, dict) and "f" in el:
                nm = el["name"]
                if e[0] == "checked" and nm == "0":
                    e = ("bin", e[1], e[2], e[3], e[4])
                elif e[0] == "checked" and nm == "1":
                    e = ("overflowflag",)
                elif e[0] == "agg" and nm in e[2]:
                    e = e[2][nm]
                elif e[0] == "closure" and nm in e[2]:
                    e = e[2][nm]
                elif e[0] == "upd" and nm in e[2]:
                    e = e[2][nm]
                elif e[0] == "upd":
                    e = ("field", e[1], nm, el.get("of"))
                elif e[0] == "tuple" and nm.isdigit() and int(nm) < len(e[1]):
                    e = e[1][int(nm)]
                else:
                    e = ("field", e, nm, el.get("of"))
            elif isinstance(el, dict) and "downcast" in el:
                if e[0] == "agg" and isinstance(e[1], str) and el.get("variant") and e[1].endswith("::" + el["variant"]):
                    pass  # the value is known to be this variant: the downcast is the identity
                else:
                    e = ("downcast", e, el["variant"] or el["downcast"])
            elif isinstance(el, dict) and "index" in el:
                e = ("index", e, ev_place({"l": el["index"], "p": []}, env))
            elif isinstance(el, dict) and "cindex" in el:
                e = ("cindex", e, el["cindex"], bool(el.get("from_end")), el.get("min_length"))
            elif isinstance(el, dict) and "subslice" in el:
                e = ("subslice", e, el["subslice"][0], el["subslice"][1], bool(el.get("from_end")))
            else:
                e = ("proj", e, str(el))
        if with_trace and through_ptr and e[0] in ("field", "deref"):
            # trace mode: a read through a pointer is stamped with the position of the last event that may have written
            # a place of that name (a store to a field so named, a call handed `&mut` of one): reads of unchanged memory
            # are the same expression, a read after a store is a different one
            nm = e[2] if e[0] == "field" else None
            stamp = 0
            tr = env.get("#trace", ())
            for i_ in range(len(tr) - 1, -1, -1):
                ev_ = tr[i_]
                if ev_[0] == "store":
                    pl_ = ev_[1]
                    if nm is None or (isinstance(pl_, tuple) and pl_ and pl_[0] == "field" and pl_[2] == nm) or (isinstance(pl_, tuple) and pl_ and pl_[0] != "field"):
                        stamp = i_ + 1
                        break
                elif ev_[0] == "call" and _takes_mut(ev_[2], nm):
                    stamp = i_ + 1
                    break
            e = ("rd", e, stamp)
        return e

    def place_name(p, env):
        """The place an assignment writes, as an expression (never its current contents)."""
        l = p["l"]
        if 1 <= l <= fn.arg_count and l not in env:
            e = ("arg", l, fn.names.get(l))
        elif l in env and isinstance(env[l], tuple) and env[l] and env[l][0] in ("ref", "call", "arg", "rd", "cast"):
            e = env[l]
        else:
            e = ("local", l, fn.names.get(l))
        for el in p["p"]:
            if el == "deref":
                e = e[1] if e[0] == "ref" else ("deref", e)
            elif isinstance(el, dict) and "f" in el:
                e = ("field", e, el["name"], el.get("of"))
            else:
                e = ("proj", e, str(el))
        return e

    def ev_op(o, env):
        if "const" in o:
            return fn.expr_of_operand(o)
        if "rt" in o:
            return ("rt", o["rt"])
        return ev_place(o.get("copy") or o.get("move"), env)

    def ev_rv(rv, env):
        if "use" in rv:
            return ev_op(rv["use"], env)
        if "ref" in rv:
            return ("ref", ev_place(rv["ref"], env), rv["mut"])
        if "rawptr" in rv:
            return ("ref", ev_place(rv["rawptr"], env), rv["mut"])
        if "cast" in rv:
            return ("cast", rv["kind"], ev_op(rv["cast"], env), rv["from"], rv["to"])
        if "bin" in rv:
            op = rv["bin"]
            a, b = ev_op(rv["a"], env), ev_op(rv["b"], env)
            if op.endswith("WithOverflow"):
                return ("checked", op[:-len("WithOverflow")], a, b, rv["ty"])
            return ("bin", op.replace("Unchecked", ""), a, b, rv["ty"])
        if "un" in rv:
            a_ = ev_op(rv["a"], env)
            if rv["un"] == "Not" and a_[0] == "const" and a_[1] in (0, 1, True, False) and str(a_[3] if len(a_) > 3 else "") == "bool":
                return ("const", int(not a_[1]), None, "bool")
            return ("un", rv["un"], a_)
        if "discr" in rv:
            inner = ev_place(rv["discr"], env)
            # discriminant of a value whose variant is known on this path (std enums): a constant
            if inner[0] == "agg" and isinstance(inner[1], str):
                head, _, var = inner[1].rpartition("::")
                if var in _STD_VARIANTS and any(head.endswith(x) for x in ("option::Option", "result::Result", "ops::ControlFlow", "cmp::Ordering", "ops::Bound", "range::Bound")):
                    return ("const", _STD_VARIANTS[var], None, "isize")
                if with_trace and inner[1] in _VARIANT_INDEX:
                    return ("const", _VARIANT_INDEX[inner[1]], None, "isize")     # an enum value built on this path
            return ("discr", inner, rv.get("of"))
        if "agg" in rv:
            ops = [ev_op(o, env) for o in rv["ops"]]
            k = rv["agg"]
            if k == "adt":
                names = rv.get("fields", [])
                if isinstance(rv.get("vidx"), int) and rv.get("enum", True):
                    _VARIANT_INDEX.setdefault(rv["adt"] + "::" + rv["variant"], rv["vidx"])
                return ("agg", rv["adt"] + "::" + rv["variant"], {names[i] if i < len(names) else str(i): o for i, o in enumerate(ops)})
            if k == "tuple":
                return ("tuple", tuple(ops))
            if k == "closure":
                names = rv.get("fields", [])
                return ("closure", rv.get("closure"), {names[i] if i < len(names) else str(i): o for i, o in enumerate(ops)})
            return ("aggx", k, tuple(ops))
        return ("rvx", str(rv)[:60])

    def go(bb, env, conds, seen):
        if len(out) > limit:
            raise Inconclusive("%s: too many paths" % fn.path)
        if bb in stops and seen:
            # region mode (e.g. one loop iteration): the path ends when it reaches a stop block
            out.append((conds, ("stop", bb), dict(env)))
            return
        if bb in seen:
            raise Inconclusive("%s is not loop-free" % fn.path)
        seen = seen | {bb}
        env = dict(env)
        blk = fn.blocks[bb]
        for st in blk["stmts"]:
            if st["k"] != "assign":
                continue
            v = ev_rv(st["rv"], env)
            lhs = st["lhs"]
            if not lhs["p"]:
                env[lhs["l"]] = v
                rv_ = st["rv"]
                if "ref" in rv_ and rv_.get("mut") and not rv_["ref"]["p"]:
                    mr = dict(env.get("#mutref", {}))
                    mr[lhs["l"]] = rv_["ref"]["l"]
                    env["#mutref"] = mr
                elif "use" in rv_ and (rv_["use"].get("move") or rv_["use"].get("copy")) and not (rv_["use"].get("move") or rv_["use"].get("copy"))["p"] \
                        and (rv_["use"].get("move") or rv_["use"].get("copy"))["l"] in env.get("#mutref", {}):
                    mr = dict(env["#mutref"])
                    mr[lhs["l"]] = mr[(rv_["use"].get("move") or rv_["use"].get("copy"))["l"]]
                    env["#mutref"] = mr
            else:
                if with_trace:
                    env["#trace"] = tuple(env.get("#trace", ())) + (("store", place_name(lhs, env), v, bb),)
                # field update of an aggregate local: record as an updated aggregate when possible
                base = env.get(lhs["l"])
                el = lhs["p"][-1]
                mr_ = env.get("#mutref", {})
                if with_trace and lhs["p"][0] == "deref" and lhs["l"] in mr_ and len(lhs["p"]) == 2 and isinstance(el, dict) and "f" in el \
                        and isinstance(env.get(mr_[lhs["l"]]), tuple) and env[mr_[lhs["l"]]][:1] == ("agg",):
                    # store through `&mut local aggregate`
                    tgt_ = mr_[lhs["l"]]
                    d = dict(env[tgt_][2])
                    d[el["name"]] = v
                    env[tgt_] = ("agg", env[tgt_][1], d)
                elif with_trace and lhs["p"] == ["deref"] and lhs["l"] in mr_ and isinstance(env.get(mr_[lhs["l"]]), tuple) and env[mr_[lhs["l"]]][:1] == ("agg",):
                    env[mr_[lhs["l"]]] = v        # `*p = value` through `&mut local aggregate`
                elif base is not None and base[0] in ("agg",) and isinstance(el, dict) and "f" in el and len(lhs["p"]) == 1:
                    d = dict(base[2])
                    d[el["name"]] = v
                    env[lhs["l"]] = ("agg", base[1], d)
                elif base is None and 1 <= lhs["l"] <= fn.arg_count and isinstance(el, dict) and "f" in el and len(lhs["p"]) == 1:
                    # field update of a by-value parameter
                    env[lhs["l"]] = ("upd", ("arg", lhs["l"], fn.names.get(lhs["l"])), {el["name"]: v})
                elif lhs["p"][0] == "deref" and 1 <= lhs["l"] <= fn.arg_count and lhs["l"] not in env and len(lhs["p"]) <= 2 \
                        and (len(lhs["p"]) == 1 or (isinstance(el, dict) and "f" in el)):
                    # store through a reference parameter: `*self = v` or `self.f = v`
                    cur = env.get(("mem", lhs["l"]), ("deref", ("arg", lhs["l"], fn.names.get(lhs["l"]))))
                    if len(lhs["p"]) == 1:
                        env[("mem", lhs["l"])] = v
                    elif cur[0] == "agg":
                        d = dict(cur[2])
                        d[el["name"]] = v
                        env[("mem", lhs["l"])] = ("agg", cur[1], d)
                    else:
                        d = dict(cur[2]) if cur[0] == "upd" else {}
                        d[el["name"]] = v
                        env[("mem", lhs["l"])] = ("upd", cur[1] if cur[0] == "upd" else cur, d)
                elif base is not None and base[0] in ("call", "upd") and isinstance(el, dict) and "f" in el and len(lhs["p"]) == 1:
                    # field update of a by-value struct that came out of a call: remember the overridden fields
                    d = dict(base[2]) if base[0] == "upd" else {}
                    d[el["name"]] = v
                    env[lhs["l"]] = ("upd", base[1] if base[0] == "upd" else base, d)
                else:
                    env[("store", len(env))] = ("store", ev_place(lhs, env) if lhs["l"] in env or lhs["l"] <= fn.arg_count else None, v)
        t = blk["term"]
        k = t["k"]
        if k == "return":
            if stops:
                out.append((conds, ("return", env.get(0)), dict(env)))
            elif with_trace:
                out.append((conds, env.get(0), list(env.get("#trace", ()))))
            elif with_env:
                out.append((conds, env.get(0), dict(env)))
            elif with_calls:
                out.append((conds, env.get(0), list(env.get("#calls", ()))))
            else:
                out.append((conds, env.get(0)))
        elif k == "goto":
            go(t["target"], env, conds, seen)
        elif k == "switch":
            d = ev_op(t["discr"], env)
            allv = [v for v, _ in t["arms"]]
            # constant discriminant: follow only the taken edge
            if d[0] == "const" and isinstance(d[1], (int, bool)):
                tgt = None
                for v, b_ in t["arms"]:
                    if v == int(d[1]):
                        tgt = b_
                go(tgt if tgt is not None else t["otherwise"], env, conds, seen)
                return
            # the same value tested a second time on this path (a bool local used by two `if`s): only the edge that
            # agrees with the first decision is feasible.  Values read through a pointer are excluded (the pointee may
            # have been changed in between).
            if (with_trace and _versioned(d)) or not any(isinstance(x, tuple) and x and x[0] in ("deref", "call_mut") for x in walk(d)):
                prev = [c_ for c_ in conds if c_[0] == d]
                if prev:
                    pv, pall = prev[-1][1], prev[-1][2]
                    feas = []
                    for v, b_ in t["arms"]:
                        if (pv is not None and v == pv) or (pv is None and v not in pall):
                            feas.append((v, b_))
                    if pv is None and not feas:
                        # previous decision was `otherwise`; this switch's otherwise covers the remaining values
                        go(t["otherwise"], env, conds, seen)
                        return
                    if pv is not None and not feas:
                        go(t["otherwise"], env, conds, seen)
                        return
                    if len(feas) == 1 and pv is not None:
                        go(feas[0][1], env, conds, seen)
                        return
            done = set()
            for v, b_ in t["arms"]:
                e2 = env
                if with_trace:
                    e2 = dict(env)
                    e2["#trace"] = tuple(env.get("#trace", ())) + (("cond", d, v, tuple(allv), bb),)
                go(b_, e2, conds + [(d, v, allv)], seen)
                done.add(b_)
            if fn.blocks[t["otherwise"]]["term"]["k"] != "unreachable":
                e2 = env
                if with_trace:
                    e2 = dict(env)
                    e2["#trace"] = tuple(env.get("#trace", ())) + (("cond", d, None, tuple(allv), bb),)
                go(t["otherwise"], e2, conds + [(d, None, allv)], seen)
        elif k == "call":
            args = tuple(ev_op(a, env) for a in t["args"])
            name = t.get("resolved") or t.get("fn") or "?"
            d = t["dest"]
            if with_trace and closure_bodies is not None and not d["p"] and t["target"] is not None:
                forks = _combinator_forks(fn, t, name, args, env, closure_bodies, bb + bb_off, limit)
                if forks is not None:
                    for extra_conds, val, tr in forks:
                        e2 = dict(env)
                        e2["#trace"] = tr
                        e2[d["l"]] = val
                        go(t["target"], e2, conds + extra_conds, seen)
                    return
            if not d["p"]:
                val = ("call", name, args, t.get("fn"), (bb + bb_off, d["l"]))
                # `x?` on a value whose variant is known on this path
                if str(t.get("fn")).endswith("Try::branch") and args and args[0][0] == "agg" and isinstance(args[0][1], str):
                    var = args[0][1].rsplit("::", 1)[-1]
                    if var in ("Some", "Ok"):
                        val = ("agg", "std::ops::ControlFlow::Continue", {"0": args[0][2].get("0", ("tuple", ()))})
                    elif var in ("None", "Err"):
                        val = ("agg", "std::ops::ControlFlow::Break", {"0": args[0]})
                env[d["l"]] = val
            env["#calls"] = tuple(env.get("#calls", ())) + ((name, (bb, d["l"]), args),)
            if with_trace:
                env["#trace"] = tuple(env.get("#trace", ())) + (("call", name, args, bb + bb_off, d["l"]),)
            # a local handed to the callee as `&mut local` may have been changed by it
            for a_ in t["args"]:
                p_ = a_.get("move") or a_.get("copy")
                if p_ is not None and not p_["p"] and p_["l"] in env.get("#mutref", {}):
                    tgt = env["#mutref"][p_["l"]]
                    old_v = env.get(tgt, ("arg", tgt, fn.names.get(tgt)) if 1 <= tgt <= fn.arg_count else ("free", tgt, fn.names.get(tgt)))
                    env[tgt] = ("call_mut", name, old_v, (bb, d["l"]))
            if t["target"] is not None:
                go(t["target"], env, conds, seen)
        elif k in ("assert", "drop"):
            if with_trace and k == "drop" and t.get("place") is not None:
                try:
                    env["#trace"] = tuple(env.get("#trace", ())) + (("drop", ev_place(t["place"], env), t.get("ty") or "", bb),)
                except Inconclusive:
                    pass
            go(t["target"], env, conds, seen)
        # unreachable / resume: path ends without a result

    go(start, dict(init_env or {}), [], frozenset())
    return out


def _takes_mut(args, nm):
    """Does a call receive `&mut` of a place whose last field is `nm` (any place if nm is None)?"""
    for a in args:
        for x in walk(a):
            if x[0] == "ref" and len(x) > 2 and x[2]:
                t = x[1]
                while isinstance(t, tuple) and t and t[0] == "rd":
                    t = t[1]
                if nm is None or (isinstance(t, tuple) and t and t[0] == "field" and t[2] == nm):
                    return True
    return False


def _versioned(d):
    """Every read through a pointer in d carries a version stamp (trace mode), and nothing in it was handed out mutably."""
    def ok(e, under):
        if not isinstance(e, tuple) or not e:
            return True
        if e[0] == "call_mut":
            return False
        if e[0] == "deref" and not under:
            return False
        u = under or e[0] == "rd"
        for x in e[1:]:
            if isinstance(x, tuple):
                if x and isinstance(x[0], str):
                    if not ok(x, u):
                        return False
                else:
                    for y in x:
                        if isinstance(y, tuple) and not ok(y, u):
                            return False
            elif isinstance(x, dict):
                for y in x.values():
                    if not ok(y, u):
                        return False
        return True
    return ok(d, False)


_COMBINATORS = {
    # last path segment -> (receiver kind, {receiver variant: action})
    "ok_or_else": ("Option", {"Some": ("wrap", "std::result::Result::Ok", "payload"), "None": ("wrap", "std::result::Result::Err", "call0")}),
    "unwrap_or_else": ("Option", {"Some": ("payload",), "None": ("call0",)}),
    "map": ("Option", {"Some": ("wrap", "std::option::Option::Some", "call1"), "None": ("none",)}),
    "and_then": ("Option", {"Some": ("call1",), "None": ("none",)}),
    "or_else": ("Option", {"Some": ("recv",), "None": ("call0",)}),
    "then": ("bool", {1: ("wrap", "std::option::Option::Some", "call0"), 0: ("none",)}),
}


def _combinator_forks(fn, t, name, args, env, closure_bodies, call_id, limit):
    """Option / bool combinators that take a closure built on this path (`opt.ok_or_else(|| ..)`, `cond.then(|| ..)`):
    the call is replaced by its definition -- a test of the receiver, and the closure body (enumerated like the
    body itself) on the branch that runs it.  None if the call is not such a combinator."""
    seg = str(name).rsplit("::", 1)[-1]
    spec = _COMBINATORS.get(seg)
    if spec is None or len(args) != 2:
        return None
    kind, acts = spec
    nm = str(name)
    if kind == "Option" and "Option" not in nm:
        return None
    if kind == "bool" and "bool" not in nm:
        return None
    clo = args[1]
    while isinstance(clo, tuple) and clo and clo[0] == "ref":
        clo = clo[1]
    if not (isinstance(clo, tuple) and clo and clo[0] == "closure"):
        return None
    body = closure_bodies(clo[1])
    if body is None:
        return None
    recv = args[0]
    base_trace = tuple(env.get("#trace", ()))
    out = []
    if kind == "Option":
        known = None
        if recv[0] == "agg" and isinstance(recv[1], str) and recv[1].rsplit("::", 1)[-1] in ("Some", "None"):
            known = recv[1].rsplit("::", 1)[-1]
        cases = [(known, [], base_trace)] if known else [
            ("None", [(("discr", recv, None), 0, [0, 1])], base_trace + (("cond", ("discr", recv, None), 0, (0, 1), call_id),)),
            ("Some", [(("discr", recv, None), 1, [0, 1])], base_trace + (("cond", ("discr", recv, None), 1, (0, 1), call_id),))]
        payload = recv[2].get("0") if (known == "Some" and recv[0] == "agg") else ("field", ("downcast", recv, "Some"), "0", None)
    else:
        if recv[0] == "const" and recv[1] in (0, 1, True, False):
            cases = [(int(recv[1]), [], base_trace)]
        else:
            cases = [(0, [(recv, 0, [0])], base_trace + (("cond", recv, 0, (0,), call_id),)),
                     (1, [(recv, None, [0])], base_trace + (("cond", recv, None, (0,), call_id),))]
        payload = None
    for var, cconds, tr in cases:
        act = acts[var]
        inner = act[2] if act[0] == "wrap" else act[0]
        results = []
        if inner in ("call0", "call1"):
            ienv = {1: clo, "#trace": tr}
            if inner == "call1":
                ienv[2] = payload
            sub = decision_paths(Fn(body), limit=limit, with_trace=True, init_env=ienv, closure_bodies=closure_bodies, bb_off=call_id * 1000 + 100000)
            for sconds, sres, strace in sub:
                results.append((cconds + sconds, sres, tuple(strace)))
        elif inner == "payload":
            results.append((cconds, payload, tr))
        elif inner == "recv":
            results.append((cconds, recv, tr))
        elif inner == "none":
            results.append((cconds, ("agg", "std::option::Option::None", {}), tr))
        for rc, rv, rt in results:
            if act[0] == "wrap":
                rv = ("agg", act[1], {"0": rv})
            out.append((rc, rv, rt))
    return out

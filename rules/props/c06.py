"""C06 — every snapshot is safe to read and internally consistent (memory-safety clauses)."""
from cfg import Inconclusive, op_place, show, walk, strip_casts
from common import (resolve_capture, atomic_op, calls_to, callee, closure_creations, closure_consumer, field_chain, fn_of,
                    find_fn, get_fn, head_sources, peel, site, guards_of, field_assigns, field_borrows,
                    field_reads, is_diverging, ret_aggregates, uses_of_local)
from props.c09 import classify
from props.c12 import update_guard

PROP = "C06"
LEVEL = "other"
UNDECIDED = [
    "that the match list equals the matching subset of a processed prefix under every interleaving",
    "score/pattern coherence across cancelled runs for all histories",
    "ordering of the final list (decided only as far as the comparator chain and the sort's translation validation, C18)",
]
ASSUMPTIONS = [
    "boxcar::Vec::get returns Some only for fully initialised entries (C08.read-gated / C09.order-table)",
    "rayon's parallel map gives no ordering guarantee for side effects of the closure",
    "std Vec::retain / filter_map / extend visit elements in order",
]

GET_UNCHECKED = "boxcar::Vec::<T>::get_unchecked"
U32_MAX = 4294967295


def is_max(e):
    e = strip_casts(e)
    return e[0] == "const" and e[1] == U32_MAX


def idx_of_match(e):
    """Is the expression `<something>.idx` of a Match value?"""
    e = strip_casts(e)
    return e[0] == "field" and e[2] == "idx" and (e[3] or "").endswith("Match")


def closure_parent_consumer(facts, fn):
    """For a closure body: (parent Fn, consumer call term, arg position)."""
    parent_path = fn.b.get("parent")
    pb = facts.body("nucleo", parent_path)
    parent = fn_of(pb) if pb is not None else None
    cr = [c for c in closure_creations(parent) if c[3] == fn.path] if parent is not None else []
    if not cr:
        # after helper inlining the creation site can live in any body that absorbed the parent
        for b in facts.bodies_of("nucleo"):
            pf = fn_of(b)
            cr = [c for c in closure_creations(pf) if c[3] == fn.path]
            if cr:
                parent = pf
                break
    if not cr:
        raise Inconclusive("creation of %s not found in %s" % (fn.path, parent_path))
    cons = closure_consumer(parent, cr[0][2])
    return parent, cr[0], cons


def rule_unchecked_feed(ctx):
    facts = ctx.facts
    sites_ = calls_to(facts, "nucleo", lambda t: callee(t) == GET_UNCHECKED)
    ctx.floor("calls of boxcar::Vec::get_unchecked", len(sites_), 6)
    passthrough = {"Injector::<T>::get_unchecked", "Snapshot::<T>::get_item_unchecked"}
    ordinal = {}
    for fn, bi, t in sites_:
        ordinal[fn.path] = ordinal.get(fn.path, 0) + 1
        key = "%s|get_unchecked|%d" % (fn.path, ordinal[fn.path])
        idx = fn.expr_of_operand(t["args"][1])
        if fn.path in passthrough:
            if fn.b.get("unsafe") and idx[0] == "arg":
                ctx.ok(site(fn, bi), "public unsafe pass-through: obligation stays with the caller")
            else:
                ctx.violation(key, site(fn, bi), "pass-through of an unchecked lookup is not an `unsafe fn` forwarding its own argument")
            continue
        if not idx_of_match(idx):
            ctx.violation(key, site(fn, bi), "unchecked item access with index %s, which is not the idx of a Match produced by the worker" % show(idx))
            continue
        # must not be a placeholder
        need_guard = fn.path.startswith("worker::")
        if need_guard:
            gs = guards_of(fn, bi)
            okg = False
            for g in gs:
                e = g[3]
                if e[0] == "bin" and e[1] == "Eq" and is_max(e[3]) and strip_casts(e[2]) == strip_casts(idx) and g[2] == [0]:
                    okg = True
                if e[0] == "bin" and e[1] == "Ne" and is_max(e[3]) and strip_casts(e[2]) == strip_casts(idx) and g[2] in ([None], [1]):
                    okg = True
            if okg:
                ctx.ok(site(fn, bi), "worker-side unchecked read of Match.idx behind `idx != u32::MAX`")
            else:
                ctx.violation(key, site(fn, bi), "worker reads item %s unchecked without excluding the placeholder index u32::MAX on this path" % show(idx))
        else:
            ctx.ok(site(fn, bi), "snapshot-side unchecked read of an idx taken from self.matches (placeholders are truncated before publication: C06.placeholders)")
    # safe wrapper get_matched_item: index from self.matches
    gm = get_fn(facts, "nucleo", "Snapshot::<T>::get_matched_item")
    for bi, t in gm.calls(lambda t: callee(t) == "Snapshot::<T>::get_item_unchecked"):
        idx = gm.expr_of_operand(t["args"][1])
        src = any(x[0] == "field" and x[2] == "matches" for x in walk(idx))
        if idx_of_match(idx) and src:
            ctx.ok(site(gm, bi), "get_matched_item passes an idx read from self.matches")
        else:
            ctx.violation("Snapshot::<T>::get_matched_item|index|1", site(gm, bi), "safe wrapper passes %s to the unchecked lookup" % show(idx))
    for fn, bi, t in calls_to(facts, "nucleo", lambda t: callee(t) in ("Snapshot::<T>::get_item_unchecked", "Injector::<T>::get_unchecked")):
        if fn.path != "Snapshot::<T>::get_matched_item":
            ctx.violation("%s|%s|caller" % (fn.path, callee(t)), site(fn, bi), "internal caller of a public unchecked lookup")
    # producers of Match values
    n_prod = 0
    for b in facts.bodies_of("nucleo"):
        fn = fn_of(b)
        k = 0
        for bi, si, s in fn.stmts(lambda s: s["k"] == "assign" and s["rv"].get("agg") == "adt" and s["rv"].get("adt") == "Match"):
            n_prod += 1
            k += 1
            key = "%s|Match-literal|%d" % (fn.path, k)
            names = s["rv"]["fields"]
            idx = fn.expr_of_operand(s["rv"]["ops"][names.index("idx")])
            if is_max(idx):
                ctx.ok(site(fn, bi, si), "placeholder Match (idx = u32::MAX)")
                continue
            if not fn.path.startswith("worker::Worker::<T>::") and not str(fn.b.get("root") or "").startswith("worker::Worker::<T>::"):
                ctx.violation(key, site(fn, bi, si), "Match constructed outside the worker")
                continue
            if fn.path == "worker::Worker::<T>::reset_matches::{closure#0}":
                # all indices below last_snapshot, then in-flight ones removed
                rm = get_fn(facts, "nucleo", "worker::Worker::<T>::reset_matches")
                ext = [b_ for b_, t_ in rm.calls(lambda t: callee(t).endswith("Extend<T>>::extend") or callee(t).endswith("::extend"))]
                holders = {f_.path for f_, _, _ in inflight_retains(facts)}
                rem = [b_ for b_, t_ in rm.calls(lambda t: callee(t) in holders)]
                rem += [b_ for f_, b_, _ in inflight_retains(facts) if f_.path == rm.path]
                if ext and rem and rm.all_paths_to_return_pass(rm.blocks[ext[0]]["term"]["target"], via_nodes=rem):
                    ctx.ok(site(fn, bi, si), "reset_matches enumerates 0..last_snapshot and always removes the in-flight indices afterwards")
                else:
                    ctx.violation(key, site(fn, bi, si), "reset_matches lists every index below last_snapshot without removing those still in flight: uninitialised items become matches")
                continue
            # the index must have been yielded together with Some(item) / looked up with get() == Some
            gs = guards_of(fn, bi)
            some = False
            for g in gs:
                e = g[3]
                if e[0] == "discr" and g[2] == [1]:
                    some = True
                if e[0] == "call" and str(e[1]).endswith("::is_none") and g[2] == [0]:
                    some = True
                if e[0] == "call" and str(e[1]).endswith("::is_some") and g[2] in ([None], [1]):
                    some = True
            if not some and fn.b.get("kind") == "Closure" and fn.arg_count >= 2:
                # the closure receives `(idx, item)` with the item itself, not an Option: the producer yields published items only
                aty = fn.b["locals"][2].get("ty", "")
                if "Item<" in aty and "Option<" not in aty and any(x[0] == "arg" and x[1] == 2 for x in walk(idx)):
                    ctx.ok(site(fn, bi, si), "Match{idx} built from an (idx, Item) pair: the index came with its published item")
                    continue
            if some:
                ctx.ok(site(fn, bi, si), "Match{idx} constructed only on the Some(item) branch")
            else:
                ctx.violation(key, site(fn, bi, si), "Match with a real index constructed on a path where the item was not observed initialised: a reader would dereference an unpublished slot")
        # direct field writes to .idx
        for bi, si, s in field_assigns(fn, "idx", "Match"):
            v = fn.expr_of_rvalue(s["rv"]) if si != "term" else ("?",)
            if is_max(v):
                ctx.ok(site(fn, bi, si), "match turned into a placeholder")
            else:
                ctx.violation("%s|Match.idx|write" % fn.path, site(fn, bi, si), "Match.idx overwritten with %s" % show(v))
    ctx.floor("Match construction sites", n_prod, 6)


def inflight_retains(facts):
    """Role-based anchor: `self.in_flight.retain(closure)` wherever it lives: [(fn, bb, closure_path)]."""
    out = []
    for b in facts.bodies_of("nucleo"):
        fn = fn_of(b)
        for bi, t in fn.calls(lambda t: callee(t).endswith("Vec::<T, A>::retain") or callee(t).endswith("::retain_mut")):
            recv = fn.expr_of_operand(t["args"][0])
            if not any(x[0] == "field" and x[2] == "in_flight" for x in walk(recv)):
                continue
            clo = fn.expr_of_operand(t["args"][1])
            cpath = clo[1] if clo[0] == "closure" else None
            cb = facts.body("nucleo", cpath) if cpath else None
            # the pass that takes placeholders of still-in-flight items OUT of the match list
            if cb is not None and any(callee(t2).endswith("::remove") or callee(t2).endswith("::swap_remove") for _, t2 in fn_of(cb).calls()):
                out.append((fn, bi, cpath))
    return out


def in_flight_pushes(facts):
    out = []
    for b in facts.bodies_of("nucleo"):
        fn = fn_of(b)
        for bi, t in fn.calls(lambda t: callee(t).endswith("Vec::<T, A>::push") or callee(t).endswith("::insert") or callee(t).endswith("Vec::<T, A>::extend_from_slice")):
            recv = fn.expr_of_operand(t["args"][0])
            names = []
            exprs = [(fn, recv)]
            # a captured variable (e.g. a Mutex around &mut self.in_flight): look at what the parent captured
            if fn.b.get("kind") == "Closure":
                for x in walk(recv):
                    if x[0] == "field" and peel(x[1])[0] == "arg" and peel(x[1])[1] == 1:
                        rc = resolve_capture(fn, x[2])
                        if rc is not None:
                            exprs.append(rc)
            for f_, e_ in exprs:
                for x in walk(e_):
                    if x[0] == "field":
                        names.append(x[2])
                    if x[0] in ("arg", "local") and x[2]:
                        names.append(x[2])
            if any(n == "in_flight" or n.endswith("__in_flight") for n in names):
                out.append((fn, bi, t))
    return out


def rule_inflight_order(ctx):
    facts = ctx.facts
    rets = [r for r in inflight_retains(facts) if r[2]]
    if len(rets) != 1:
        raise Inconclusive("expected exactly one `in_flight.retain(closure that removes matches)`, found %d" % len(rets))
    rm = get_fn(facts, "nucleo", rets[0][2])
    # the removal must shift the tail (Vec::remove): the match list is in index order at this point (0..last_snapshot
    # for an empty pattern, and later removals address positions relative to it); swap_remove moves the LAST match
    # into the hole, which both destroys the order and makes the next `index - offset` removal hit the wrong entry
    for bi, t in rm.calls(lambda t: callee(t).endswith("::swap_remove")):
        ctx.violation("%s|in_flight.remove|swap" % rm.path, site(rm, bi),
                      "placeholders of in-flight items are taken out of the match list with swap_remove: the last match is moved into the hole, so the list is no longer in index order "
                      "and the next positional removal (`index - offset`) removes a published item while the unpublished one stays in the list (then read through get_unchecked)")
    # the removal is positional with a running offset => needs ascending order
    positional = False
    for bi, t in rm.calls(lambda t: callee(t).endswith("Vec::<T, A>::remove")):
        e = strip_casts(rm.expr_of_operand(t["args"][1]))
        if e[0] in ("bin", "checked") and e[1] == "Sub":
            positional = True
    if not positional:
        ctx.note("remove_in_flight_matches no longer removes by `index - offset`; ordering requirement not derived")
        ctx.ok(site(rm, 0), "no positional removal: in-flight order is irrelevant")
        return
    pushes = in_flight_pushes(facts)
    ctx.floor("producers of the in-flight list", len(pushes), 2)
    k = 0
    for fn, bi, t in pushes:
        k += 1
        if fn.b["kind"] != "Closure":
            ctx.ok(site(fn, bi), "push in straight-line code of %s" % fn.path)
            continue
        parent, cr, cons = closure_parent_consumer(facts, fn)
        cname = callee(cons[1]) if cons else "?"
        cfn = cons[1].get("fn") if cons else "?"
        parallel = "rayon::" in cname or "rayon::" in str(cfn)
        if not parallel:
            if any(cname.endswith(x) or str(cfn).endswith(x) for x in ("Iterator::filter_map", "Iterator::map", "Iterator::for_each", "Iterator::filter", "Vec::<T, A>::retain")):
                ctx.ok(site(fn, bi), "in-flight index pushed from a sequential pass (%s) over an ascending snapshot iterator" % str(cfn).rsplit("::", 1)[-1])
            else:
                ctx.fail_closed("in-flight push inside a closure consumed by %s: ordering not known" % cname)
            continue
        # parallel producer: a sort of the list must follow in the parent before it returns
        sorts = []
        for sbi, st in parent.calls(lambda t: any(callee(t).endswith(s) for s in ("::sort", "::sort_unstable", "::sort_by", "::sort_unstable_by", "::sort_by_key", "::sort_unstable_by_key"))):
            recv = parent.expr_of_operand(st["args"][0])
            if any(x[0] == "field" and x[2] == "in_flight" for x in walk(recv)):
                sorts.append(sbi)
        # the consumer that actually drives the parallel map
        drv = [dbi for dbi, dt in parent.calls(lambda t: callee(t).endswith("par_extend") or callee(t).endswith("::collect") or callee(t).endswith("::for_each"))]
        after = drv[0] if drv else cons[0]
        tgt = parent.blocks[after]["term"]["target"]
        if sorts and parent.all_paths_to_return_pass(tgt, via_nodes=sorts):
            ctx.ok(site(fn, bi), "in-flight indices pushed from a parallel pass, list sorted afterwards in %s" % parent.path)
        else:
            ctx.violation("%s|in_flight.push|parallel" % fn.path, site(fn, bi),
                          "in-flight indices are pushed from a closure driven by rayon's parallel `%s` (arbitrary order) and the list is not sorted afterwards, "
                          "but remove_in_flight_matches removes by `index - offset`, which is only correct for an ascending list: with two writers in flight the wrong "
                          "entries are removed and an unpublished item stays in the match list (then read through get_unchecked)" % str(cfn).rsplit("::", 1)[-1])


def norm_cmp(fn, e, a_local=2, b_local=3):
    """Canonical text of comparator sub-expressions with the two Match arguments named a / b."""
    e = strip_casts(e)
    k = e[0]
    if k == "arg":
        return {a_local: "a", b_local: "b"}.get(e[1], "arg%d" % e[1])
    if k == "const":
        return "MAX" if e[1] == U32_MAX else str(e[1])
    if k == "field":
        base = norm_cmp(fn, peel(e[1]), a_local, b_local)
        return "%s.%s" % (base, e[2])
    if k in ("deref", "ref"):
        return norm_cmp(fn, e[1], a_local, b_local)
    if k == "bin":
        return "%s(%s,%s)" % (e[1], norm_cmp(fn, e[2], a_local, b_local), norm_cmp(fn, e[3], a_local, b_local))
    if k == "call":
        name = str(e[1])
        if name == GET_UNCHECKED:
            return "item(%s)" % norm_cmp(fn, e[2][1], a_local, b_local)
        if name.endswith("Iterator::sum") or name.endswith("::sum"):
            return "sum(%s)" % norm_cmp(fn, e[2][0], a_local, b_local)
        if name.endswith("Iterator::map") or name.endswith("::map"):
            clo = e[2][1]
            cname = clo[1] if clo[0] == "closure" else "?"
            return "map(%s,%s)" % (norm_cmp(fn, e[2][0], a_local, b_local), closure_kind(fn, cname))
        if name.endswith("[T]>::iter"):
            return "iter(%s)" % norm_cmp(fn, e[2][0], a_local, b_local)
        return "%s(%s)" % (name, ",".join(norm_cmp(fn, x, a_local, b_local) for x in e[2]))
    if k == "local":
        return "local"
    return k


_FACTS = [None]


def closure_kind(fn, cname):
    facts = _FACTS[0]
    b = facts.body("nucleo", cname)
    if b is None:
        return "?"
    f = fn_of(b)
    rets = ret_aggregates(f)
    if len(rets) == 1:
        e = strip_casts(f.expr_of_rvalue(rets[0][2]))
        if e[0] == "call" and str(e[1]).endswith("Utf32String::len"):
            return "len"
    return "?"


LA = "sum(map(iter(item(a.idx).matcher_columns),len))"
LB = "sum(map(iter(item(b.idx).matcher_columns),len))"
# the documented keys of the order, as ordering variables (each is one of '<', '=', '>')
ORD_VARS = {
    frozenset(("a.score", "b.score")): ("S", "a.score"),
    frozenset(("a.idx", "MAX")): ("A", "a.idx"),
    frozenset(("b.idx", "MAX")): ("B", "b.idx"),
    frozenset((LA, LB)): ("L", LA),
    frozenset(("a.idx", "b.idx")): ("I", "a.idx"),
}


class _ForeignKey(Exception):
    pass


def _cmp_literal(cf, e):
    """Boolean expression -> nested ('cmp', var, set of orderings for which it is true) / ('not', x) / ('const', b)."""
    e = strip_casts(e)
    if e[0] == "const" and e[1] in (0, 1, True, False):
        return ("const", bool(e[1]))
    if e[0] == "un" and e[1] == "Not":
        return ("not", _cmp_literal(cf, e[2]))
    if e[0] == "bin" and e[1] in ("Eq", "Ne", "Lt", "Le", "Gt", "Ge"):
        x, y = norm_cmp(cf, e[2]), norm_cmp(cf, e[3])
        key = frozenset((x, y))
        if key not in ORD_VARS:
            raise _ForeignKey("it compares %s with %s, which is not one of the documented keys (score, placeholder index, total column length, index)" % (x, y))
        var, first = ORD_VARS[key]
        truth = {"Eq": "=", "Ne": "<>", "Lt": "<", "Le": "<=", "Gt": ">", "Ge": ">="}[e[1]]
        if x != first:  # operands swapped relative to the variable's orientation
            truth = truth.translate(str.maketrans("<>", "><"))
        return ("cmp", var, set(truth))
    raise Inconclusive("comparator condition is not a comparison of the documented keys: %s" % show(e)[:120])


def _eval_lit(l, asg):
    if l[0] == "const":
        return l[1]
    if l[0] == "not":
        return not _eval_lit(l[1], asg)
    return asg[l[1]] in l[2]


def comparator_spec(asg):
    """a sorts before b?  (score desc; placeholder last; total column length asc; index asc)"""
    if asg["S"] != "=":
        return asg["S"] == ">"
    if asg["A"] == "=":
        return False
    if asg["B"] == "=":
        return True
    if asg["L"] == "=":
        return asg["I"] == "<"
    return asg["L"] == "<"


def check_comparator(ctx, cf):
    """The comparator, as a decision function over the orderings of its documented keys, equals the documented
    order for every consistent combination of orderings (whatever the branch structure or helper functions)."""
    import itertools
    from cfg import decision_paths
    paths = decision_paths(cf)
    table = []
    try:
        return _check_comparator(ctx, cf, paths)
    except _ForeignKey as ex:
        ctx.violation("%s|chain|0" % cf.path, site(cf, 0), "sort comparator deviates from the documented order: %s" % ex)


def _check_comparator(ctx, cf, paths):
    import itertools
    table = []
    for conds, res in paths:
        if res is None:
            raise Inconclusive("comparator path without a result")
        lits = []
        for d, chosen, allv in conds:
            lit = _cmp_literal(cf, d)
            # bool switch: arm value 0 = false, otherwise = true
            want = (chosen != 0) if chosen is not None else True
            if chosen is None and 0 not in allv:
                raise Inconclusive("comparator branches on a non-boolean switch")
            lits.append((lit, want))
        table.append((lits, _cmp_literal(cf, res)))
    n = bad = 0
    first_bad = None
    for S, A, B, L, I in itertools.product("<=>", "<=", "<=", "<=>", "<=>"):
        # consistency between the keys (idx == MAX facts determine the idx ordering; equal indices = same item)
        if A == "=" and B == "=" and I != "=":
            continue
        if A == "=" and B == "<" and I != ">":
            continue
        if A == "<" and B == "=" and I != "<":
            continue
        if I == "=" and L != "=":
            continue
        asg = {"S": S, "A": A, "B": B, "L": L, "I": I}
        hits = [r for lits, r in table if all(_eval_lit(l, asg) == w for l, w in lits)]
        if len(hits) != 1:
            raise Inconclusive("comparator decision paths do not partition the key orderings (%d paths match %s)" % (len(hits), asg))
        n += 1
        got = _eval_lit(hits[0], asg)
        if got != comparator_spec(asg):
            bad += 1
            if first_bad is None:
                first_bad = (asg, got)
    if bad == 0:
        ctx.ok(site(cf, 0), "comparator = (score desc; placeholder last; total column length asc; index asc) on all %d consistent key orderings, %d decision paths" % (n, len(table)))
    else:
        asg, got = first_bad
        names = {"S": "score(a) ? score(b)", "A": "a.idx ? MAX", "B": "b.idx ? MAX", "L": "len(a) ? len(b)", "I": "a.idx ? b.idx"}
        ctx.violation("%s|chain|0" % cf.path, site(cf, 0),
                      "sort comparator deviates from the documented order on %d of %d key orderings, e.g. %s: it answers %s, the documented order says %s"
                      % (bad, n, ", ".join("%s is %s" % (names[k], v) for k, v in asg.items()), got, not got))


def _only_field_reads(fn, l):
    """Every use of local l is a copy of one of its scalar fields (never the whole value, never a borrow)."""
    us = uses_of_local(fn, l)
    if not us:
        return False
    for u in us:
        if u[0] != "stmt":
            return False
        rv = u[3]["rv"]
        pl = None
        if isinstance(rv.get("use"), dict):
            pl = rv["use"].get("copy") or rv["use"].get("move")
        if pl is None or pl["l"] != l or len(pl["p"]) != 1 or not isinstance(pl["p"][0], dict) or "f" not in pl["p"][0]:
            return False
    return True


def rule_placeholders(ctx):
    facts = ctx.facts
    _FACTS[0] = facts
    run = get_fn(facts, "nucleo", "worker::Worker::<T>::run")
    qs = [(bi, t) for bi, t in run.calls(lambda t: callee(t) == "par_sort::par_quicksort")]
    if len(qs) != 1:
        raise Inconclusive("run: expected one par_quicksort call")
    qb, qt = qs[0]
    cmp_e = run.expr_of_operand(qt["args"][1])
    if cmp_e[0] != "closure":
        raise Inconclusive("comparator is not a closure literal")
    cf = get_fn(facts, "nucleo", cmp_e[1])
    check_comparator(ctx, cf)
    # truncate only when the sort was not cancelled, by exactly the number of placeholders
    tr = [(bi, t) for bi, t in run.calls(lambda t: callee(t).endswith("Vec::<T, A>::truncate"))]
    if not tr:
        ctx.violation("worker::Worker::<T>::run|truncate|0", site(run, qb), "placeholders (idx = u32::MAX) are never cut off the match list: readers would dereference item u32::MAX")
    for bi, t in tr:
        # the sort's verdict, possibly through negations (`let finished = !par_quicksort(..); if !finished { return }`)
        gs = []
        for g in guards_of(run, bi):
            ge_ = strip_casts(g[3])
            par_ = 0
            while ge_[0] == "un" and ge_[1] == "Not":
                ge_ = strip_casts(ge_[2]); par_ += 1
            if ge_[0] == "call" and ge_[1] == "par_sort::par_quicksort":
                cancelled_edge = (g[2] != [0]) if par_ % 2 == 0 else (g[2] == [0])
                gs.append(cancelled_edge)
        if gs and not any(gs):
            n = strip_casts(run.expr_of_operand(t["args"][1]))
            good = n[0] in ("bin", "checked") and n[1] == "Sub" and n[2][0] == "call" and str(n[2][1]).endswith("::len") and field_chain(n[2][2][0])[1] == ["matches"]
            cnt = strip_casts(n[3]) if good else None
            from_counter = cnt is not None and any(x[0] == "call" and (str(x[1]).endswith("Atomic::<u32>::get_mut") or str(x[1]).endswith("Atomic::<u32>::into_inner")) for x in walk(cnt))
            if good and from_counter:
                ctx.ok(site(run, bi), "matches.truncate(len − unmatched) only after a completed sort")
            else:
                ctx.violation("worker::Worker::<T>::run|truncate|len", site(run, bi), "truncate length is %s, not matches.len() − unmatched" % show(n))
        else:
            ctx.violation("worker::Worker::<T>::run|truncate|guard", site(run, bi), "truncate is not control-dependent on the sort having completed (placeholders are only at the end of a fully sorted list)")
    # every placeholder creation is paired with unmatched.fetch_add(1) in the same closure
    n_sites = 0
    for b in facts.bodies_of("nucleo"):
        fn = fn_of(b)
        if not fn.path.startswith("worker::Worker::<T>::"):
            continue
        sites = []
        for bi, si, s in fn.stmts(lambda s: s["k"] == "assign" and s["rv"].get("agg") == "adt" and s["rv"].get("adt") == "Match"):
            names = s["rv"]["fields"]
            if is_max(fn.expr_of_operand(s["rv"]["ops"][names.index("idx")])):
                # the sentinel named only to compare against it (`m.idx == PLACEHOLDER.idx`) creates nothing: every use of
                # the literal is a read of one of its fields
                if not s["lhs"]["p"] and s["rv"].get("from_const") and _only_field_reads(fn, s["lhs"]["l"]):
                    continue
                sites.append((bi, si))
        for bi, si, s in field_assigns(fn, "idx", "Match"):
            if si != "term" and is_max(fn.expr_of_rvalue(s["rv"])):
                sites.append((bi, si))
        # a placeholder built once in the enclosing function and captured (`let tombstone = Match { .. u32::MAX }`): in the
        # function itself the literal creates nothing (it is only handed to closures); in a closure, every use of the
        # captured value is a placeholder site
        def _only_captured(l_):
            us_ = uses_of_local(fn, l_)
            return bool(us_) and all(u_[0] == "stmt" and u_[3]["rv"].get("agg") == "closure" or (u_[0] == "stmt" and "ref" in u_[3]["rv"]) for u_ in us_)
        if fn.b.get("kind") != "Closure":
            sites = [(bi, si) for bi, si in sites if not (isinstance(si, int) and fn.blocks[bi]["stmts"][si]["k"] == "assign" and not fn.blocks[bi]["stmts"][si]["lhs"]["p"]
                                                           and fn.blocks[bi]["stmts"][si]["rv"].get("agg") == "adt" and _only_captured(fn.blocks[bi]["stmts"][si]["lhs"]["l"]))]
        else:
            from common import resolve_capture
            for bi in sorted(fn.live):
                for si, s_ in enumerate(fn.blocks[bi]["stmts"]):
                    if s_["k"] != "assign" or not isinstance(s_["rv"].get("use"), dict):
                        continue
                    pl_ = s_["rv"]["use"].get("copy") or s_["rv"]["use"].get("move")
                    if pl_ is None or pl_["l"] != 1:
                        continue
                    cap_ = [e_.get("name") for e_ in pl_["p"] if isinstance(e_, dict) and "name" in e_]
                    if len(cap_) != 1:
                        continue
                    rc_ = resolve_capture(fn, cap_[0])
                    if rc_ is None:
                        continue
                    ce_ = strip_casts(rc_[1])
                    while ce_[0] in ("ref", "deref"):
                        ce_ = strip_casts(ce_[1])
                    if ce_[0] == "agg" and str(ce_[1]).startswith("Match") and "idx" in ce_[2] and is_max(ce_[2]["idx"]):
                        sites.append((bi, si))
        incs = [ibi for ibi, it in fn.calls(lambda t: atomic_op(t) == "fetch_add") if classify(fn, fn.expr_of_operand(it["args"][0])) == "unmatched"]
        for bi, si in sites:
            n_sites += 1
            before = fn.must_pass(bi, via_nodes=incs) if incs else False
            after = fn.all_paths_to_return_pass(bi, via_nodes=incs) if incs else False
            if bi in incs:
                before = True
            if before or after:
                ctx.ok(site(fn, bi, si), "placeholder counted in `unmatched` on the same path")
            else:
                ctx.violation("%s|placeholder-uncounted|1" % fn.path, site(fn, bi, si), "a placeholder match is created without incrementing `unmatched`: it survives the truncate and reaches the snapshot with idx = u32::MAX")
        # and the reverse: an increment without creating/keeping a placeholder removes a real match
        for ibi in incs:
            reach = fn.reach_from(ibi)
            made = any(b_ in reach or fn.must_pass(ibi, via_nodes=[b_]) for b_, _ in sites)
            pre = False
            for g in guards_of(fn, ibi):
                e = g[3]
                if e[0] == "bin" and e[1] == "Eq" and is_max(e[3]) and g[2] in ([None], [1]):
                    pre = True
            # ... and the placeholder has to *land* in the match list: where the enclosing body does not hand a Match
            # back to its caller (a `retain`/`for_each` closure, a plain loop), every path from the increment to the
            # return must push a Match or overwrite a match cell in place
            landed = True
            ret_ty = fn.b["locals"][0].get("ty", "") if fn.b.get("locals") else ""
            if made and not pre and "Match" not in ret_ty:
                lands = set()
                for b_ in sorted(fn.live):
                    for s_ in fn.blocks[b_]["stmts"]:
                        if s_["k"] != "assign" or not s_["lhs"]["p"] or s_["lhs"]["p"][0] != "deref":
                            continue
                        lty = fn.b["locals"][s_["lhs"]["l"]].get("ty", "")
                        if "Match" in lty and "Vec<" not in lty:
                            lands.add(b_)
                    t_ = fn.blocks[b_]["term"]
                    if t_["k"] == "call" and callee(t_).rsplit("::", 1)[-1] in ("push", "push_within_capacity", "extend", "extend_from_slice", "insert") and t_.get("args") \
                            and "matches" in show(fn.expr_of_operand(t_["args"][0])):
                        lands.add(b_)
                landed = ibi in lands or fn.all_paths_to_return_pass(ibi, via_nodes=lands)
            if not landed:
                ctx.violation("%s|unmatched-placeholder-dropped|1" % fn.path, site(fn, ibi), "`unmatched` incremented, but a path from there to the end of the body neither pushes the placeholder nor overwrites a match cell: the truncate then cuts off a real match")
            elif made or pre:
                ctx.ok(site(fn, ibi), "`unmatched` incremented together with a placeholder")
            else:
                ctx.violation("%s|unmatched-without-placeholder|1" % fn.path, site(fn, ibi), "`unmatched` incremented on a path that leaves no placeholder: a real match is cut off by the truncate")
    ctx.floor("placeholder creation sites", n_sites, 1)


def rule_update_guard(ctx):
    update_guard(ctx, "C06")


def rule_score_source(ctx):
    facts = ctx.facts
    n = 0
    for b in facts.bodies_of("nucleo"):
        fn = fn_of(b)
        if not fn.path.startswith("worker::Worker::<T>::"):
            continue
        cands = []
        for bi, si, s in fn.stmts(lambda s: s["k"] == "assign" and s["rv"].get("agg") == "adt" and s["rv"].get("adt") == "Match"):
            names = s["rv"]["fields"]
            cands.append((bi, si, fn.expr_of_operand(s["rv"]["ops"][names.index("score")]), fn.expr_of_operand(s["rv"]["ops"][names.index("idx")])))
        for bi, si, s in field_assigns(fn, "score", "Match"):
            if si != "term":
                cands.append((bi, si, fn.expr_of_rvalue(s["rv"]), None))
        for bi, si, sc, idx in cands:
            n += 1
            sc0 = strip_casts(sc)
            if sc0[0] == "const" and sc0[1] == 0:
                ctx.ok(site(fn, bi, si), "score 0 (trivial pattern / placeholder / cancelled slot)")
                continue
            # (MultiPattern::score(pattern, item.matcher_columns, matcher) as Some).0
            call = None
            for x in walk(sc0):
                if x[0] == "call" and x[1] == "pattern::MultiPattern::score":
                    call = x
            if call is None:
                # the Option returned by the scorer was bound to a local first (`let s = pattern.score(..); match s {..}`)
                for x in walk(sc0):
                    if x[0] == "local":
                        for _, _, d in fn.def_exprs(x[1], at=bi if isinstance(bi, int) else None):
                            for y in walk(d):
                                if y[0] == "call" and y[1] == "pattern::MultiPattern::score":
                                    call = y
            if call is None:
                ctx.violation("%s|Match.score|source" % fn.path, site(fn, bi, si), "score stored in a Match is %s, not the pattern's score of the item" % show(sc))
                continue
            cols = call[2][1]
            item_src = [x for x in walk(cols) if x[0] == "call" and (x[1] in ("boxcar::Vec::<T>::get", GET_UNCHECKED))]
            from_iter = any(x[0] == "arg" for x in walk(cols))
            if idx is not None and item_src:
                same = any(strip_casts(x[2][1]) == strip_casts(idx) for x in item_src)
                if same:
                    ctx.ok(site(fn, bi, si), "score computed from the columns of the item whose index is stored")
                else:
                    ctx.violation("%s|Match.score|item" % fn.path, site(fn, bi, si), "score computed from item %s but stored with index %s" % (show(item_src[0][2][1]), show(idx)))
            elif from_iter or item_src:
                ctx.ok(site(fn, bi, si), "score computed from the columns of the item yielded with / looked up by this match's index")
            else:
                ctx.violation("%s|Match.score|item" % fn.path, site(fn, bi, si), "cannot relate the scored columns (%s) to the stored index" % show(cols))
    ctx.floor("Match.score write sites", n, 3)


def rule_borrow_witness(ctx):
    import witness
    witness.rule(ctx, ("C06", "C11ItemOutlivesMatcher"), "a reader could observe a snapshot (or an item borrowed from it) while a tick / restart mutates or drops it")


def rule_snapshot_fields(ctx):
    """`each match's score is the snapshot pattern's score`: matches, item count, pattern and stream of a snapshot come
    from one run -- Snapshot::update copies every field from the worker on every path (shared with C12 / C19)."""
    from props.c12 import rule_snapshot_fields as r
    r(ctx)


def rule_clone_complete(ctx):
    """`each match's score is the snapshot pattern's score`: the snapshot's pattern is a clone_from copy of the worker's,
    which is a clone_from copy of the user's; a hand-written clone_from must copy every field (shared with C19)."""
    from props.c19 import rule_clone_complete as r
    r(ctx)


def rule_stale_list_test(ctx):
    """`run` decides how to bring the match list up to date from what the list holds (`matches.is_empty()`): rescoring
    is chosen only when there is something to rescore.  The decision has to be taken on the list as it is when the
    chosen pass starts: between the test and the branch that depends on it (directly, or through a flag / enum value
    assigned under it) nothing may rewrite the list.  (reset_matches fills the list; a test taken before it sees the
    old list and skips the rescoring of the entries it adds: they reach the snapshot with score 0.)"""
    facts = ctx.facts
    run = get_fn(facts, "nucleo", "worker::Worker::<T>::run")
    tests = []
    for bi, t in run.calls(lambda t: callee(t).rsplit("::", 1)[-1] in ("is_empty", "len")):
        base, names = field_chain(run.expr_of_operand(t["args"][0]))
        if names == ["matches"] and isinstance(base, tuple) and base[0] == "arg" and base[1] == 1:
            tests.append((bi, t))
    if not tests:
        ctx.ok(site(run, 0), "run takes no decision on the contents of the match list")
        return
    muts = []
    for bi, t in run.calls():
        for a in t.get("args", []):
            e = run.expr_of_operand(a)
            if e[0] == "ref" and len(e) > 2 and e[2]:
                base, names = field_chain(e)
                if isinstance(base, tuple) and base[0] == "arg" and base[1] == 1 and (names == [] or names[:1] == ["matches"]):
                    muts.append(bi)
    n = 0
    for abi, at in tests:
        cid = (abi, at["dest"]["l"])
        after = run.reach_from(at["target"]) if at.get("target") is not None else set()

        def mentions(e):
            return any(x[0] == "call" and len(x) > 4 and x[4] == cid for x in walk(e))
        for sbi in sorted(run.live):
            st = run.blocks[sbi]["term"]
            if st["k"] != "switch" or sbi not in after:
                continue
            e = run.expr_of_operand(st["discr"])
            dep = mentions(e)
            if not dep:
                locs = [x[1] for x in walk(e) if x[0] == "local"]
                for l in locs:
                    for dbi, dsi, kind, payload in run.defs.get(l, []):
                        if dbi >= 0 and any(mentions(g[3]) for g in guards_of(run, dbi)):
                            dep = True
            if not dep:
                continue
            n += 1
            between = [m for m in muts if m in after and m != abi and sbi in run.reach_from(m) and m != sbi]
            if between:
                ctx.violation("worker::Worker::<T>::run|stale-list-test|%d" % n, site(run, between[0]),
                              "the match list is rewritten (%s) between the test of its contents at %s and the branch that depends on that test: the pass is chosen for the old list, "
                              "the entries added in between are neither rescored nor removed" % (callee(run.blocks[between[0]]["term"]).rsplit("::", 1)[-1], site(run, abi)))
            else:
                ctx.ok(site(run, sbi), "decision on the match list's contents taken on the list as it is when the branch runs")
    if n == 0:
        ctx.ok(site(run, 0), "no branch of run depends on a test of the match list")


def rule_cancel_lock(ctx):
    """A snapshot is internally consistent only if a cancelled run's half-processed match list is never published: the
    tick that cancels must get hold of the worker and start over; a cancelling phase that can time out forgets the
    cancellation and a later ordinary run publishes the leftovers (shared with C12 / C19)."""
    from props.c12 import rule_cancel_lock as r
    r(ctx)


def rules(ctx):
    ctx.run_rule("C06.clone-complete", rule_clone_complete)
    ctx.run_rule("C06.snapshot-fields", rule_snapshot_fields)
    ctx.run_rule("C06.unchecked-feed", rule_unchecked_feed)
    ctx.run_rule("C06.inflight-order", rule_inflight_order)
    ctx.run_rule("C06.placeholders", rule_placeholders)
    ctx.run_rule("C06.stale-list-test", rule_stale_list_test)
    ctx.run_rule("C06.update-guard", rule_update_guard)
    ctx.run_rule("C06.cancel-lock", rule_cancel_lock)
    ctx.run_rule("C06.score-source", rule_score_source)
    ctx.run_rule("C06.borrow-witness", rule_borrow_witness)

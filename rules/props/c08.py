"""C08 — the injector's item vector is a linearizable append-only sequence (structural clauses)."""
from common import closure_tree
from cfg import Inconclusive, op_place, show, walk, strip_casts
from common import (atomic_op, calls_to, callee, callee_names, closure_consumer, closure_creations,
                    field_chain, fn_of, find_fn, get_fn, head_sources, is_call_to, ordering_of, peel,
                    site, uses_of_local, guards_of, canon)
from props.c09 import classify

PROP = "C08"
LEVEL = "other"
UNDECIDED = [
    "linearizability over all interleavings (needs exploration of schedules)",
]
ASSUMPTIONS = [
    "MIR at opt-level 0 preserves source control flow",
    "Bucket::get / Entry::read / matcher_cols_* address the entry they are given (pointer arithmetic not verified)",
]

VEC = "boxcar::Vec::<T>::"
WRITERS = (VEC + "push", VEC + "extend")


def is_diverging(fn, bb):
    """Block whose every path ends without reaching a Return (panic)."""
    r = fn.reach_from(bb)
    return not any(x in r for x in fn.returns)


def slot_writes(fn):
    """Writes of the item value into (*entry).slot, in either idiom:
         (*entry).slot.get().write(MaybeUninit::new(v))      -- ptr::write
         (*(*entry).slot.get()).write(v)                      -- MaybeUninit::write
    -> [(bb, term, entry_expr)]"""
    out = []
    for bi, t in fn.calls(lambda t: callee(t).endswith("::write") or callee(t).endswith("::write_volatile") or callee(t).endswith("ptr::write")):
        if not t["args"]:
            continue
        e = fn.expr_of_operand(t["args"][0])
        got = None
        for x in walk(e):
            if x[0] == "call" and isinstance(x[1], str) and x[1].endswith("UnsafeCell::<T>::get"):
                inner = peel(x[2][0])
                if inner[0] == "field" and inner[2] == "slot":
                    got = peel(inner[1])
        if got is not None:
            out.append((bi, t, got))
    return out


def slot_value_block(fn, bi, t):
    """Block in which the user value is consumed on its way into the slot."""
    if len(t["args"]) < 2:
        return bi
    val = fn.expr_of_operand(t["args"][1])
    if val[0] == "call" and str(val[1]).endswith("MaybeUninit::<T>::new"):
        return val[4][0]
    return bi


def active_stores(fn):
    out = []
    for bi, t in fn.calls(lambda t: atomic_op(t) == "store"):
        recv = fn.expr_of_operand(t["args"][0])
        if classify(fn, recv) == "Entry.active":
            val = fn.const_of_operand(t["args"][1])
            out.append((bi, t, peel(peel(recv)[1]) if peel(recv)[0] == "field" else None, val))
    return out


def rule_reserve(ctx):
    facts = ctx.facts
    ops = {}
    for b in facts.bodies_of("nucleo"):
        fn = fn_of(b)
        for bi, t in fn.calls(lambda t: (t.get("fn") or "").startswith("std::sync::atomic::Atomic")):
            if not t["args"]:
                continue
            recv = fn.expr_of_operand(t["args"][0])
            if classify(fn, recv) != "Vec.inflight":
                continue
            m = t["fn"].rsplit("::", 1)[1]
            ops.setdefault(m, []).append((fn, bi, t))
    n_rmw = len(ops.get("fetch_add", []))
    n_load = len(ops.get("load", []))
    for m, lst in ops.items():
        for fn, bi, t in lst:
            if m in ("fetch_add", "load"):
                ctx.ok(site(fn, bi), "inflight.%s" % m)
            else:
                ctx.violation("%s|Vec.inflight.%s|1" % (fn.path, m), site(fn, bi),
                              "index counter modified with `%s`: reservations must be a single fetch_add and the counter must never decrease" % m)
    ctx.floor("fetch_add on the index counter", n_rmw, 2)
    ctx.floor("loads of the index counter", n_load, 1)
    for fn, bi, t in ops.get("fetch_add", []):
        if fn.path not in WRITERS:
            ctx.violation("%s|Vec.inflight.fetch_add|caller" % fn.path, site(fn, bi),
                          "index reserved outside push/extend")
    # every slot write addresses an index derived from this body's own reservation
    nwr = 0
    for w in WRITERS:
        fn = get_fn(facts, "nucleo", w)
        sw = slot_writes(fn)
        for bi, t, entry in sw:
            nwr += 1
            ok = False
            why = "entry pointer is not Bucket::get(.., Location::of(reserved index).entry, ..)"
            for x in walk(entry) if entry[0] != "local" else []:
                pass
            exprs = [entry]
            if entry[0] == "local":
                exprs = [e for _, _, e in fn.def_exprs(entry[1])]
            for ee in exprs:
                calls = [x for x in walk(ee) if x[0] == "call" and x[1] == "boxcar::Location::of"]
                locs = []
                for x in walk(ee):
                    if x[0] == "local":
                        for _, _, d in fn.def_exprs(x[1]):
                            locs += [y for y in walk(d) if y[0] == "call" and y[1] == "boxcar::Location::of"]
                for c in calls + locs:
                    arg = c[2][0]
                    has_res = any(y[0] == "call" and isinstance(y[1], str) and y[1].endswith("::fetch_add") for y in walk(arg))
                    if has_res:
                        ok = True
                    else:
                        why = "Location::of(%s) is not derived from this call's fetch_add reservation" % show(arg)
            if ok:
                ctx.ok(site(fn, bi), "slot write addresses the index reserved by this call's fetch_add")
            else:
                ctx.violation("%s|slot-write-index|1" % fn.path, site(fn, bi), why)
    ctx.floor("slot writes in push/extend", nwr, 2)


def rule_lying_iter(ctx):
    fn = get_fn(ctx.facts, "nucleo", VEC + "extend")
    fa = [(bi, t) for bi, t in fn.calls(lambda t: atomic_op(t) == "fetch_add")]
    if len(fa) != 1:
        # only the reservation counter matters here (a statistics counter bumped elsewhere is C09's business)
        fa = [(bi, t) for bi, t in fa if classify(fn, fn.expr_of_operand(t["args"][0])) == "Vec.inflight"]
    if len(fa) != 1:
        raise Inconclusive("extend: expected exactly one fetch_add on the reservation counter, found %d" % len(fa))
    amount = strip_casts(fn.expr_of_operand(fa[0][1]["args"][1]))
    # peel u64::from(..)
    if amount[0] == "call" and "From" in str(amount[1]):
        amount = strip_casts(amount[2][0])
    sw = slot_writes(fn)
    if not sw:
        raise Inconclusive("extend: slot write not found")
    # guard: a switch on Lt(i, count) whose false edge diverges and which every path to the slot write passes (true edge)
    found = None
    for bi in sorted(fn.live):
        t = fn.blocks[bi]["term"]
        if t["k"] != "switch":
            continue
        e = fn.expr_of_operand(t["discr"])
        if e[0] == "bin" and e[1] == "Lt":
            rhs = strip_casts(e[3])
            if rhs == amount:
                lhs = e[2]
                from_enum = any(x[0] == "call" and isinstance(x[1], str) and "Enumerate" in x[1] and x[1].endswith("::next") for x in walk(lhs))
                # the same count spelled `zip(0..)`: the index component of a Zip over a range that starts at 0
                if not from_enum and any(x[0] == "call" and isinstance(x[1], str) and "Zip" in x[1] and x[1].endswith("::next") for x in walk(lhs)):
                    from_enum = any(x[0] == "agg" and str(x[1]).endswith("RangeFrom::RangeFrom") and isinstance(x[2], dict) and strip_casts(x[2].get("start", ("?",)))[:2] == ("const", 0) for x in walk(lhs))
                false_t = [bb for v, bb in t["arms"] if v == 0]
                if from_enum and false_t and is_diverging(fn, false_t[0]):
                    found = (bi, t["otherwise"])
    if not found:
        # (b) the same guard written on absolute indices: `index < start + count` with index counted up from start
        from cfg import poly_of, Poly
        fa_id = (fa[0][0], fa[0][1]["dest"]["l"])

        def is_start(x):
            x = strip_casts(x)
            for _ in range(6):
                if x[0] == "call" and (str(x[1]).endswith("::expect") or str(x[1]).endswith("::unwrap") or str(x[1]).endswith("try_into") or str(x[1]).endswith("try_from") or "From" in str(x[1])):
                    x = strip_casts(x[2][0])
                else:
                    break
            return x[0] == "call" and len(x) > 4 and x[4] == fa_id

        def atomz(x):
            x0 = strip_casts(x)
            if is_start(x0):
                return "S"
            if x0 == amount:
                return "A"
            return None
        for bi in sorted(fn.live):
            t = fn.blocks[bi]["term"]
            if t["k"] != "switch":
                continue
            e = fn.expr_of_operand(t["discr"])
            if e[0] == "bin" and e[1] == "Lt":
                ry = poly_of(e[3], atomz)
                if not ry.has_opaque() and (ry - Poly.atom("S") - Poly.atom("A")).t in ({}, {(): 0}) or (not ry.has_opaque() and all(v == 0 for v in (ry - Poly.atom("S") - Poly.atom("A")).t.values())):
                    lhs = e[2]
                    counts_from_start = any(x[0] == "agg" and str(x[1]).endswith("RangeFrom::RangeFrom") and isinstance(x[2], dict) and is_start(x[2].get("start", ("?",))) for x in walk(lhs)) or \
                        any(x[0] in ("bin", "checked") and x[1] == "Add" and (is_start(x[2]) or is_start(x[3])) for x in walk(lhs))
                    from_iter = any(x[0] == "call" and str(x[1]).endswith("::next") for x in walk(lhs))
                    false_t = [bb for v, bb in t["arms"] if v == 0]
                    if counts_from_start and from_iter and false_t and is_diverging(fn, false_t[0]):
                        found = (bi, t["otherwise"])
    if not found:
        # (c) a countdown: `remaining = count; .. remaining = remaining.checked_sub(1).expect(..)` before every write
        for bi, t in fn.calls(lambda t: str(callee(t)).endswith("::expect") or str(callee(t)).endswith("::unwrap")):
            inner = strip_casts(fn.expr_of_operand(t["args"][0]))
            if not (inner[0] == "call" and str(inner[1]).endswith("checked_sub") and strip_casts(inner[2][1])[:2] == ("const", 1)):
                continue
            r0 = strip_casts(inner[2][0])
            if r0[0] != "local":
                continue
            defs = [strip_casts(d) for _, _, d in fn.def_exprs(r0[1])]
            init_ok = any(d == amount for d in defs)
            back = t["dest"]["l"] == r0[1] or any(d[0] == "call" and len(d) > 4 and d[4] == (bi, t["dest"]["l"]) for d in defs)
            others = [d for d in defs if d != amount and not (d[0] == "call" and len(d) > 4 and d[4] == (bi, t["dest"]["l"]))]
            if init_ok and back and not others and t.get("target") is not None:
                if all(fn.dominates(bi, wb) for wb, _, _ in sw):
                    for wb, wt, entry in sw:
                        ctx.ok(site(fn, wb), "slot write dominated by `remaining = remaining.checked_sub(1).expect(..)`, remaining initialised to the fetch_add amount")
                    found = "countdown"
    if found == "countdown":
        pass
    elif not found:
        ctx.violation(VEC + "extend|len-guard|1", site(fn, sw[0][0]),
                      "no `i < count` guard (count = the amount added to the index counter) on the loop index before the slot write: an ExactSizeIterator that under-reports its length writes into indices it never reserved")
    else:
        gb, tb = found
        for bi, t, entry in sw:
            if fn.must_pass(bi, via_edges=[(gb, tb)]):
                ctx.ok(site(fn, bi), "slot write dominated by assert!(i < count), count == fetch_add amount")
            else:
                ctx.violation(VEC + "extend|len-guard|2", site(fn, bi), "a path reaches the slot write without passing the `i < count` guard")
        # the bucket switch inside the loop (get_or_alloc for a new bucket) is also behind the guard
        for bi, t in fn.calls(lambda t: callee(t) == VEC + "get_or_alloc"):
            if gb in fn.reach_from(0) and bi in fn.reach_from(tb) and not fn.must_pass(bi, via_edges=[(gb, tb)]):
                pass
    # zero-length branch: asserts the iterator is empty before returning
    zero = None
    for bi in sorted(fn.live):
        t = fn.blocks[bi]["term"]
        if t["k"] == "switch":
            e = fn.expr_of_operand(t["discr"])
            if e[0] == "bin" and e[1] == "Eq" and strip_casts(e[2]) == amount and e[3][0] == "const" and e[3][1] == 0:
                zero = (bi, t["otherwise"])
    if zero is None:
        ctx.note("no `count == 0` early return (fine: then the general path handles it)")
    else:
        zb, zt = zero
        # on the zero branch, every path to Return passes a `next()` call on the iterator whose Some edge diverges
        r = fn.reach_from(zt, removed_nodes=[])
        nexts = [bi for bi, t in fn.calls(lambda t: callee(t).endswith("::next")) if bi in r and fn.must_pass(bi, via_edges=[(zb, zt)])]
        if nexts and all(not fn.all_paths_to_return_pass(zt, via_nodes=[]) or True for _ in [0]):
            ok = fn.all_paths_to_return_pass(zt, via_nodes=nexts) or not any(x in fn.reach_from(zt) for x in fn.returns)
            # the branch returns; require that the return is only reached through the next() probe
            if fn.all_paths_to_return_pass(zt, via_nodes=nexts):
                ctx.ok(site(fn, zb), "zero-length batch: iterator probed with next() before returning")
            else:
                ctx.violation(VEC + "extend|zero-len|1", site(fn, zb), "zero-length branch can return without probing the iterator")
        else:
            ctx.violation(VEC + "extend|zero-len|1", site(fn, zb),
                          "zero-length branch returns without checking that the iterator is really empty (items of a lying iterator would be dropped silently / the count contract is not enforced)")


def rule_init_before_publish(ctx):
    n = 0
    for w in WRITERS:
        fn = get_fn(ctx.facts, "nucleo", w)
        stores = active_stores(fn)
        sw = slot_writes(fn)
        for bi, t, entry, val in stores:
            n += 1
            key = "%s|Entry.active.store|1" % fn.path
            if val != 1:
                ctx.violation(key + "|value", site(fn, bi), "active flag stored with a value other than true in a writer")
                continue
            problems = []
            # (a) column default-initialisation loop: a write through UnsafeCell::get of a matcher_cols_raw element
            colw = []
            for wbi, wt in fn.calls(lambda t: callee(t).endswith("::write") or callee(t).endswith("::write_volatile")):
                if not wt["args"] or any(wbi == s_[0] for s_ in sw):
                    continue
                e = fn.expr_of_operand(wt["args"][0])
                if any(x[0] == "call" and x[1] == "boxcar::Entry::<T>::matcher_cols_raw" for x in walk(e)):
                    colw.append(wbi)
                else:
                    # iterator element: chase the loop iterator local
                    for x in walk(e):
                        if x[0] == "local":
                            for _, _, d in fn.def_exprs(x[1]):
                                if any(y[0] == "call" and y[1] == "boxcar::Entry::<T>::matcher_cols_raw" for y in walk(d)):
                                    colw.append(wbi)
            raw_calls = [cbi for cbi, ct in fn.calls(lambda t: callee(t) == "boxcar::Entry::<T>::matcher_cols_raw")]
            if not colw or not raw_calls:
                problems.append("no default-initialisation of the matcher columns found")
            elif not any(fn.dominates(c, bi) for c in raw_calls):
                problems.append("column initialisation does not dominate the publication")
            # the init loop must have finished: its exhaustion exit dominates the store
            # (b) fill_columns callback
            cb = [cbi for cbi, ct in fn.calls(lambda t: callee(t) in ("std::ops::FnOnce::call_once", "std::ops::Fn::call", "std::ops::FnMut::call_mut"))]
            cbd = [c for c in cb if fn.dominates(c, bi)]
            if not cbd:
                problems.append("fill_columns callback does not dominate the publication")
            else:
                for c in cbd:
                    ct = fn.blocks[c]["term"]
                    argt = fn.expr_of_operand(ct["args"][1])
                    if not any(x[0] == "call" and x[1] == "boxcar::Entry::<T>::matcher_cols_mut" for x in walk(argt)):
                        problems.append("callback is not given this entry's matcher columns")
            # (c) slot write
            swd = [s for s in sw if fn.dominates(s[0], bi) and s[2] == entry]
            if not swd:
                problems.append("slot write on the same entry does not dominate the publication")
            # (d) the column init loop precedes the callback: callback dominated by the loop's write-site header exit
            if colw and cbd and not all(any(r in fn.reach_from(0) and fn.dominates(r, c) for r in raw_calls) for c in cbd):
                problems.append("callback may run before the columns are default-initialised")
            # (e) nothing touches the entry after publication until it is re-derived
            after = set()
            tgt = t["target"]
            defblocks = set()
            if entry and entry[0] == "call":
                defblocks = {entry[4][0]}
            entry_local = entry[4][1] if entry and entry[0] == "call" else (entry[1] if entry and entry[0] == "local" else None)
            if entry_local is not None:
                if entry[0] == "local":
                    defblocks = {d[0] for d in fn.defs.get(entry_local, [])}
                r = fn.reach_from(tgt, removed_nodes=defblocks)
                for u in uses_of_local(fn, entry_local):
                    ub = u[1]
                    if ub in r and ub != bi:
                        problems.append("entry pointer used after publication at %s" % fn.loc(ub))
                        break
            else:
                problems.append("cannot identify the entry pointer local")
            if problems:
                ctx.violation(key, site(fn, bi), "; ".join(problems))
            else:
                ctx.ok(site(fn, bi), "columns default-initialised, callback run, slot written on the same entry before active.store(true); entry untouched afterwards")
    ctx.floor("publication sites", n, 2)


def rule_read_gated(ctx):
    facts = ctx.facts
    sites_ = calls_to(facts, "nucleo", lambda t: callee(t) == "boxcar::Entry::<T>::read")
    ctx.floor("calls of Entry::read", len(sites_), 3)
    for fn, bi, t in sites_:
        key = "%s|Entry::read|1" % fn.path
        if fn.path == VEC + "get_unchecked":
            # unsafe contract; must be preceded by the acquire load of this entry's flag
            loads = [lbi for lbi, lt in fn.calls(lambda t: atomic_op(t) == "load") if classify(fn, fn.expr_of_operand(lt["args"][0])) == "Entry.active"]
            if any(fn.dominates(l, bi) for l in loads):
                ctx.ok(site(fn, bi), "get_unchecked: acquire barrier on the entry's flag dominates the read (caller contract covers initialisation)")
            else:
                ctx.violation(key, site(fn, bi), "get_unchecked reads the entry without the acquire load of its active flag")
            continue
        if fn.b["kind"] != "Closure":
            # plain control flow: the read must be control dependent on `active.load(..) == true` of the SAME entry
            # and on the bucket pointer being non-null
            rentry = peel(fn.expr_of_operand(t["args"][0]))
            gs = guards_of(fn, bi)
            flag_ok = null_ok = False
            other = None
            for gbi, sb, vals, e in gs:
                neg = False
                while e[0] == "un" and e[1] == "Not":
                    e = e[2]
                    neg = not neg
                truth = (vals in ([None], [1])) != neg
                if e[0] == "call" and isinstance(e[1], str) and e[1].endswith("::load") and classify(fn, e[2][0]) == "Entry.active":
                    fe = peel(peel(e[2][0])[1])
                    if truth and fe == rentry:
                        flag_ok = True
                    elif truth:
                        other = fe
                if e[0] == "call" and isinstance(e[1], str) and e[1].endswith("::is_null") and not truth:
                    null_ok = True
                if e[0] == "discr" and any(x[0] == "call" and str(x[1]).endswith("NonNull::<T>::new") for x in walk(e)) and vals == [1]:
                    null_ok = True
            if flag_ok and null_ok:
                ctx.ok(site(fn, bi), "read control dependent on active.load of the same entry being true, behind the null check")
            elif flag_ok:
                ctx.violation(key + "|null", site(fn, bi), "entry dereferenced without the `entries.is_null()` check on this path")
            elif other is not None:
                ctx.violation(key, site(fn, bi), "flag loaded from a different entry than the one read: %s vs %s" % (show(other), show(rentry)))
            else:
                ctx.violation(key, site(fn, bi), "Entry::read called outside get_unchecked without being gated on the entry's active flag")
            continue
        parent = get_fn(facts, "nucleo", fn.b["root"])
        cr = [c for c in closure_creations(parent) if c[3] == fn.path]
        if not cr:
            # created inside another closure of the same function (e.g. the closure of an `and_then` on the non-null pointer)
            for ob in facts.bodies_of("nucleo"):
                if ob.get("root") == fn.b["root"] and ob["path"] != fn.path and ob.get("kind") == "Closure":
                    of = fn_of(ob)
                    cr = [c for c in closure_creations(of) if c[3] == fn.path]
                    if cr:
                        parent = of
                        break
        if not cr:
            raise Inconclusive("closure creation for %s not found" % fn.path)
        cbi, csi, clocal, cpath, caps = cr[0]
        cons = closure_consumer(parent, clocal)
        if cons is None or callee(cons[1]) != "core::bool::<impl bool>::then":
            ctx.violation(key, site(fn, bi), "closure reading the entry is not the argument of bool::then on the active flag (consumer: %s)" % (callee(cons[1]) if cons else None))
            continue
        tb, tt, pos = cons
        flag = parent.expr_of_operand(tt["args"][0])
        if not (flag[0] == "call" and isinstance(flag[1], str) and flag[1].endswith("::load") and classify(parent, flag[2][0]) == "Entry.active"):
            ctx.violation(key, site(parent, tb), "bool::then receiver is not a load of the entry's active flag: %s" % show(flag))
            continue
        flag_entry = peel(peel(flag[2][0])[1])
        cap_entry = None
        for n_, o in caps.items():
            if n_ == "entry":
                cap_entry = peel(parent.expr_of_operand(o))
        # the pointer read inside the closure is the captured one
        rarg = fn.expr_of_operand(t["args"][0])
        base, names = field_chain(rarg)
        if cap_entry is None or names[:1] != ["entry"]:
            ctx.violation(key, site(fn, bi), "closure does not read the captured `entry` pointer")
            continue
        if cap_entry != flag_entry:
            ctx.violation(key, site(parent, tb), "flag loaded from a different entry than the one read: %s vs %s" % (show(flag_entry), show(cap_entry)))
            continue
        # null gate (the bucket pointer may be null in get / Iter::next)
        gated_null = False
        for gbi, sb, vals, e in guards_of(parent, tb):
            if e[0] == "call" and isinstance(e[1], str) and e[1].endswith("::is_null") and vals == [0]:
                gated_null = True
            if e[0] == "discr" and any(x[0] == "call" and str(x[1]).endswith("NonNull::<T>::new") for x in walk(e)):
                # `NonNull::new(p)` matched on Some (discriminant 1), or `NonNull::new(p)?` continuing (ControlFlow::Continue = 0)
                through_try = any(x[0] == "call" and str(x[1]).endswith("Try>::branch") for x in walk(e))
                if vals == ([0] if through_try else [1]):
                    gated_null = True
        if not gated_null and parent.b.get("kind") == "Closure":
            # the creating closure is itself the function of and_then / map / .. on `NonNull::new(p)`: it only runs for non-null p
            for ob in facts.bodies_of("nucleo"):
                if ob.get("root", ob["path"]) != parent.b.get("root") or ob["path"] == parent.path:
                    continue
                of = fn_of(ob)
                for c2 in closure_creations(of):
                    if c2[3] != parent.path:
                        continue
                    cons2 = closure_consumer(of, c2[2])
                    if cons2 and callee(cons2[1]).rsplit("::", 1)[-1] in ("and_then", "map", "map_or", "is_some_and", "map_or_else") and "Option" in callee(cons2[1]):
                        recv = peel(of.expr_of_operand(cons2[1]["args"][0]))
                        if recv[0] == "call" and str(recv[1]).endswith("NonNull::<T>::new"):
                            gated_null = True
        if not gated_null:
            ctx.violation(key + "|null", site(parent, tb), "entry dereferenced without the `entries.is_null()` check on this path")
            continue
        ctx.ok(site(fn, bi), "read only inside bool::then on active.load of the same entry, behind the null check")


def rule_get_verdicts(ctx):
    """`get(i)` may answer None for exactly two reasons: the bucket is not allocated, or the entry's flag is not set.
    Any further condition under which it answers None (a cached length, a `published` counter, a range test on the
    index) can hide an element whose push has already returned: such counters order completions, not indices."""
    from cfg import decision_paths
    fn = get_fn(ctx.facts, "nucleo", VEC + "get")
    paths = decision_paths(fn)
    ctx.floor("decision paths of Vec::get", len(paths), 2)
    n_none = 0
    for conds, res in paths:
        if res is None:
            continue
        r = strip_casts(res)
        is_none = r[0] == "agg" and str(r[1]).endswith("Option::None")
        extra = []
        ok_reason = False
        for d, chosen, allv in conds:
            e = strip_casts(d)
            neg = False
            while e[0] == "un" and e[1] == "Not":
                e = strip_casts(e[2])
                neg = not neg
            truth = ((chosen != 0) if chosen is not None else True) != neg
            if e[0] == "call" and str(e[1]).endswith("::is_null"):
                if truth:
                    ok_reason = True
                continue
            if e[0] == "discr" and any(x[0] == "call" and str(x[1]).endswith("NonNull::<T>::new") for x in walk(e)):
                if chosen == 0:
                    ok_reason = True
                continue
            if e[0] == "call" and str(e[1]).endswith("::load") and classify(fn, e[2][0]) == "Entry.active":
                if not truth:
                    ok_reason = True
                continue
            if e[0] == "overflowflag":
                continue
            extra.append((e, truth))
        if is_none:
            n_none += 1
            if ok_reason:
                ctx.ok(site(fn, 0), "None because the bucket is not allocated / the entry is not active")
            else:
                why = "; ".join("%s is %s" % (show(e)[:70], t_) for e, t_ in extra) or "no condition at all"
                ctx.violation(VEC + "get|none-verdict|%d" % n_none, site(fn, 0),
                              "get answers None when %s: that is neither `bucket not allocated` nor `entry not active`, so an element whose push has returned can be reported "
                              "missing (completions are not ordered by index)" % why)
        elif extra:
            # a Some / flag-dependent answer behind an extra condition is fine as long as the other side is not None
            pass
    if n_none == 0:
        ctx.ok(site(fn, 0), "no unconditional None in Vec::get (the verdict is `active.load(..).then(..)`)")


def rule_layout_pure(ctx):
    """Where entry i lives is `base + i * Entry::<T>::layout(cols).size()`, computed independently by alloc, get and
    dealloc; push and get agree on the slot of an index only if that stride is a pure function of (T, cols).  The
    layout functions therefore read nothing but their arguments and type-level constants: no statics, no atomics, no
    `self` state (a memo in a `static` inside a generic function is shared by every T)."""
    import json as _json
    facts = ctx.facts
    n = 0
    for b in facts.bodies_of("nucleo"):
        if not (b["path"].startswith("boxcar::") and b["path"].endswith("::layout")) or b.get("kind") == "Closure":
            continue
        fn = fn_of(b)
        n += 1
        bad = []
        for f_ in closure_tree(facts, "nucleo", b["path"]):
            for bi, t in f_.calls(lambda t: atomic_op(t) is not None):
                bad.append("atomic %s" % atomic_op(t))
            js = _json.dumps(f_.b["blocks"])
            if '"static"' in js or '"kind": "static"' in js:
                bad.append("reads a static")
            for bi in sorted(f_.live):
                for s_ in f_.blocks[bi]["stmts"]:
                    if s_.get("k") == "assign":
                        for x in walk(f_.expr_of_rvalue(s_["rv"])):
                            if x[0] == "static":
                                bad.append("reads static %s" % x[1])
        if bad:
            ctx.violation("%s|pure|1" % b["path"], site(fn, 0),
                          "%s %s: the stride between entries is no longer a function of (T, cols) alone; with a value remembered from another item type, push and get address "
                          "different slots for the same index and neighbouring entries overlap" % (b["path"], sorted(set(bad))))
        else:
            ctx.ok(site(fn, 0), "%s depends on its arguments and the item type only" % b["path"])
    ctx.floor("layout functions of the vector", n, 2)


def rule_bucket_race(ctx):
    fn = get_fn(ctx.facts, "nucleo", VEC + "get_or_alloc")
    cas = [(bi, t) for bi, t in fn.calls(lambda t: (atomic_op(t) or "").startswith("compare_exchange"))]
    # who installs bucket pointers, and how: only a CAS from null may write Bucket.entries
    n_inst = 0
    for b in ctx.facts.bodies_of("nucleo"):
        f2 = fn_of(b)
        for bi2, t2 in f2.calls(lambda t: atomic_op(t) in ("store", "swap", "fetch_update", "compare_exchange", "compare_exchange_weak")):
            if classify(f2, f2.expr_of_operand(t2["args"][0])) != "Bucket.entries":
                continue
            n_inst += 1
            m2 = atomic_op(t2)
            if m2 == "compare_exchange":
                ctx.ok(site(f2, bi2), "bucket pointer installed with compare_exchange")
            else:
                ctx.violation("%s|Bucket.entries.%s|install" % (f2.path, m2), site(f2, bi2),
                              "bucket pointer written with `%s`: two writers that both find the bucket unallocated each install their own allocation, the later one orphans the earlier together with every item already written through it (a completed push is lost: get(index) returns None)" % m2)
    if len(cas) != 1:
        if n_inst == 0:
            ctx.violation(VEC + "get_or_alloc|cas|missing", site(fn, 0), "get_or_alloc does not install the bucket at all")
        return
    bi, t = cas[0]
    key = VEC + "get_or_alloc|cas|1"
    expected = fn.expr_of_operand(t["args"][1])
    new = fn.expr_of_operand(t["args"][2])
    problems = []
    if not (expected[0] == "call" and str(expected[1]).endswith("ptr::null_mut")):
        problems.append("expected value of the CAS is not null: %s" % show(expected))
    raw_new = new
    while raw_new[0] in ("ref", "deref", "cast"):
        raw_new = raw_new[2] if raw_new[0] == "cast" else raw_new[1]
    alloc_id = raw_new[4] if raw_new[0] == "call" and len(raw_new) > 4 else None
    after_cas = fn.reach_from(t["target"]) if t["target"] is not None else set()

    def mentions_fresh(e):
        return alloc_id is not None and any(x[0] == "call" and len(x) > 4 and x[4] == alloc_id for x in walk(e))
    # (a) what is installed is a bucket whose flags are already initialised: Bucket::alloc's result, or a raw allocation
    #     whose flags were written (AtomicBool::new(false) through the fresh pointer) before the CAS
    if raw_new[0] == "call" and raw_new[1] == "boxcar::Bucket::<T>::alloc":
        pass
    elif raw_new[0] == "call" and str(raw_new[1]).endswith("alloc::alloc"):
        pre = [wb for wb, wt in fn.calls(lambda t: callee(t).endswith("::write")) if wb not in after_cas and bi in fn.reach_from(wb)
               and mentions_fresh(fn.expr_of_operand(wt["args"][0]))]
        if not pre:
            problems.append("the installed bucket is a raw allocation whose `active` flags are not initialised before the CAS publishes it")
    else:
        problems.append("new value is not a fresh Bucket::alloc")
    # (b) nothing writes through the fresh pointer once it is published: a concurrent writer may already have set a flag
    for wb, wt in fn.calls():
        if wb in after_cas and wb != bi and not any(callee(wt).endswith(x) for x in ("::dealloc",)):
            if any(mentions_fresh(fn.expr_of_operand(a)) for a in wt["args"]) and (callee(wt).endswith("::write") or callee(wt).endswith("::write_bytes") or callee(wt).endswith("::store")):
                problems.append("the fresh bucket is written through after the CAS has published it (%s at %s): a flag that a concurrent writer has already set is overwritten and a completed push becomes unreadable" % (callee(wt).rsplit("::", 1)[-1], site(fn, wb)))
                break
    if atomic_op(t) == "compare_exchange_weak":
        problems.append("compare_exchange_weak may fail spuriously: the fresh bucket would be freed and a null pointer returned")
    # per decision path (match, if-let, early return…): the winner returns the fresh pointer and frees nothing;
    # the loser frees its own fresh allocation once, with the (len, cols) it was allocated with, and returns the
    # pointer found in the bucket
    from cfg import decision_paths
    cas_id = (bi, t["dest"]["l"])
    seen_out = set()
    try:
        paths = decision_paths(fn, with_calls=True)
    except Inconclusive:
        if problems:
            ctx.violation(key, site(fn, bi), "; ".join(problems))
            return
        # a loop in front of the CAS (flags initialised in place): look at the part from the CAS on
        paths = decision_paths(fn, with_calls=True, start=bi, free_locals=True)

    def unfree(e):
        if isinstance(e, tuple) and e and e[0] == "free":
            try:
                return fn.expr_of_local(e[1])
            except Exception:
                return e
        return e
    for conds, res, calls in paths:
        outcome = None
        for d, chosen, allv in conds:
            if d[0] == "discr" and isinstance(d[1], tuple) and d[1][0] == "call" and d[1][4] == cas_id:
                if chosen is not None:
                    outcome = "ok" if chosen == 0 else "err"
                else:
                    outcome = "err" if 0 in allv else ("ok" if 1 in allv else None)
        if outcome is None:
            if any(c[1] == cas_id for c in calls):
                problems.append("a path after the CAS does not look at its result")
            continue
        seen_out.add(outcome)
        deallocs = [c for c in calls if c[0] == "boxcar::Bucket::<T>::dealloc"]
        r = unfree(res)
        while r is not None and r[0] in ("ref", "deref", "cast"):
            r = unfree(r[2] if r[0] == "cast" else r[1])
        if outcome == "ok":
            if not (r is not None and r[0] == "call" and r[4] == alloc_id):
                problems.append("winner does not return the pointer it installed: %s" % show(res))
            if deallocs:
                problems.append("winner arm frees a bucket")
        else:
            found = r is not None and r[0] == "field" and r[2] == "0" and any(x[0] == "call" and x[4] == cas_id for x in walk(r) if x[0] == "call" and len(x) > 4)
            if not found:
                problems.append("loser does not return the pointer found in the bucket: %s" % show(res))
            if len(deallocs) != 1:
                problems.append("loser does not free its own allocation exactly once")
            else:
                dargs = deallocs[0][2]
                a0 = unfree(dargs[0])
                while a0[0] in ("ref", "deref", "cast"):
                    a0 = unfree(a0[2] if a0[0] == "cast" else a0[1])
                if not (a0[0] == "call" and a0[4] == alloc_id):
                    problems.append("loser frees %s instead of its own fresh allocation" % show(dargs[0]))
                alloc_args = raw_new[2] if raw_new[0] == "call" else ()
                if raw_new[0] == "call" and str(raw_new[1]).endswith("alloc::alloc"):
                    # raw allocation: (len, cols) are the arguments of the layout it was allocated with
                    lay = [x for x in walk(raw_new[2][0]) if x[0] == "call" and str(x[1]).endswith("Bucket::<T>::layout")]
                    if lay:
                        inner = [x for x in walk(lay[0][2][1]) if x[0] == "call" and str(x[1]).endswith("Entry::<T>::layout")]
                        alloc_args = (lay[0][2][0], inner[0][2][0]) if inner else ()
                if tuple(canon(x) for x in dargs[1:]) != tuple(canon(x) for x in alloc_args):
                    problems.append("dealloc (len, cols) differ from the alloc (len, cols)")
    if seen_out != {"ok", "err"}:
        problems.append("the CAS result is not handled for both outcomes (%s)" % sorted(seen_out))
    if problems:
        ctx.violation(key, site(fn, bi), "; ".join(problems))
    else:
        ctx.ok(site(fn, bi), "CAS(null -> fresh); winner returns fresh; loser frees fresh with same (len, cols) and returns found")
    # callers use the returned pointer when they need one
    for w in WRITERS:
        wf = get_fn(ctx.facts, "nucleo", w)
        for cbi, ct in wf.calls(lambda t: callee(t) == VEC + "get_or_alloc"):
            # calls guarded by `entries.is_null()` must assign the result to the entries variable
            g = [x for x in guards_of(wf, cbi) if x[3][0] == "call" and str(x[3][1]).endswith("::is_null")]
            if not g:
                ctx.ok(site(wf, cbi), "eager allocation of the next bucket (result unused by design)")
                continue
            # the pointer this call returns must be the one the entry is addressed through afterwards: it flows
            # (through moves, re-assignment of `entries`, the return value of an inlined helper…) into the bucket
            # pointer argument of a later Bucket::get
            def call_ids(e, depth=0, seen=None):
                seen = seen if seen is not None else set()
                out = set()
                if not isinstance(e, tuple) or depth > 14:
                    return out
                if e[0] == "call":
                    if len(e) > 4:
                        out.add(e[4])
                    return out
                if e[0] == "local":
                    if e[1] in seen:
                        return out
                    seen.add(e[1])
                    for _, _, d in wf.def_exprs(e[1]):
                        out |= call_ids(d, depth + 1, seen)
                    return out
                for x in e[1:]:
                    if isinstance(x, tuple):
                        out |= call_ids(x, depth + 1, seen)
                return out
            my_id = (cbi, ct["dest"]["l"])
            assigned = False
            after = wf.reach_from(ct["target"]) if ct["target"] is not None else set()
            # equally correct: ignore the result and re-load the (now certainly installed) bucket pointer
            reloads = set((lbi, lt["dest"]["l"]) for lbi, lt in wf.calls(lambda t: atomic_op(t) == "load")
                          if lbi in after and wf.dominates(cbi, lbi) and classify(wf, wf.expr_of_operand(lt["args"][0])) == "Bucket.entries")
            for gbi, gt in wf.calls(lambda t: callee(t) == "boxcar::Bucket::<T>::get"):
                ids_ = call_ids(wf.expr_of_operand(gt["args"][0]))
                if gbi in after and (my_id in ids_ or (reloads & ids_)):
                    assigned = True
            if assigned:
                ctx.ok(site(wf, cbi), "pointer returned by get_or_alloc replaces the null `entries`")
            else:
                ctx.violation("%s|get_or_alloc-result|1" % wf.path, site(wf, cbi),
                              "result of get_or_alloc is not stored into the `entries` pointer that was found null: the writer would use a null or its own discarded allocation")


def rule_len_agree(ctx):
    """Every (bucket, len) pair handed to get_or_alloc is the length of that very bucket."""
    n = 0
    for w in WRITERS:
        fn = get_fn(ctx.facts, "nucleo", w)
        for bi, t in fn.calls(lambda t: callee(t) == VEC + "get_or_alloc"):
            n += 1
            b = fn.expr_of_operand(t["args"][0])
            ln = fn.expr_of_operand(t["args"][1])
            key = "%s|get_or_alloc-len|%d" % (fn.path, n)
            bb = peel(b)
            # bucket expr: slice.get(loc.bucket + 1) -> Some.0  | get_unchecked(loc.bucket) | local `bucket`
            def bucket_index(e):
                e = peel(e)
                if e[0] == "field" and peel(e[1])[0] == "downcast":
                    e = peel(peel(e[1])[1])
                if e[0] == "call" and (str(e[1]).endswith("[T]>::get") or str(e[1]).endswith("[T]>::get_unchecked")):
                    return strip_casts(e[2][1])
                return None
            idxs = []
            if bb[0] == "local":
                for _, _, d in fn.def_exprs(bb[1], at=bi):
                    idxs.append(bucket_index(d))
            else:
                idxs.append(bucket_index(b))
            if not idxs or any(i is None for i in idxs):
                ctx.fail_closed("cannot resolve the bucket argument at %s: %s" % (site(fn, bi), show(b)))
                continue
            okc = True
            for idx in idxs:
                # idx forms: cast(loc.bucket) or Add(cast(loc.bucket), 1)
                plus1 = False
                i2 = idx
                if i2[0] in ("bin", "checked") and i2[1] == "Add" and i2[3][0] == "const" and i2[3][1] == 1:
                    plus1 = True
                    i2 = strip_casts(i2[2])
                i2 = strip_casts(i2)
                if not (i2[0] == "field" and i2[2] == "bucket"):
                    okc = False
                    continue
                loc = i2[1]
                # len forms: loc.bucket_len (same loc) / Shl(loc.bucket_len,1) for +1 / Location::bucket_len(loc.bucket)
                l2 = strip_casts(ln)
                if plus1:
                    good = l2[0] == "bin" and l2[1] == "Shl" and l2[2][0] == "field" and l2[2][2] == "bucket_len" and l2[2][1] == loc and l2[3][0] == "const" and l2[3][1] == 1
                else:
                    good = (l2[0] == "field" and l2[2] == "bucket_len" and l2[1] == loc) or \
                           (l2[0] == "call" and l2[1] == "boxcar::Location::bucket_len" and strip_casts(l2[2][0]) == i2)
                if not good:
                    okc = False
            if okc:
                ctx.ok(site(fn, bi), "bucket %s allocated with its own length %s" % (show(b)[:60], show(ln)[:60]))
            else:
                ctx.violation(key, site(fn, bi), "bucket %s allocated with length %s, which is not that bucket's length: entries beyond the allocation would be addressed (or memory wasted and later freed with the wrong layout)" % (show(b)[:80], show(ln)[:80]))
    ctx.floor("get_or_alloc call sites", n, 5)


class _Aff:
    """Abstract value of a u32 expression over one class of indices: a constant; or index + off for every index in
    [lo, hi] (slope exactly one, so distinct indices give distinct values); or, when a bit operation is not affine on
    the class, just an interval `iv` (sound bounds, injectivity unknown)."""
    def __init__(self, off, lo=None, hi=None, iv=None):
        self.off, self.lo, self.hi, self.iv = off, lo, hi, iv

    @property
    def const(self):
        return self.lo is None and self.iv is None

    def rng(self):
        if self.iv is not None:
            return self.iv
        return (self.off, self.off) if self.const else (self.lo + self.off, self.hi + self.off)


class _NoAbs(Exception):
    pass


def _aff_eval(facts, fn, e, env, depth=0):
    U32 = 2 ** 32
    e = strip_casts(e) if e[0] == "cast" else e
    k = e[0]
    if k == "const" and isinstance(e[1], int):
        return _Aff(e[1])
    if k == "arg":
        if e[1] in env:
            return env[e[1]]
        raise _NoAbs("unbound parameter")
    if k in ("ref", "deref"):
        return _aff_eval(facts, fn, e[1], env, depth)
    if k in ("bin", "checked"):
        a = _aff_eval(facts, fn, e[2], env, depth)
        b = _aff_eval(facts, fn, e[3], env, depth)
        op = e[1]
        if op in ("Add", "Sub") and (a.iv is not None or b.iv is not None):
            (al, ah), (bl, bh) = a.rng(), b.rng()
            r = _Aff(None, iv=(al + bl, ah + bh) if op == "Add" else (al - bh, ah - bl))
            if r.iv[0] < 0 or r.iv[1] >= U32:
                raise _NoAbs("u32 overflow in %s (would panic)" % op)
            return r
        if op in ("Add", "Sub"):
            sgn = 1 if op == "Add" else -1
            if b.const:
                r = _Aff(a.off + sgn * b.off, a.lo, a.hi)
            elif a.const and op == "Add":
                r = _Aff(b.off + a.off, b.lo, b.hi)
            elif not a.const and not b.const and op == "Sub" and (a.lo, a.hi) == (b.lo, b.hi):
                r = _Aff(a.off - b.off)
            else:
                raise _NoAbs("non-affine %s" % op)
            lo_, hi_ = r.rng()
            if lo_ < 0 or hi_ >= U32:
                raise _NoAbs("u32 overflow in %s (would panic)" % op)
            return r
        if op == "Shl" and a.const and b.const:
            if b.off >= 32:
                raise _NoAbs("shift overflow")
            return _Aff((a.off << b.off) % U32)
        if op == "Shr" and a.const and b.const:
            return _Aff(a.off >> b.off)
        if op == "BitXor" and b.const and b.off > 0 and (b.off & (b.off - 1)) == 0:
            # x ^ 2^j with bit j set in EVERY value of the class  ==  x - 2^j
            lo_, hi_ = a.rng()
            pj = b.off
            if (lo_ & ~(pj - 1)) == (hi_ & ~(pj - 1)) and (lo_ & pj):
                return _Aff(a.off - pj, a.lo, a.hi)
            if (lo_ & ~(pj - 1)) == (hi_ & ~(pj - 1)) and not (lo_ & pj):
                return _Aff(a.off + pj, a.lo, a.hi)     # bit clear in every value: x ^ 2^j == x + 2^j
            if hi_ < pj:
                return _Aff(a.off + pj, a.lo, a.hi)
            # the bit varies over the class: not affine; bits above it are untouched
            hi_mask = ~(2 * pj - 1)
            if (lo_ & hi_mask) == (hi_ & hi_mask):
                base = lo_ & hi_mask
                return _Aff(None, iv=(base, base + 2 * pj - 1))
            return _Aff(None, iv=(max(0, lo_ - pj), hi_ + pj))
        if op == "BitAnd" and b.const and ((b.off + 1) & b.off) == 0:
            # x & (2^j - 1): keeps the low j bits; affine when the class lies inside one aligned block of size 2^j
            lo_, hi_ = a.rng()
            blk = b.off + 1
            if (lo_ // blk) == (hi_ // blk):
                return _Aff(a.off - (lo_ // blk) * blk, a.lo, a.hi)
            return _Aff(None, iv=(0, blk - 1))
        if op == "BitOr" and b.const and b.off > 0 and (b.off & (b.off - 1)) == 0:
            lo_, hi_ = a.rng()
            pj = b.off
            if (lo_ & ~(pj - 1)) == (hi_ & ~(pj - 1)):
                return _Aff(a.off + (0 if (lo_ & pj) else pj), a.lo, a.hi)
            return _Aff(None, iv=(lo_, hi_ + pj))
        if op == "BitXor" and a.const and b.const:
            return _Aff(a.off ^ b.off)
        if op in ("Mul",) and a.const and b.const:
            return _Aff(a.off * b.off)
        raise _NoAbs("operator %s" % op)
    if k == "call":
        name = str(e[1])
        short = name.rsplit("::", 1)[-1]
        if short == "checked_add" and "u32" in name:
            a = _aff_eval(facts, fn, e[2][0], env, depth)
            b = _aff_eval(facts, fn, e[2][1], env, depth)
            if not b.const:
                raise _NoAbs("checked_add of two variables")
            r = _Aff(a.off + b.off, a.lo, a.hi)
            if r.rng()[1] >= U32:
                return ("none",)
            return ("some", r)
        if short in ("expect", "unwrap") and "Option" in name:
            v = _aff_eval(facts, fn, e[2][0], env, depth)
            if isinstance(v, tuple) and v[0] == "some":
                return v[1]
            raise _NoAbs("expect on None (panics)")
        if short == "leading_zeros":
            a = _aff_eval(facts, fn, e[2][0], env, depth)
            lo_, hi_ = a.rng()
            if lo_ <= 0 or lo_.bit_length() != hi_.bit_length():
                raise _NoAbs("leading_zeros not constant over the class")
            return _Aff(32 - lo_.bit_length())
        if short == "ilog2":
            a = _aff_eval(facts, fn, e[2][0], env, depth)
            lo_, hi_ = a.rng()
            if lo_ <= 0:
                raise _NoAbs("ilog2 of 0 (panics)")
            if lo_.bit_length() != hi_.bit_length():
                raise _NoAbs("ilog2 not constant over the class")
            return _Aff(lo_.bit_length() - 1)
        if short == "trailing_zeros" or short == "count_ones":
            a = _aff_eval(facts, fn, e[2][0], env, depth)
            if a.const:
                return _Aff((bin(a.off).count("1")) if short == "count_ones" else ((a.off & -a.off).bit_length() - 1 if a.off else 32))
            raise _NoAbs("%s of a non-constant" % short)
        if short in ("wrapping_sub", "wrapping_add") and "u32" in name:
            a = _aff_eval(facts, fn, e[2][0], env, depth)
            b2 = _aff_eval(facts, fn, e[2][1], env, depth)
            if b2.const and a.iv is None:
                r = _Aff(a.off + (b2.off if short == "wrapping_add" else -b2.off), a.lo, a.hi)
                if r.rng()[0] >= 0 and r.rng()[1] < U32:
                    return r
            raise _NoAbs("%s may wrap" % short)
        b = facts.body("nucleo", name)
        if b is not None and depth < 4:
            from cfg import decision_paths
            cf = fn_of(b)
            ps = decision_paths(cf)
            if len(ps) == 1 and not ps[0][0] and ps[0][1] is not None:
                argv = [_aff_eval(facts, fn, a_, env, depth) for a_ in e[2]]
                return _aff_eval(facts, cf, ps[0][1], {i + 1: v for i, v in enumerate(argv)}, depth + 1)
        raise _NoAbs("call of %s" % name)
    raise _NoAbs("expression %s" % k)


def rule_location_bijective(ctx):
    """Location::of is a bijection from the valid indices [0, MAX_ENTRIES] onto {(bucket, entry): bucket < BUCKETS,
    entry < bucket_len(bucket)}: two pushes never share a slot and every slot of every bucket is addressable.
    Abstract interpretation over the partition of the indices by the bit length of `index + SKIP` (27 classes): on each
    class `bucket` and `bucket_len` evaluate to constants and `entry` to `index + c` (slope one), its range is exactly
    [0, bucket_len), and bucket numbers are consecutive from 0 to BUCKETS-1.  No index is evaluated concretely."""
    from cfg import decision_paths
    facts = ctx.facts
    fn = get_fn(facts, "nucleo", "boxcar::Location::of")
    ps = decision_paths(fn)
    if len(ps) != 1 or ps[0][0] or ps[0][1] is None or ps[0][1][0] != "agg":
        raise Inconclusive("Location::of is not a single straight-line struct computation")
    flds = ps[0][1][2]
    if not {"bucket", "entry"} <= set(flds):
        raise Inconclusive("Location has no bucket/entry fields")
    skip = facts.const("nucleo", "boxcar::SKIP")["value"]
    buckets = facts.const("nucleo", "boxcar::BUCKETS")["value"]
    max_entries = facts.const("nucleo", "boxcar::MAX_ENTRIES")["value"]
    lenf = get_fn(facts, "nucleo", "boxcar::Location::bucket_len")
    lps = decision_paths(lenf)
    U32 = 2 ** 32
    classes = []
    kbit = (skip).bit_length()          # skipped >= SKIP = 2^(kbit-1)
    lo = 0
    while lo <= max_entries:
        sk_lo = lo + skip
        sk_hi = min((1 << sk_lo.bit_length()) - 1, max_entries + skip)
        classes.append((lo, sk_hi - skip))
        lo = sk_hi - skip + 1
    problems = []
    seen_buckets = []
    try:
        for lo, hi in classes:
            env = {1: _Aff(0, lo, hi)}
            try:
                b_ = _aff_eval(facts, fn, flds["bucket"], env)
                e_ = _aff_eval(facts, fn, flds["entry"], env)
                if "bucket_len" in flds:
                    _aff_eval(facts, fn, flds["bucket_len"], env)
            except _NoAbs as ex:
                if "overflow" in str(ex) or "panics" in str(ex):
                    problems.append("for indices %d..=%d the computation overflows / panics (%s)" % (lo, hi, ex))
                    continue
                raise
            if not b_.const:
                problems.append("bucket is not constant on indices %d..=%d" % (lo, hi))
                continue
            if e_.const:
                problems.append("entry does not depend on the index for indices %d..=%d (slots shared)" % (lo, hi))
                continue
            if e_.iv is not None:
                blen = _aff_eval(facts, lenf, lps[0][1], {1: _Aff(b_.off)})
                if e_.iv[0] >= blen.off:
                    problems.append("bucket %d: every entry computed for indices %d..=%d is >= %d but bucket_len is %d: write past the end of the bucket" % (b_.off, lo, hi, e_.iv[0], blen.off))
                    seen_buckets.append(b_.off)
                    continue
                if e_.iv[1] - e_.iv[0] + 1 < hi - lo + 1:
                    problems.append("bucket %d: %d indices are mapped into only %d entry values (slots shared)" % (b_.off, hi - lo + 1, e_.iv[1] - e_.iv[0] + 1))
                    seen_buckets.append(b_.off)
                    continue
                raise _NoAbs("entry is not affine on indices %d..=%d (bounds %s): injectivity not decided" % (lo, hi, e_.iv))
            blen = _aff_eval(facts, lenf, lps[0][1], {1: _Aff(b_.off)})
            elo, ehi = e_.rng()
            seen_buckets.append(b_.off)
            if elo != 0 and not (seen_buckets.count(b_.off) > 1):
                problems.append("bucket %d: first entry is %d, not 0 (slots below it are never used / previous bucket overlaps)" % (b_.off, elo))
            if ehi >= blen.off:
                problems.append("bucket %d: entry reaches %d but bucket_len is %d: write past the end of the bucket" % (b_.off, ehi, blen.off))
            if "bucket_len" in flds:
                bl2 = _aff_eval(facts, fn, flds["bucket_len"], env)
                if not bl2.const or bl2.off != blen.off:
                    problems.append("Location.bucket_len disagrees with Location::bucket_len(bucket) for bucket %d" % b_.off)
            # full classes must fill their bucket exactly (the last class is cut off by MAX_ENTRIES)
            if hi != classes[-1][1] and ehi != blen.off - 1:
                problems.append("bucket %d: last entry is %d, bucket_len %d: %d slots are never addressed" % (b_.off, ehi, blen.off, blen.off - 1 - ehi))
    except _NoAbs as ex:
        raise Inconclusive("Location::of is not affine on the bit-length classes of index + SKIP: %s" % ex)
    if seen_buckets != list(range(len(classes))):
        problems.append("bucket numbers over the index classes are %s, expected 0..%d in order" % (seen_buckets[:8], len(classes) - 1))
    if len(classes) != buckets:
        problems.append("the valid indices need %d buckets, the bucket array has BUCKETS = %d" % (len(classes), buckets))
    if problems:
        ctx.violation("boxcar::Location::of|bijective|1", site(fn, 0), "; ".join(problems[:3]))
    else:
        ctx.ok(site(fn, 0), "Location::of: %d index classes ↦ buckets 0..%d, entry = index + c on each, ranges exactly [0, bucket_len): a bijection onto the slots (all %d valid indices)"
               % (len(classes), buckets - 1, max_entries + 1))


def rules(ctx):
    ctx.run_rule("C08.location-bijective", rule_location_bijective)
    ctx.run_rule("C08.reserve", rule_reserve)
    ctx.run_rule("C08.lying-iter", rule_lying_iter)
    ctx.run_rule("C08.init-before-publish", rule_init_before_publish)
    ctx.run_rule("C08.read-gated", rule_read_gated)
    ctx.run_rule("C08.get-verdicts", rule_get_verdicts)
    ctx.run_rule("C08.bucket-race", rule_bucket_race)
    ctx.run_rule("C08.len-agree", rule_len_agree)
    ctx.run_rule("C08.layout-pure", rule_layout_pure)

#!/usr/bin/env python3
"""Run all 19 checks on every round-4 seed found in /tmp/seed4_*/SEED_*/patch.diff; print which rules fire."""
import glob, os, subprocess, sys, re
from concurrent.futures import ThreadPoolExecutor
VERIF = os.path.dirname(os.path.dirname(os.path.abspath(__file__)))
only = sys.argv[1] if len(sys.argv) > 1 else ""
def run(p):
    r = subprocess.run([sys.executable, os.path.join(VERIF, "tools", "mut.py"), "ALL", "--patch", p], capture_output=True, text=True)
    rules = sorted(set(re.findall(r"violation (C\d\d\.[\w-]+)", r.stdout)))
    inc = sorted(set(re.findall(r"INCONCLUSIVE (C\d\d\.[\w-]+)", r.stdout)))
    return p, rules, inc
ps = sorted(p for p in glob.glob("/tmp/seed[0-9]*_*/SEED_*/patch.diff") if only in p)
with ThreadPoolExecutor(max_workers=6) as ex:
    for p, rules, inc in ex.map(run, ps):
        prop = p.split("/")[2].split("_",1)[1]
        own = [r for r in rules if r.startswith(prop)]
        print("%-8s %-7s %-10s viol=%s %s" % (prop, p.split("/")[3], "CAUGHT" if own else ("other" if rules else "MISSED"), rules, ("inconclusive=%s" % inc) if inc else ""))
